#!/usr/bin/env python3
"""Regenerates MANIFEST.json from the table below (kept in one place so that it is always schema-valid)."""
import json, os

CLAIMED = {
    # id: (technique, level text, level note, design ref)
    "C13": ("MIR symbolic execution (mirsym) of format_file/format_string/output-thread closure/logger closure/format tail + z3 path queries; model-derived CLI replay",
            "bounded symbolic model checking of the real MIR: every control path of the encoded functions with all callee results symbolic; one inductive step of the output thread from an arbitrary status; solver decides each obligation, each model is replayed on the native binary",
            "trusts rustc's MIR printer, mirsym's MIR reading and summaries (Context/map_err passthrough, atomics, logger dispatch), z3; the similar-based diff equality and output text are outside", "5/C13"),
    "C14": ("MIR symbolic execution (mirsym) of format_file, worker closures, format_code/format_ast + z3 path queries; CLI replay",
            "bounded symbolic model checking of the real MIR: fs writes are reachable only after format_code Ok, not under --check, only when the text differs, with (path, formatted) arguments; every fs-mutating call site of the crate is accounted for; format() gives up early only for set-up / configuration / ignore-file errors and every way out of the walker loop passes pool.join() (CFG obligation: no worker is cut off mid-write by the process exit)",
            "trusts rustc's MIR printer, mirsym and its summaries, z3; atomicity of fs::write, thread pool and channel are assumed", "5/C14"),
}

CLAIMED["C17"] = ("MIR symbolic execution (mirsym) of format_string, output-thread closure arms, stdin worker closure + z3 path queries; stdin battery replay",
    "bounded symbolic model checking of the real MIR: the stdout buffer is format_code's Ok payload (or the input when skipped), written once under one lock; nothing on Err; no fs mutation; the range handed to the library is from_values(--range-start, --range-end) exactly when either option is given",
    "trusts rustc's MIR printer, mirsym and its summaries (into_bytes identity, Context passthrough), z3", "5/C17")

CLAIMED["C19"] = ("MIR-extracted atomic-operation programs of the output thread and the logger + z3 symbolic-schedule encoding (positions in the SeqCst order as Ints); schedule replay on the cfg(stylua_verif) build",
    "bounded symbolic model checking over ALL interleavings of k<=2 (thorough 3) results handled by the output thread and j<=1 (2) walker error logs; thread programs are regenerated from the MIR on every run; a counterexample schedule is replayed deterministically through the hooked binary; census: no static item or thread-local access other than the two status atomics, immutable tables and write-once lazy_statics survives from one file to the next; the file / stdin job closures are only ever handed to ThreadPool::execute",
    "trusts rustc's MIR printer, mirsym + atomics summary, z3; single-location coherence; threadpool/crossbeam contracts", "5/C19")

CLAIMED["C05"] = ("MIR rule extraction (mirsym, compositional mode) of the expression formatter + z3 queries per tree shape with symbolic operators/leaf kinds/layout predicates against a grammar oracle; Lua-source replay",
    "bounded symbolic model checking: for every tree shape with <=2 operators (thorough 3) and optional parentheses on every edge, in every entry context (format_expression, hang_expression, prefix), over ALL operators, leaf kinds and ALL layout decisions (width/comment predicates are free), the output re-parses to the same core tree with the same truncation; rules are regenerated from the MIR on every run",
    "trusts rustc's MIR printer, mirsym and the leaf/trivia identity summaries, the precedence oracle (Lua manual), z3; trees deeper than the bound and comment interaction are outside", "5/C05")

CLAIMED["C04"] = ("regex patterns + replacer closure + get_quote_to_use read from the MIR (mirsym), leftmost-first replace_all encoding over N symbolic characters, z3 against an independent Lua string decoder; literal replay",
    "bounded symbolic model checking: for every literal body of <=4 (thorough 5) characters over the escape alphabet, both input quotes, all 4 quote styles: decode(out)=decode(in), the output is lexically valid, forced quotes are honoured, the replacer's panics are unreachable; number arm: only 0-insertion before a leading dot",
    "trusts rustc's MIR printer, mirsym, the regex front end (leftmost-first semantics), the decoder oracle, z3; longer literals are outside", "5/C04")

CLAIMED["C08"] = ("mirsym over should_format_node / check_toggle_formatting / format_block (one loop step + tail) / format_stmt / format_last_stmt / format_eof with symbolic comment lines, flags and FormatNode outcomes; z3 obligations; directive battery replay",
    "bounded symbolic model checking: Skip iff disabled or an exact `stylua: ignore` line among <=2x2 comment lines; toggle = fold over <=3 lines; a statement that is not Normal leaves format_block as returned by format_stmt with its own semicolon (any loop state, so any block length); Skip returns the node itself; the ignore state is threaded (each statement toggles the context its predecessor left and is formatted under its own toggled context); a table Field's children are formatted only behind should_format_node(field) != Skip, also by the range-only visitor",
    "trusts rustc's MIR printer, mirsym and its iterator/trivia summaries, z3; full_moon's lossless to_owned/to_string; the statement text itself is not modelled", "5/C08-C09")
CLAIMED["C09"] = ("same encoding as C08 (vcheck/ignoremodel.py): range test of should_format_node over 64-bit positions and optional bounds, format_block step, NotInRange arms; range battery replay",
    "bounded symbolic model checking: NotInRange iff node_start < range.start or node_end > range.end for present bounds (Skip first); out-of-range statements are pushed untouched with their semicolon; NotInRange only reaches the block-only visitors",
    "trusts rustc's MIR printer, mirsym, z3; positions are full_moon byte offsets; 'inside the range = whole-file result' is outside", "5/C08-C09")

CLAIMED["C06"] = ("measured-values kernel over all formatter functions (only formatter output reaches Shape::take_*_line / test_over_budget: provenance over executed MIR paths), text-rewritten-twice kernel over bounded symbolic strings; integer slice of format_table_constructor from the MIR (mirsym, real Shape methods inlined) executed on an arbitrary input spacing and on the canonical output spacing; z3 (cvc5 integer-encoding fallback) decides stability; two-pass replay",
    "bounded symbolic model checking of the layout decision that reads the input layout: for <=3 fields, widths < 2^16, any shape/indent/column width: canonical-separator inputs are a fixed point, multi-line is a fixed point, the arithmetic cannot panic; arbitrary separator spacing is NOT stable (known finding F5); predicates applied to input expressions whose redundant parentheses the same pass removes (contains_nested_function, is_brackets_string, is_string) answer for the inner expression; the comma-comment test of punctuated_inline_comments is invariant under the formatter's move of the comment behind the comma",
    "trusts rustc's MIR printer, mirsym, z3/cvc5; all other trial-format heuristics and the blank-line fold are outside the claim", "5/C06")

CLAIMED["C01"] = ("mirsym over check_stmt_requires_semicolon (all statement variants x next statements, both feature sets), format_block (required => Some(;)), is_brackets_string vs a leftmost-token oracle, format_index/format_field padding, format_token comment newline; C05 composer for `- -`; z3; source replay",
    "bounded symbolic model checking of four named output-breaking mechanisms only (the property as a whole - parser x printer - is NOT claimed): `;` before `(`, `--` from nested minus, `[ [[`, line comment followed by a newline",
    "trusts rustc's MIR printer, mirsym, the parser contract that Prefix::Expression holds a parenthesised expression, z3; keys nested deeper than 3 wrappers and all other ways to produce invalid output are outside", "5/C01")

CLAIMED["C11"] = ("format_function_call over a two-suffix list (the ObscureWithoutParens hint is a function of the next suffix kind); mirsym over get_quote_to_use (symbolic literal), format_function_args (recursion inlined, symbolic option/argument/next-suffix), create_function_*_trivia and their call sites; z3 against the README option table; option replay",
    "bounded symbolic model checking of the decision kernels: quote choice for every literal of <=4 characters x 4 styles; call form for every call_parentheses value x argument shape x obscurity; spaces(1) exactly for the option values that name it",
    "trusts rustc's MIR printer, mirsym, z3; 'every layout path of every construct' beyond these kernels is outside", "5/C11")

CLAIMED["C12"] = ("mirsym over partition_nodes_into_groups (one loop step from an arbitrary parts tail), the ignore-guard closure, sort_requires' rebuild step and format_ast's enabled test; z3; require-block battery replay",
    "bounded symbolic model checking of the kernels: a statement is a member only after exactly one name and one value were established; a group boundary is opened iff first / after Other / kind differs / more than one line after the END of the previous require; Skip or NotInRange members block sorting; the ignore state is toggled over the top-level statements (ignore start/end regions) and written back to sort_requires' own variable; sortable groups get one stable sort_by_key; the new first member keeps its own leading trivia; sorting runs iff enabled",
    "trusts rustc's MIR printer, mirsym, z3, std's stable sort; get_expression_kind's string tests and update_positions are outside", "5/C12")

CLAIMED["C20"] = ("override dominance over every configuration route of src/cli/config.rs (origin analysis, vcheck/cfgorigin.py) and serde's derive-generated key/variant visitors (unknown => Err); mirsym over load_overrides (bin MIR, convert_enum! conversions inlined, one flag at a time + all flags wired) and editorconfig::load (lib MIR with the editorconfig feature, Properties::get::<K>() symbolic per key); z3 against the same-name / documented mapping; three-carrier replay",
    "bounded symbolic model checking of the mapping kernels: every Config field after overrides = the flag's same-named variant if present else the configuration's; every editorconfig key sets exactly its documented field; nothing else changes",
    "trusts rustc's MIR printer, mirsym, z3; serde/toml decoding, deny_unknown_fields, clap's string->enum parsing and ec4rs are outside the encoding (carrier replay only)", "5/C15-C20")

CLAIMED["C18"] = ("exactness of each producer's `no difference` test (unified: IEEE f32 comparison of the similarity ratio with 1.0 in z3's FP theory); mirsym over output_diff_json (one DiffOp of symbolic kind, indices and lengths; its filter/map closures executed) against similar's iter_changes contract, create_diff and its two callers (producer selection and argument order); z3; diff battery replay with the checker's own JSON/unified patchers",
    "bounded symbolic model checking of the JSON line-range kernel and the diff wiring: for every DiffOp kind with indices and lengths < 2^32: start = index, end = index+len-1, `original`/`expected` are the concatenation of ALL removed/added lines, no arithmetic panic; a `no change` test that looks at the op list instead of ratio() is decided over a model of <= 3 DiffOps under similar's contract; each producer diffs the two texts as given; every output format hands (original, expected) in that order to its producer; format_file/format_string diff the text read against format_code's result",
    "trusts rustc's MIR printer, mirsym, z3, similar's TextDiff (grouped_ops / iter_changes contract) and unified_diff; the unified/standard texts themselves are produced by similar/console and only replayed, not encoded", "5/C18")

CLAIMED["C07"] = ("mirsym panic census over every panic!/unreachable!/assert! site of the library MIR (both feature sets) with valid-discriminant constraints; z3 sequence theory over the tokenizer's number language against Rust's f64 / from_str_radix accept languages for verify_ast::visit_number; Shape/Indent arithmetic and the simple_heuristics guard by path queries; native replay over a syntax corpus",
    "bounded symbolic model checking of the named panic mechanisms (NOT whole-program totality): parse errors always surface as Err; no node kind of the feature set falls into a wildcard/unreachable arm except under the listed caller/parser preconditions (each listed with the node kinds allowed to reach it); Shape arithmetic cannot overflow for indent_width <= 2^16, nesting < 2^32, offsets < 2^48 and any column_width; argument trial formatting happens only without simple_heuristics and always sets it; the collapse guard (is_block_simple) accepts no statement kind that reaches the guarded unreachable!()s; format_prefix re-establishes Prefix::Expression(Parentheses) on every layout path; an Ok path of format_code went through the parser and format_ast; --verify number normalisation neither panics nor slices out of bounds for any number token of <= 24 characters of any syntax",
    "trusts rustc's MIR printer (and its removal of exhaustive wildcard arms), mirsym, z3 (incl. its sequence solver), the number-language transcriptions in vcheck/numstr.py; stack depth, wall time, unwrap() on callee results and string-width arithmetic are outside", "5/C07")

CLAIMED["C10"] = ("mirsym over the whitespace sources (line_ending_character, create_newline_trivia, create_*indent_trivia, format_token's comment and long-string arms, load_token_trivia, format_eof, pop_until_no_whitespace) with bounded symbolic strings (vcheck/bstr.py: N code-point terms + length, literal replace / trim as quantifier-free terms, DFA runs for line-break languages); z3; whitespace-site census over the whole library MIR; model-derived Lua replay",
    "bounded symbolic model checking of the whitespace sources: newline trivia is exactly the configured line ending; indent trivia is tabs(level) or spaces(level*indent_width); for EVERY comment / shebang / long-string text of <= 6 (thorough 8) characters written with LF or CRLF the emitted text has no trailing white space resp. only configured line breaks and is otherwise unchanged; input whitespace trivia is never copied; EOF handling pops trailing whitespace and appends one newline; no other place of the crate builds whitespace tokens, tabs, or spaces(n>1); in every token list assembled by a function that places indents (vec!/push/append/extend in path order) an indent is never directly followed by white space or by space-prefixed comments",
    "trusts rustc's MIR printer, mirsym, z3, full_moon's spaces()/tabs(); that every layout path places indent trivia after each newline is NOT decided (only the sources are)", "5/C10")

CLAIMED["C02"] = ("mirsym over EVERY library function that maps a full_moon AST struct/enum `&T` to a `T` (all layout decisions symbolic) with a provenance analysis of the builder chain (`T::with_x`, `T::new`) against the input's accessors; z3 decides path feasibility, optional-child presence and node-kind equality; C04's number kernel and C05's composer (small plan) reused; token-level normal-form replay over a syntax corpus",
    "bounded symbolic model checking of one inductive step per formatter: on every control path of ~90 formatter functions (loops visited <= 2 times) every child slot of the returned node derives from the input's same-named child (an optional child is dropped only when absent in the input; an empty child is replaced only under an emptiness test), enum formatters return the node kind they received (also for enum nodes rebuilt inside a function from the payload of a variant), call-site guards of lossy helpers hold; Luau type parentheses: keep_parentheses is true wherever the grammar needs them and the children of union / intersection / optional / variadic types are formatted under the corresponding context mark on every layout path; number rewriting and parenthesis removal as in C04/C05 (<=2 operators here)",
    "trusts rustc's MIR printer, mirsym, z3, full_moon's builder/accessor pairs as parsed from its source; provenance is structural (a slot filled from a value computed from the right child counts as that child); symbol TEXT, trivia (C03) and Punctuated internals are outside", "5/C02")

CLAIMED["C03"] = ("mirsym over every formatter function of the library (all layout paths) with a provenance analysis of removed tokens: a token of the input that does not reach the result must have both trivia lists read and flowing into the result, or a comment test over exactly that trivia must be false on the path (z3 decides the guards); load_token_trivia one-step, format_token_reference composition, comment text via the bounded-string kernel of C10; comment-census replay with the checker's own lexer",
    "bounded symbolic model checking of the places where trivia changes hands: in ~100 formatter functions (loops visited once) no token is dropped together with comments (removed parentheses, condition parentheses, call-sugar parentheses, semicolons, rebuilt symbols); trivia replaced with FormatTriviaType::Replace on an input token was read into the result or holds no comment; a collapse guard (if-guard, one-line function body) is true only if a comment test on every part that lands mid-line said no; every comment trivia is formatted and pushed exactly once; the text and bracket level of a comment survive for all texts of <= 5 (thorough 7) characters",
    "trusts rustc's MIR printer, mirsym, z3, the exactness of trivia_util's comment tests; comments moved between tokens inside Punctuated lists and double formatting of discarded trial results are outside", "5/C03")

CLAIMED["C16"] = ("mirsym over one step of format()'s walker loop from an arbitrary loop state (the walker yields one entry; seen / is_file / explicit / glob match / ignored are independent symbolic facts), should_respect_ignores / is_explicitly_provided, and the walker set-up calls; z3; directory-tree replay",
    "bounded symbolic model checking of the in-repo selection logic only: an entry is handed to the pool iff it is new, a file, and selected by the documented explicit / default-glob / --respect-ignores rules; it is recorded in seen_files when new, under a key that does not depend on a leading `./`; the worker gets that entry's path; path_is_stylua_ignored asks the matcher of THIS path's directory about this path (nothing cached) and respects the ignore crate's root precondition; hidden(!allow_hidden), .styluaignore as custom ignore file, default glob iff no --glob. Which paths the `ignore` crate's walker yields for a tree is its contract, not decided here",
    "trusts rustc's MIR printer, mirsym, z3 and the `ignore` / globset crates (walker, gitignore matcher, overrides precedence)", "5/C16")

CLAIMED["C15"] = ("override dominance over every configuration route (vcheck/cfgorigin.py); mirsym over find_config_file (recursion inlined) / lookup_config_file_in_directory / find_toml_file / load_configuration(_for_stdin) with the file system abstracted to a symbolic directory chain and a map-summarised cache, two successive lookups; z3 against the documented precedence; directory-tree replay",
    "bounded symbolic model checking of the precedence kernels: for every existence pattern of stylua.toml/.stylua.toml on a chain of 4 directories, every cwd position or parent search: the nearest file up to the root (or XDG/HOME) is chosen, a cached second lookup (same directory or its parent) agrees; forced > found > editorconfig (unless disabled) > defaults",
    "trusts rustc's MIR printer, mirsym + Path/HashMap summaries, z3; toml decoding, ec4rs discovery and the XDG/HOME probing order are outside", "5/C15-C20")

NOT_YET = {}

NA = {
    "C16": "file selection is decided by the `ignore` crate's walker, gitignore matcher, globset and the file system; the in-repo part is three ifs consulting them - no kernel whose solver verdict would say which files are processed without a hand-written model of the walker (DESIGN.md section 5, C16)",
}

def main():
    here = os.path.dirname(os.path.abspath(__file__))
    props = [json.loads(l)["id"] for l in open(os.path.join(here, "properties.jsonl"))]
    KANI = {"C05": "check_excess_parentheses (thorough tier)", "C07": "Shape / Indent arithmetic", "C11": "create_function_*_trivia and should_omit_*_parens", "C15": "load_overrides",
            "C20": "load_overrides"}
    ROUND5 = {
        "C01": "; O8 format_interpolated_string pads a formatted table constructor; O9 no output alternative of the C05 composer prints `:: T <` (ill-formedness only)",
        "C02": "; a child slot never set on a node rebuilt with T::new is a dropped child; semantic battery also under ranges",
        "C03": "; Replace obligation also over closures (expression results, trailing side)",
        "C04": "; bracket-string adjacency (C01's O3 kernel) decides this property as well",
        "C06": "; collapse-guard kernel (C03's H) and require-grouping kernel (C12's G) with two-pass replays",
        "C07": "; kernel T: format_if_expression hands each branch a bounded column width at most once per path (trial formats at usize::MAX; Shape methods executed)",
        "C08": "; format_code returns the printed AST untouched; sort_requires' ignore guard and region tracking (C12's kernels) decide this property as well",
        "C09": "; format_code returns the printed AST untouched; sort_requires' range guard (C12's kernel); visitor-shape kernel (Shape arithmetic executed: nested blocks of an out-of-range statement get block_indent + 1, offset 0)",
        "C10": "; format_token builds no white space from a literal",
        "C11": "; quote wiring: every quoted literal's quote type is the result of get_quote_to_use on every path of format_token",
        "C14": "; cause of every exit edge of the walker loop",
        "C15": "; per-file configuration: a job's configuration is by its only definition load_configuration(<its own path>) of the same loop iteration; user-level probes of search_config_locations in the documented order (def-use over the MIR)",
        "C20": "; C15's search / precedence / per-file kernels decide this property as well",
        "C17": "; the stdin text reaches format_string untouched; the pass-through flag has no other source than path_is_stylua_ignored",
        "C19": "; one file per pool job (C14's sender kernel) with a thread-count sweep replay",
    }
    checks = []
    for pid in props:
        if pid in CLAIMED:
            tech, text, note, ref = CLAIMED[pid]
            tech = tech + ROUND5.get(pid, "")
            if pid in KANI:
                tech += f"; second engine: Kani 0.68 / CBMC harness over the compiled {KANI[pid]} (kani/*.rs, injected into a scratch copy; counterexamples are replayed natively by concrete playback)"
            tech += "; when a kernel stays undecided the property's whole replay battery is run and only a reproduced violation is reported"
            checks.append({
                "property_id": pid,
                "quick_cmd": f"bin/vcheck {pid} --tier quick",
                "thorough_cmd": f"bin/vcheck {pid} --tier thorough",
                "evidence_file": f"evidence/{pid}.json",
                "replay_cmd_template": f"bin/vcheck {pid} --replay {{path}}",
                "engine": "mirsym+z3" + ("+kani" if pid in KANI else ""),
                "level_claimed": {"category": "model_checking", "text": text, "design_ref": "DESIGN.md section " + ref},
                "level_note": note,
                "technique": tech,
            })
    na = []
    for pid in props:
        if pid in CLAIMED:
            continue
        if pid in NA:
            na.append({"property_id": pid, "reason": NA[pid]})
        else:
            na.append({"property_id": pid, "reason": NOT_YET.get(pid, "check not built yet in this round (planned, see DESIGN.md section 5); not claimed until its encoder exists and passes on the pinned tree")})
    m = {
        "version": 1,
        "setup_cmd": "bin/setup",
        "hooks": {
            "guard": "stylua_verif",
            "enable": "RUSTFLAGS='--cfg stylua_verif' cargo build (only the C19 replay uses it; all solver checks run on an unmodified copy of the working tree)",
            "baseline_off_cmd": "cd /repo && cargo test --workspace --no-fail-fast --offline",
            "source_commits": ["verif hook: schedulable EXIT_CODE atomic under --cfg stylua_verif (add-only, off by default)"],
            "add_only": True,
        },
        "engines": [
            {"name": "mirsym", "path": "vcheck/mirsym.py", "serves_properties": sorted(CLAIMED),
             "kind_free_text": "symbolic executor over rustc -Zunpretty=mir text of the current /repo working tree, z3 back end (cvc5 cross-check in thorough tier)"},
            {"name": "kani", "path": "vcheck/kanix.py", "serves_properties": sorted(KANI),
             "kind_free_text": "Kani 0.68 / CBMC 6.11 #[kani::proof] harnesses (kani/*.rs) over kani::any() inputs, appended under #[cfg(kani)] to a scratch copy of the working tree; "
                               "SUCCESSFUL = obligation discharged, FAILED = concrete playback against the native build before anything is reported; a harness that no longer compiles is "
                               "recorded as not decided"},
        ],
        "checks": checks,
        "not_applicable": na,
        "notes": "All checks regenerate their encoding from /repo's working tree on every run (tree-hash keyed MIR cache under /var/tmp/stylua-verif). Exit 2 = INCONCLUSIVE (engine limitation), never used on the unchanged tree.",
    }
    with open(os.path.join(here, "MANIFEST.json"), "w") as fh:
        json.dump(m, fh, indent=1)
    print("wrote MANIFEST.json:", len(checks), "checks,", len(na), "not applicable")

main()

# Throw-away feasibility probe (NOT framework code): parse the MIR text of check_excess_parentheses from the real
# dump and execute it symbolically with z3; ask: for which (inner variant, context) are parentheses declared "excess"?
import re, sys
from z3 import *
src = open('/scratch/mir_lib.txt').read()
m = re.search(r'^fn check_excess_parentheses\(.*?\n}\n', src, re.S | re.M)
body = m.group(0)
blocks = {}
for bm in re.finditer(r'^    (bb\d+)(?: \(cleanup\))?: \{\n(.*?)^    \}', body, re.S | re.M):
    blocks[bm.group(1)] = [l.strip() for l in bm.group(2).strip().split('\n')]
print("parsed", len(blocks), "basic blocks")
# variant-name map from MIR itself: (switch target block uses "as Name")
# symbolic model of Expression up to depth D: node i has discr d_i; UnaryOperator payload: unop discr u_i, child i+1
D = 3
d = [BitVec(f"d{i}", 64) for i in range(D)]
u = [BitVec(f"u{i}", 64) for i in range(D)]
tt = [BitVec(f"tt{i}", 64) for i in range(D)]   # token_type discr for Symbol leaf
sy = [BitVec(f"sy{i}", 64) for i in range(D)]   # Symbol discr
ctx = BitVec("ctx", 64)
results = []  # (path condition, value)
class Ref:
    def __init__(s, kind, idx): s.kind, s.idx = kind, idx
def run(level, bb, env, pc, out):
    while True:
        for st in blocks[bb]:
            if (mm := re.match(r'(_\d+) = discriminant\((.*)\);', st)):
                dst, pl = mm.groups()
                if pl == '(*_1)': env[dst] = d[level]
                elif pl == '_2': env[dst] = ctx
                else:
                    r = env[re.match(r'\(\*(_\d+)\)', pl).group(1)]
                    env[dst] = {'unop': u, 'tt': tt, 'sym': sy}[r.kind][r.idx]
            elif (mm := re.match(r'switchInt\((?:move|copy) (_\d+)\) -> \[(.*)\];', st)):
                v, arms = mm.groups(); val = env[v]; seen = []
                for arm in arms.split(', '):
                    k, tgt = arm.split(': ')
                    if k == 'otherwise':
                        run(level, tgt, dict(env), pc + [val != s_ for s_ in seen], out)
                    else:
                        kv = BitVecVal(int(k), 64) if not is_bool(val) else None
                        if is_bool(val):
                            run(level, tgt, dict(env), pc + [Not(val) if k == '0' else val], out); seen.append(BoolVal(k != '0')); continue
                        run(level, tgt, dict(env), pc + [val == kv], out); seen.append(kv)
                return
            elif (mm := re.match(r'_0 = const (true|false);', st)): env['_0'] = BoolVal(mm.group(1) == 'true')
            elif (mm := re.match(r'(_\d+) = const (true|false);', st)): env[mm.group(1)] = BoolVal(mm.group(2) == 'true')
            elif (mm := re.match(r'_0 = Not\(move (_\d+)\);', st)): env['_0'] = Not(env[mm.group(1)])
            elif (mm := re.match(r'goto -> (bb\d+);', st)): bb = mm.group(1); break
            elif st == 'return;': out.append((pc, env['_0'])); return
            elif 'as UnaryOperator).1' in st: env[st.split(' = ')[0]] = Ref('child', level)
            elif 'as UnaryOperator).0' in st: env[st.split(' = ')[0]] = Ref('unop', level)
            elif 'as Symbol).0: full_moon::tokenizer::TokenReference' in st: env[st.split(' = ')[0]] = Ref('tokref', level)
            elif 'as Symbol).0: full_moon::tokenizer::Symbol' in st: env[st.split(' = ')[0]] = Ref('sym', level)
            elif (mm := re.match(r'(_\d+) = <TokenReference as Deref>::deref\(copy (_\d+)\) -> \[return: (bb\d+)', st)): env[mm.group(1)] = Ref('tok', level); bb = mm.group(3); break
            elif (mm := re.match(r'(_\d+) = Token::token_type\(copy (_\d+)\) -> \[return: (bb\d+)', st)): env[mm.group(1)] = Ref('tt', level); bb = mm.group(3); break
            elif (mm := re.match(r'_0 = check_excess_parentheses\(move (_\d+), copy _2\) -> \[return: (bb\d+)', st)):
                if level + 1 >= D: out.append((pc + [BoolVal(False)], BoolVal(False))); return   # depth bound: path cut (assumed away)
                sub = []; run(level + 1, 'bb0', {}, pc, sub)
                for (p2, v2) in sub:
                    e2 = dict(env); e2['_0'] = v2; run_from(level, mm.group(2), e2, p2, out)
                return
            elif re.match(r'(_\d+) = (no_retag )?copy |(_\d+) = &\(\*_\d+\);|(_\d+) = copy \(\(', st): pass   # Box deref plumbing
            elif st == 'unreachable;': return
            else: raise SystemExit("unhandled MIR statement: " + st)
        else:
            raise SystemExit("fell off block " + bb)
def run_from(level, bb, env, pc, out): run(level, bb, env, pc, out)
out = []; run(0, 'bb0', {}, [], out)
print("paths:", len(out))
excess = Or([And(And(pc), v) for pc, v in out])
# obligation (oracle from the Lua grammar): parentheses around a *unary operator expression* on the LHS of `^`
# (context discr 3 = BinaryLHSExponent in this dump) are never excess.
names = dict(re.findall(r'switchInt\(move _3\) -> \[(.*?)\]', body) and [])
s = Solver(); s.add(d[0] == 2, ctx == 3, excess)   # 2 = UnaryOperator (bb5 uses "as UnaryOperator")
print("unary under BinaryLHSExponent can be declared excess:", s.check())
s = Solver(); s.add(d[0] == 2, ctx == 4, u[0] == 0, d[1] == 9, excess)  # ctx 4 = UnaryOrBinary: what the hanging path passes
print("(-a) with context UnaryOrBinary declared excess:", s.check(), "(this is the context the hanging path passes for the LHS of ^)")
s = Solver(); s.add(d[0] == 4, excess); print("FunctionCall declared excess:", s.check())
s = Solver(); s.add(d[0] == 0, excess); print("BinaryOperator declared excess:", s.check())
s = Solver(); s.add(d[0] == 8, tt[0] == 7, sy[0] == 26, excess); print("`...` declared excess:", s.check())

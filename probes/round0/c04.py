# Calibration prototype (NOT framework code): bounded SMT check of the quote/escape rewrite kernel.
# literal = N symbolic chars over an alphabet; model of regex replace_all (leftmost-first) + closure; Lua decoder oracle.
import sys, time
from z3 import *
N = int(sys.argv[1]) if len(sys.argv) > 1 else 4
BS, SQ, DQ, NL, CR = 92, 39, 34, 10, 13
ALPHA = [BS, SQ, DQ, NL, ord('n'), ord('0'), ord('1'), ord('x'), ord('z'), ord('q'), ord(' '), ord('a'), 0xE9]
s = Solver()
inp = [Int(f"c{i}") for i in range(N)]
n = Int("n"); s.add(n >= 0, n <= N)
for c in inp: s.add(Or([c == a for a in ALPHA]))
qin = Int("qin")   # input quote: SQ or DQ
s.add(Or(qin == SQ, qin == DQ))
style = Int("style")  # 0 AutoPreferDouble 1 AutoPreferSingle 2 ForceDouble 3 ForceSingle
s.add(style >= 0, style <= 3)
def at(i): return inp[i]
def inb(i): return i < n if isinstance(i, int) else i < n
# validity of the input literal as a Lua string body in quote qin: no unescaped qin, no raw newline unescaped, no trailing lone backslash
# compute escaped-ness by scan
esc = [None]*N  # esc[i] True if char i is consumed as the char right after an (unescaped) backslash
prev_is_bs_active = BoolVal(False)
valid = BoolVal(True)
for i in range(N):
    esc[i] = prev_is_bs_active
    is_bs = And(at(i) == BS, Not(esc[i]))
    valid = And(valid, Implies(i < n, And(
        Implies(Not(esc[i]), And(at(i) != qin, at(i) != NL, at(i) != CR)))))
    prev_is_bs_active = And(i < n, is_bs)
    if i == N-1: pass
# no trailing active backslash
last_active = BoolVal(False)
for i in range(N):
    last_active = If(n == i+1, And(at(i) == BS, Not(esc[i])), last_active)
valid = And(valid, Not(last_active))
s.add(valid)
# get_quote_to_use
ns = Sum([If(And(i < n, at(i) == SQ), 1, 0) for i in range(N)])
nd = Sum([If(And(i < n, at(i) == DQ), 1, 0) for i in range(N)])
pref = If(style == 0, DQ, SQ)
qout = If(style == 2, DQ, If(style == 3, SQ, If(ns == nd, pref, If(ns > nd, DQ, SQ))))
# replace_all model: out array
out = K(IntSort(), IntVal(0)); olen = IntVal(0)
skip = BoolVal(False)
def unnecessary(c):
    bad = [NL, CR, DQ, SQ, BS] + [ord(x) for x in "0123456789abfnrtuvxz"]
    return And([c != b for b in bad])
for i in range(N):
    live = And(i < n, Not(skip))
    c = at(i); c1 = at(i+1) if i+1 < N else IntVal(-1)
    has1 = (i+1 < n) if i+1 < N else BoolVal(False)
    m_a = And(c == BS, has1, Or(c1 == SQ, c1 == DQ))       # \\?(["']) with backslash
    m_b = Or(c == SQ, c == DQ)                              # quote alone
    m_c = And(c == BS, has1)                                # \\([\S\s])
    q = If(m_a, c1, c)
    # emitted sequence
    def emit(out, olen, ch): return Store(out, olen, ch), olen + 1
    o1, l1 = out, olen
    # case quote
    need_esc = q == qout
    oq, lq = out, olen
    oq_e, lq_e = emit(*emit(out, olen, IntVal(BS)), q)
    oq_n, lq_n = emit(out, olen, q)
    oq = If(need_esc, oq_e, oq_n); lq = If(need_esc, lq_e, lq_n)
    # case escape
    oe_u, le_u = emit(out, olen, c1)
    oe_k, le_k = emit(*emit(out, olen, IntVal(BS)), c1)
    oe = If(unnecessary(c1), oe_u, oe_k); le = If(unnecessary(c1), le_u, le_k)
    # case none
    on, ln = emit(out, olen, c)
    is_q = Or(m_a, m_b)
    new_out = If(is_q, oq, If(m_c, oe, on)); new_len = If(is_q, lq, If(m_c, le, ln))
    out = If(live, new_out, out); olen = If(live, new_len, olen)
    skip = And(live, Or(m_a, And(Not(m_b), m_c)))
# Lua decoder (value semantics) as a fold producing (array,len); handles \n \\ \" \' \<nl> \ddd(<=3) \xHH-ish skipped, \z skip ws, unknown -> char
def decode(get, length, M):
    val = K(IntSort(), IntVal(0)); vlen = IntVal(0)
    # state: 0 normal, 1 after backslash, 2.. decimal digits collected (k digits, acc), 5 zskip
    st = IntVal(0); acc = IntVal(0); nd_ = IntVal(0)
    def push(val, vlen, ch): return Store(val, vlen, ch), vlen+1
    for i in range(M+1):
        live = i < length if i < M else BoolVal(False)
        ch = get(i) if i < M else IntVal(-1)
        isdig = And(ch >= 48, ch <= 57)
        # if in decimal state and (not live or not digit or nd==3): flush
        flush = And(st == 2, Or(Not(live), Not(isdig), nd_ == 3))
        v2, l2 = push(val, vlen, acc)
        val = If(flush, v2, val); vlen = If(flush, l2, vlen); st = If(flush, IntVal(0), st)
        # now process ch if live
        # normal
        n_val, n_len = push(val, vlen, ch)
        # after backslash
        simple = If(ch == ord('n'), IntVal(10), If(ch == ord('a'), IntVal(7), ch))  # \n, \a ; others -> themselves (incl quotes, backslash, newline)
        b_val, b_len = push(val, vlen, simple)
        is_z = ch == ord('z')
        is_x = ch == ord('x')
        val_new = If(st == 0, If(ch == BS, val, n_val),
                  If(st == 1, If(Or(isdig, is_z), val, b_val),
                  If(st == 2, val,
                  If(st == 5, If(ch == 32, val, If(ch == BS, val, n_val)), val))))
        len_new = If(st == 0, If(ch == BS, vlen, n_len),
                  If(st == 1, If(Or(isdig, is_z), vlen, b_len),
                  If(st == 2, vlen,
                  If(st == 5, If(ch == 32, vlen, If(ch == BS, vlen, n_len)), vlen))))
        acc_new = If(And(st == 1, isdig), ch - 48, If(st == 2, acc*10 + (ch-48), acc))
        nd_new = If(And(st == 1, isdig), IntVal(1), If(st == 2, nd_ + 1, nd_))
        st_new = If(st == 0, If(ch == BS, IntVal(1), IntVal(0)),
                 If(st == 1, If(isdig, IntVal(2), If(is_z, IntVal(5), IntVal(0))),
                 If(st == 2, IntVal(2),
                 If(st == 5, If(ch == 32, IntVal(5), If(ch == BS, IntVal(1), IntVal(0))), st))))
        val = If(live, val_new, val); vlen = If(live, len_new, vlen)
        acc = If(live, acc_new, acc); nd_ = If(live, nd_new, nd_); st = If(live, st_new, st)
    return val, vlen
inarr = K(IntSort(), IntVal(0))
for i in range(N): inarr = Store(inarr, i, inp[i])
v_in, l_in = decode(lambda i: Select(inarr, i), n, N)
v_out, l_out = decode(lambda i: Select(out, i), olen, 2*N)
diff = Or(l_in != l_out, Or([And(k < l_in, Select(v_in, k) != Select(v_out, k)) for k in range(2*N)]))
# also output must be a valid literal for qout: reuse: no unescaped qout  (skipped in proto)
s.add(diff)
t = time.time(); r = s.check(); dt = time.time()-t
print("N=%d result=%s time=%.1fs" % (N, r, dt))
if r == sat:
    m = s.model(); nn = m[n].as_long()
    print("n", nn, "in", [chr(m.eval(inp[i], model_completion=True).as_long()) for i in range(nn)], "qin", chr(m[qin].as_long()), "style", m[style], "qout", chr(m.eval(qout).as_long()),
          "out", [chr(m.eval(Select(out, i)).as_long()) for i in range(m.eval(olen).as_long())])

use crate::context::Context;
use crate::formatters::{expression_probe, excess_probe};
use crate::shape::Shape;
use crate::Config;
use full_moon::ast::{span::ContainedSpan, BinOp, Expression, UnOp, Var};
use full_moon::tokenizer::{Symbol, Token, TokenReference, TokenType};

fn sym(s: Symbol) -> TokenReference {
    TokenReference::new(vec![], Token::new(TokenType::Symbol { symbol: s }), vec![])
}
fn name(s: &str) -> Expression {
    Expression::Var(Var::Name(TokenReference::new(
        vec![],
        Token::new(TokenType::Identifier { identifier: s.into() }),
        vec![],
    )))
}

fn regex_new_stub(_re: &str) -> Result<regex::Regex, regex::Error> {
    Err(regex::Error::CompiledTooBig(0))
}
fn regex_is_match_stub(_s: &regex::Regex, _h: &str) -> bool {
    false
}
fn regex_replace_all_stub<'h, R: regex::Replacer>(_s: &regex::Regex, h: &'h str, _rep: R) -> std::borrow::Cow<'h, str> {
    std::borrow::Cow::Borrowed(h)
}

// ---- probe A: check_excess_parentheses alone with symbolic unop + context
#[kani::proof]
#[kani::unwind(4)]
fn probe_excess() {
    let which: u8 = kani::any();
    kani::assume(which < 3);
    let unop = match which { 0 => UnOp::Minus(sym(Symbol::Minus)), 1 => UnOp::Not(sym(Symbol::Not)), _ => UnOp::Hash(sym(Symbol::Hash)) };
    let inner = Expression::UnaryOperator { unop, expression: Box::new(name("a")) };
    let c: u8 = kani::any();
    kani::assume(c < 5);
    let r = excess_probe(&inner, c);
    // oracle: under BinaryLHSExponent (3) parens around a unary must be kept
    if c == 3 { assert!(!r); }
    std::mem::forget(inner);
}

// ---- probe B: full format_expression with stubs
fn ftr_stub(_ctx: &Context, t: &TokenReference, _shape: Shape) -> TokenReference { t.clone() }
fn fsym_stub(_ctx: &Context, _cur: &TokenReference, wanted: &TokenReference, _shape: Shape) -> TokenReference { wanted.clone() }
fn symbol_stub(text: &str) -> Result<TokenReference, full_moon::tokenizer::TokenizerErrorType> {
    let t = text.trim();
    let s = if t == "^" { Symbol::Caret } else if t == "-" { Symbol::Minus } else if t == "(" { Symbol::LeftParen } else if t == ")" { Symbol::RightParen } else if t == "+" { Symbol::Plus } else { Symbol::And };
    Ok(sym(s))
}
fn take_line_stub<T: std::fmt::Display>(s: &Shape, _item: &T) -> Shape { s.add_width(kani::any::<u8>() as usize) }

#[kani::proof]
#[kani::unwind(4)]
#[kani::stub(regex::Regex::new, regex_new_stub)]
#[kani::stub(regex::Regex::is_match, regex_is_match_stub)]
#[kani::stub(regex::Regex::replace_all, regex_replace_all_stub)]
#[kani::stub(crate::formatters::general::format_token_reference, ftr_stub)]
#[kani::stub(crate::formatters::general::format_symbol, fsym_stub)]
#[kani::stub(full_moon::tokenizer::TokenReference::symbol, symbol_stub)]
#[kani::stub(crate::shape::Shape::take_last_line, take_line_stub)]
#[kani::stub(crate::shape::Shape::take_first_line, take_line_stub)]
fn probe_format() {
    let ctx = Context::new(Config::default(), None);
    let shape = Shape::new(&ctx);
    let inner = Expression::UnaryOperator { unop: UnOp::Minus(sym(Symbol::Minus)), expression: Box::new(name("a")) };
    let par = Expression::Parentheses {
        contained: ContainedSpan::new(sym(Symbol::LeftParen), sym(Symbol::RightParen)),
        expression: Box::new(inner),
    };
    let e = Expression::BinaryOperator { lhs: Box::new(par), binop: BinOp::Caret(sym(Symbol::Caret)), rhs: Box::new(name("b")) };
    let out = expression_probe(&ctx, &e, shape);
    match &out {
        Expression::BinaryOperator { lhs, .. } => assert!(matches!(**lhs, Expression::Parentheses { .. })),
        _ => assert!(false),
    }
    std::mem::forget(out);
    std::mem::forget(e);
}

"""Override dominance (shared by C15 and C20): every configuration a ConfigResolver method hands out has passed through
load_overrides(.., opt) AFTER whatever produced its base values (file, .editorconfig, defaults).

Inductive argument over the functions of src/cli/config.rs, each executed symbolically (bin MIR, every path): a returned / stored
Config is accepted when its origin is
  * a call of load_overrides,
  * a call of another function of the verified set (read_and_apply_overrides, lookup_config_file_in_directory, find_config_file,
    search_config_locations, load_configuration, load_configuration_for_stdin),
  * a field of the resolver that is only ever assigned accepted values (forced_configuration, default_configuration; ConfigResolver::new
    is checked) or an entry of config_cache (every insert is checked),
  * `x.map(closure)` whose closure returns an accepted value.
Anything else - read_config_file, toml::from_str, editorconfig::parse not followed by load_overrides - is a configuration the
command line does not override.
"""
import re, z3

from . import clihooks
from .common import Inconclusive
from .mirsym import Agg, Lazy, Ref, RefV, Str, Sym, FnItem
from .summaries import canon, deref_val

VERIFIED = ("read_and_apply_overrides", "lookup_config_file_in_directory", "find_config_file", "search_config_locations",
            "load_configuration", "load_configuration_for_stdin")
GOOD = ("load_overrides",)
FIELDS_OK = ("forced_configuration", "default_configuration")


def lazy_args(ex, f):
    return [RefV(ex.fresh_lazy(t_.lstrip("&").replace("mut ", "", 1).strip(), p)) if t_.startswith("&") and t_ != "&str" else ex.fresh_lazy(t_, p)
            for p, t_ in f.params]


def find_fn(funcs, last):
    out = [g for n, l in funcs.items() for g in l if g.name.split("::")[-1] == last and "promoted" not in g.name and "{closure" not in g.name
           and ("config" in g.name or g.name == last)]
    return out


class Origin:
    def __init__(self, ses, ex, o, selfobj, funcs, depth=0):
        self.ses, self.ex, self.o, self.selfobj, self.funcs, self.depth = ses, ex, o, selfobj, funcs, depth

    def of(self, v, d=0):
        """-> (ok: bool, description)"""
        ex, st = self.ex, self.o.state
        v = deref_val(ex, st, v)
        if d > 12:
            return False, "origin chain too deep"
        if isinstance(v, Agg):
            if v.variant in ("Ok", "Some") and v.fields:
                return self.of(v.fields[0], d + 1)
            if v.variant in ("None",):
                return True, "no configuration"
            if v.variant == "Err":
                return True, "error"
            return False, f"a configuration assembled in place ({v.ty})"
        if not isinstance(v, Lazy):
            return False, f"{v!r}"
        # root of the lazy object
        root, path = v.oid, []
        while root in ex.parent:
            root, key = ex.parent[root]
            path.append(key)
        if root in ex.havoc_calls:
            name, args = ex.havoc_calls[root]
            last = name.split("::")[-1]
            snap = ex.havoc_snap.get(root, args)
            if last in GOOD or last in VERIFIED:
                return True, last
            if last in ("get", "get_mut") and "HashMap" in name:
                recv = deref_val(ex, st, snap[0])
                return (True, "entry of a cache of the resolver (its inserts are checked)") if self.self_field_of(recv) else (False, f"entry of an unknown map")
            if last in ("map", "and_then") and len(snap) == 2:
                return self.closure_origin(snap[1], snap[0], d, ex.havoc_raw.get(root, ""))
            if last in ("transpose", "context", "with_context", "branch", "from_residual", "clone", "unwrap_or", "to_owned", "cloned", "copied"):
                return self.of(snap[0], d + 1)
            return False, f"result of {last}()"
        if root == getattr(self.selfobj, "oid", None):
            fld = self.field_name(path)
            if fld in FIELDS_OK:
                return True, f"self.{fld}"
            return False, f"self.{fld}"
        return False, f"an input of the function ({v.label})"

    def field_name(self, path):
        T = self.ex.enums
        for key in reversed(path):
            if key[0] == "field":
                fs = T.structs.get("ConfigResolver")
                if fs and key[1] < len(fs):
                    return fs[key[1]][0]
        return "?"

    def self_field_of(self, v):
        ex = self.ex
        if not isinstance(v, Lazy):
            return None
        root, path = v.oid, []
        while root in ex.parent:
            root, key = ex.parent[root]
            path.append(key)
        return self.field_name(path) if root == getattr(self.selfobj, "oid", None) else None

    def is_self_field(self, v, fld):
        ex = self.ex
        if not isinstance(v, Lazy):
            return False
        root, path = v.oid, []
        while root in ex.parent:
            root, key = ex.parent[root]
            path.append(key)
        return root == getattr(self.selfobj, "oid", None) and self.field_name(path) == fld

    def closure_origin(self, clos, recv, d, raw=""):
        """x.map(closure): origin of what the closure returns"""
        ex = self.ex
        clos = deref_val(ex, self.o.state, clos)
        ty = clos.ty if isinstance(clos, (Agg, Lazy)) else str(clos)
        m = re.search(r"\{closure@[^}]*\}", ty or "") or re.search(r"\{closure@[^}]*\}", raw)
        if not m:
            return False, "mapped through an unknown function"
        cands = [g for n, l in self.funcs.items() for g in l if "{closure" in g.name and g.params and m.group(0) in g.params[0][1]]
        if len(cands) != 1 or self.depth > 3:
            return False, "mapped through an unresolved closure"
        ex2 = self.ses.executor("bin", "default", inline=lambda n_, fn: False)
        ex2.hooks = [clihooks.silence_logging, clihooks.context_passthrough]
        outs = ex2.run(cands[0], lazy_args(ex2, cands[0]))
        self.ses.report.fn(cands[0])
        res = []
        for o2 in outs:
            if o2.kind != "return":
                continue
            res.append(Origin(self.ses, ex2, o2, None, self.funcs, self.depth + 1).of(o2.value))
        if res and all(r[0] for r in res):
            return True, "closure: " + res[0][1]
        return False, "closure: " + (next((r[1] for r in res if not r[0]), "no returning path"))


def analyse(ses, rep, prefix="overrides"):
    """-> flagged [(oid, what, kind, info)]"""
    flagged = []
    funcs = ses.mir("bin", "default")
    T = ses.enums("default")
    targets = []
    for last in VERIFIED + ("new",):
        for g in find_fn(funcs, last):
            if last == "new" and "config" not in g.name:
                continue
            targets.append(g)
    if len(targets) < 6:
        raise Inconclusive(f"override dominance: only {len(targets)} configuration functions found")
    n = 0
    for f in targets:
        ex = ses.executor("bin", "default", inline=lambda n_, fn: fn.name.startswith("config::<impl") and "{closure" not in fn.name
                          and fn.name.split("::")[-1] not in VERIFIED + ("new", "get_configuration_search_root"))
        ex.hooks = [clihooks.silence_logging, clihooks.context_passthrough]
        ex.max_block_visits = 3        # loops over candidate locations: two rounds and the exit
        args = lazy_args(ex, f)
        selfobj = None
        if f.params and "ConfigResolver" in f.params[0][1]:
            selfobj = args[0].v if isinstance(args[0], RefV) else args[0]
        outs = ex.run(f, args)
        rep.fn(f)
        short = f.name.split("::")[-1]
        for pi, o in enumerate(outs):
            if o.kind != "return":
                continue
            O = Origin(ses, ex, o, selfobj, funcs)
            checks = []
            v = deref_val(ex, o.state, o.value)
            if short == "new":
                # Ok(ConfigResolver { .. })
                inner = v.fields[0] if isinstance(v, Agg) and v.variant == "Ok" else None
                inner = deref_val(ex, o.state, inner) if inner is not None else None
                if isinstance(inner, Agg) and inner.names:
                    for nm, fv in zip(inner.names, inner.fields):
                        if nm in FIELDS_OK:
                            checks.append((f"field-{nm}", fv))
                elif isinstance(v, Agg) and v.variant == "Ok":
                    checks.append(("resolver", None))
            else:
                checks.append(("returned", v))
            for t in o.trace:
                if t[0] == "havoc" and t[1].split("::")[-1] == "insert" and "HashMap" in t[1] and len(t) > 4 and len(t[4]) == 3:
                    if O.self_field_of(deref_val(ex, o.state, t[4][0])):
                        checks.append(("cache-insert", t[4][2]))
            # a configuration error is never swallowed: if a configuration-producing callee failed on this path, so does the function
            if short != "new":
                failed = []
                for t in o.trace:
                    if t[0] == "havoc" and t[1].split("::")[-1] in VERIFIED + ("read_config_file",) and isinstance(t[3], (Lazy, Agg)) \
                            and "Result" in (getattr(t[3], "ty", "") or ""):
                        failed.append(ex.discr(o.state, t[3]) == 1)
                returns_err = isinstance(v, Agg) and v.variant == "Err"
                if failed and not returns_err and not (isinstance(v, Lazy)):
                    r, m = ses.obligation(f"{prefix}/{short}/path{pi}/configuration-errors-propagate", list(o.pc), z3.Or(*failed),
                                          "Ok is returned only if every configuration lookup on the path succeeded")
                    if r == "sat":
                        flagged.append((f"{prefix}/{short}/path{pi}/configuration-errors-propagate", f"{short} carries on after a configuration file failed to load (a malformed file is silently skipped)",
                                        "config-error", {"function": short, "origin": "error"}))
            for what, val in checks:
                n += 1
                ok, desc = (False, "the resolver is not built field by field") if val is None else O.of(val)
                oid = f"{prefix}/{short}/path{pi}/{what}-passed-through-load_overrides"
                r, m = ses.obligation(oid, list(o.pc), z3.BoolVal(not ok), f"origin: {desc}")
                if r == "sat":
                    flagged.append((oid, f"{short}: the configuration {what} comes from {desc}, not from load_overrides", "override-route",
                                    {"function": short, "origin": desc.split(":")[0].split("(")[0].strip()}))
    rep.bounds["override_dominance_values"] = n
    return flagged


# ------------------------------------------------------------------------------------------------ replay scenarios
def scenarios():
    """(name, files, extra env, argv, oracle(result) -> violation text|None). Each has a configuration source that sets double quotes /
    2 spaces and a command line that asks for single quotes / 3 spaces: the command line must win."""
    from . import clireplay
    src = "local x = \"hello\"\nif x then\n\tprint(x)\nend\n"
    want = "local x = 'hello'\nif x then\n   print(x)\nend\n"
    toml = "quote_style = \"AutoPreferDouble\"\nindent_type = \"Spaces\"\nindent_width = 2\n"
    flags = ["--quote-style", "AutoPreferSingle", "--indent-type", "Spaces", "--indent-width", "3"]

    def oracle(rel):
        def f(r):
            got = r["after"].get(rel, (b"",))[0].decode()
            return None if got == want else f"the command-line options were not applied: {rel} became {got!r}"
        return f
    sc = [
        ("cwd-config", {"stylua.toml": toml, "a.lua": src}, {}, flags + ["a.lua"], oracle("a.lua")),
        ("parent-config", {"stylua.toml": toml, "sub/a.lua": src}, {}, flags + ["sub/a.lua"], oracle("sub/a.lua")),
        ("config-path", {"cfg/my.toml": toml, "a.lua": src}, {}, flags + ["--config-path", "cfg/my.toml", "a.lua"], oracle("a.lua")),
        ("xdg-config", {".xdg/stylua.toml": toml, "proj/a.lua": src}, {}, flags + ["--search-parent-directories", "proj/a.lua"], oracle("proj/a.lua")),
        ("xdg-stylua-config", {".xdg/stylua/stylua.toml": toml, "proj/a.lua": src}, {}, flags + ["--search-parent-directories", "proj/a.lua"], oracle("proj/a.lua")),
        ("home-config", {".config/stylua.toml": toml, "proj/a.lua": src}, {"XDG_CONFIG_HOME": "/nonexistent-xdg"}, flags + ["--search-parent-directories", "proj/a.lua"], oracle("proj/a.lua")),
        ("home-stylua-config", {".config/stylua/.stylua.toml": toml, "proj/a.lua": src}, {"XDG_CONFIG_HOME": "/nonexistent-xdg"}, flags + ["--search-parent-directories", "proj/a.lua"], oracle("proj/a.lua")),
        ("editorconfig", {".editorconfig": "root = true\n[*.lua]\nquote_type = double\nindent_style = space\nindent_size = 2\n", "a.lua": src}, {}, flags + ["a.lua"], oracle("a.lua")),
        ("no-config", {"a.lua": src}, {}, flags + ["a.lua"], oracle("a.lua")),
        ("second-file-same-dir", {"stylua.toml": toml, "d/a.lua": src, "d/b.lua": src}, {}, flags + ["d/a.lua", "d/b.lua"], oracle("d/b.lua")),
    ]
    return sc


def malformed_scenarios():
    from . import clireplay
    src = "local   x   =   1\n"
    bad = "colum_width = 80\n"

    def oracle(rel):
        def f(r):
            if r["rc"] != 2:
                return f"exit status {r['rc']}, not 2, although a configuration file on the search route is malformed"
            if clireplay.changed(r, rel, True):
                return f"{rel} was rewritten although a configuration file on the search route is malformed"
            return None
        return f
    return [
        ("bad-cwd-config", {"stylua.toml": bad, "a.lua": src}, {}, ["a.lua"], oracle("a.lua")),
        ("bad-parent-config", {"stylua.toml": bad, "sub/a.lua": src}, {}, ["sub/a.lua"], oracle("sub/a.lua")),
        ("bad-config-path", {"cfg/my.toml": bad, "a.lua": src}, {}, ["--config-path", "cfg/my.toml", "a.lua"], oracle("a.lua")),
        ("bad-xdg-config", {".xdg/stylua.toml": bad, "proj/a.lua": src}, {}, ["--search-parent-directories", "proj/a.lua"], oracle("proj/a.lua")),
        ("bad-xdg-stylua-config", {".xdg/stylua/stylua.toml": bad, "proj/a.lua": src}, {}, ["--search-parent-directories", "proj/a.lua"], oracle("proj/a.lua")),
        ("bad-home-config", {".config/stylua.toml": bad, "proj/a.lua": src}, {"XDG_CONFIG_HOME": "/nonexistent-xdg"}, ["--search-parent-directories", "proj/a.lua"], oracle("proj/a.lua")),
        ("bad-home-stylua-config", {".config/stylua/.stylua.toml": bad, "proj/a.lua": src}, {"XDG_CONFIG_HOME": "/nonexistent-xdg"}, ["--search-parent-directories", "proj/a.lua"], oracle("proj/a.lua")),
    ]


def battery(binp):
    from . import clireplay
    fails = []
    for name, files, env, argv, oracle in scenarios() + malformed_scenarios():
        r = clireplay.run_cli(binp, files, argv, env=env or None)
        v = oracle(r)
        if v:
            fails.append((name, v, clireplay.describe(r)))
    return fails


ORIGIN_SCENARIOS = {"search_config_locations": ["xdg-config", "xdg-stylua-config", "home-config", "home-stylua-config"],
                    "lookup_config_file_in_directory": ["cwd-config", "parent-config", "xdg-config", "home-config"],
                    "find_config_file": ["cwd-config", "parent-config", "xdg-config", "home-config", "second-file-same-dir"],
                    "load_configuration": ["editorconfig", "no-config", "cwd-config", "config-path"],
                    "load_configuration_for_stdin": ["editorconfig", "no-config"],
                    "read_and_apply_overrides": ["cwd-config", "config-path"], "new": ["config-path", "no-config"]}


def confirm(rep, flagged, prop):
    from . import common
    if not flagged:
        return
    fails = battery(common.native_build("default"))
    for oid, what, kind, info in flagged:
        names = ORIGIN_SCENARIOS.get(info["function"], [])
        if kind == "config-error":
            names = [n_[0] for n_ in malformed_scenarios()]
        hit = [f for f in fails if f[0] in names] or ([] if names else fails)
        if hit:
            name, v, rec = hit[0]
            st = rep.violation({"obligation": kind, "function": info["function"], "scenario": name}, {"what": what, "observed": v, "scenario": name, **rec})
            rep.add(oid, st, f"{what}; scenario {name}: {v}")
        else:
            rep.add(oid, "inconclusive", f"{what}: no scenario of the override battery shows the command line being ignored")

"""Built-in call summaries for mirsym (each is part of the trusted base and is listed in evidence when used)."""
import re, z3

from .common import Inconclusive
from .mirsym import Sym, Str, Agg, Lazy, Ref, RefV, FnItem, UNIT, strip_ref, generic_args, vkey
from .enums import enum_key


def canon(callee):
    """callee spelling with generic arguments and closure types removed"""
    c = callee
    # strip turbofish groups (balanced <>)
    out, i, n = [], 0, len(c)
    while i < n:
        if c.startswith("::<", i) and not c.startswith("::<impl ", i):
            d, j = 0, i + 2
            while j < n:
                if c[j] == "<": d += 1
                elif c[j] == ">" and c[j - 1] not in "-=":
                    d -= 1
                    if d == 0: break
                j += 1
            i = j + 1
            continue
        out.append(c[i]); i += 1
    return "".join(out)


PANICS = ("core::panicking::panic", "panic", "std::rt::begin_panic", "begin_panic", "core::panicking::panic_fmt", "panic_fmt",
          "unreachable_display", "core::panicking::unreachable_display", "core::result::unwrap_failed", "unwrap_failed",
          "core::option::expect_failed", "expect_failed", "core::option::unwrap_failed", "core::panicking::assert_failed",
          "assert_failed", "core::panicking::panic_explicit", "panic_explicit", "core::panicking::panic_display", "panic_display",
          "std::rt::panic_fmt", "core::panicking::panic_nounwind", "core::slice::index::slice_index_fail",
          "core::str::slice_error_fail", "slice_error_fail", "core::panicking::panic_bounds_check")


def deref_val(ex, st, v):
    """value behind a reference-like value"""
    if isinstance(v, RefV):
        return v.v
    if isinstance(v, Ref):
        return ex._read_key(st, v.key, v.path)
    if isinstance(v, Lazy):
        inner, isref = strip_ref(v.ty)
        if isref:
            return ex.lazy_child(st, v, ("deref",), inner, "*")
        return v
    return v


def opt_some(ty, v):
    return Agg(ty if ty.startswith(("std::option::Option", "Option")) else "Option", "Some", [v])


def opt_none(ty):
    return Agg(ty if ty.startswith(("std::option::Option", "Option")) else "Option", "None", [])


def enum_split(ex, st, v, names):
    """for an enum value with variants `names` (in discriminant order): [(cond, variant_name)] of the feasible cases"""
    if isinstance(v, Agg):
        return [(z3.BoolVal(True), v.variant)]
    d = ex.discr(st, v)
    return [(d == z3.BitVecVal(i, 64), n) for i, n in enumerate(names)]


def payload(ex, st, v, variant, idx=0, ty="?"):
    if isinstance(v, Agg):
        return v.fields[idx]
    return ex.lazy_child(st, v, ("vfield", variant, idx), ty, f".{variant}.{idx}")


def builtin(ex, st, callee, args, dty, fr):
    c = canon(callee)
    last = c.split("::")[-1]
    if c in PANICS or last in ("panic_fmt", "begin_panic", "unwrap_failed", "expect_failed", "panic_cold_explicit",
                               "panic_cold_display", "unreachable_display", "assert_failed", "panic_display", "panic_str_2015"):
        msg = args[0].s if args and isinstance(args[0], Str) else c
        return ("panic", msg)
    if c in ("std::process::exit", "exit"):
        return ("panic", ("exit", args[0]))
    # ---------------------------------------------------------------- Deref / AsRef / Borrow / clone
    if re.fullmatch(r"<.* as (Deref|DerefMut|AsRef<.*>|Borrow<.*>)>::(deref|deref_mut|as_ref|borrow)", c):
        v = args[0]
        tgt = deref_val(ex, st, v)
        inner = strip_ref(dty)[0]
        if isinstance(tgt, (Ref, RefV)):
            return tgt                              # &Box<T> -> &T
        if isinstance(tgt, Lazy):
            t_inner, isref = strip_ref(tgt.ty)
            if isref:                               # Box<T>/&T held lazily
                return RefV(ex.lazy_child(st, tgt, ("deref",), t_inner, "*"))
            if enum_key(tgt.ty) == enum_key(inner):
                return RefV(tgt)
            return RefV(ex.lazy_child(st, tgt, ("derefto", enum_key(inner)), inner, ".deref"))
        if isinstance(tgt, Agg) and tgt.ty and enum_key(tgt.ty) == enum_key(inner):
            return v
        if isinstance(tgt, Str):
            return RefV(tgt)
        return NotImplemented
    if re.fullmatch(r"<.* as Clone>::clone", c) or re.fullmatch(r"<.* as ToOwned>::to_owned", c) or c.endswith("::cloned") and False:
        tgt = deref_val(ex, st, args[0])
        if isinstance(tgt, (Lazy, Agg, Sym, Str)) or tgt is UNIT:
            return tgt
        return NotImplemented
    if last == "new" and re.match(r"^(std::boxed::|alloc::boxed::)?Box$", c.rsplit("::", 1)[0]):
        key = ("heap", next(ex.oid_counter))
        st.store[key] = args[0]
        return Ref(key, ())
    if c in ("std::mem::drop", "drop", "std::mem::forget", "core::mem::drop"):
        return UNIT
    if last in ("must_use",) :
        return args[0]
    if c in ("std::convert::identity", "core::convert::identity") or re.fullmatch(r"<(.*) as (Into|From)<\1>>::(into|from)", c):
        return args[0]
    if re.fullmatch(r"<.* as IntoIterator>::into_iter", c) and isinstance(args[0], Lazy) and "Iter" in args[0].ty:
        return args[0]
    # ---------------------------------------------------------------- iteration over a concrete array / slice value
    if re.fullmatch(r"<&\[.*\] as IntoIterator>::into_iter", c) or re.fullmatch(r"core::slice::<impl \[.*\]>::iter", c) or \
            re.fullmatch(r"<\[.*\] as IntoIterator>::into_iter", c):
        arr = deref_val(ex, st, args[0])
        if isinstance(arr, Agg) and arr.variant is None and arr.ty != "sliceiter" and all(f is not None for f in arr.fields):
            return Agg("sliceiter", None, [arr, Sym(z3.BitVecVal(0, 64), "usize")])
    if re.fullmatch(r"<(std::slice::|core::slice::)?Iter<.*> as Iterator>::next", c) or re.fullmatch(r"<(std::array::|core::array::)?IntoIter<.*> as Iterator>::next", c):
        it = args[0]
        itv = deref_val(ex, st, it)
        if isinstance(itv, Agg) and itv.ty == "sliceiter" and isinstance(it, Ref):
            arr, idx = itv.fields
            i = z3.simplify(idx.t).as_long()
            ex._set(st, it.key, list(it.path), Agg("sliceiter", None, [arr, Sym(z3.BitVecVal(i + 1, 64), "usize")]))
            if i < len(arr.fields):
                el = arr.fields[i]
                return opt_some(dty, el if isinstance(el, Str) and "&&" not in dty else RefV(el))
            return opt_none(dty)
    # ---------------------------------------------------------------- Option
    m = re.fullmatch(r"(?:std::option::|core::option::)?Option::(\w+)", c)
    if m:
        meth = m.group(1)
        v = args[0]
        if meth in ("is_some", "is_none"):
            tv = deref_val(ex, st, v)
            if isinstance(tv, Agg):
                return Sym(z3.BoolVal((tv.variant == "Some") == (meth == "is_some")), "bool")
            d = ex.discr(st, tv)
            return Sym(d == z3.BitVecVal(1 if meth == "is_some" else 0, 64), "bool")
        if meth in ("map_or", "map_or_else") and len(args) == 3 and isinstance(deref_val(ex, st, v), Agg) and deref_val(ex, st, v).variant == "None" \
                and meth == "map_or":
            return args[1]              # Option::map_or(None, default, f) = default
        if meth in ("unwrap", "expect"):
            out = []
            for cnd, nm in enum_split(ex, st, v, ["None", "Some"]):
                if nm == "Some":
                    out.append((cnd, payload(ex, st, v, "Some", 0, dty)))
                else:
                    out.append((cnd, _PANIC))
            return _forks(ex, st, out, "Option::" + meth + " on None")
        if meth in ("unwrap_or", "unwrap_or_default") and len(args) <= 2:
            out = []
            for cnd, nm in enum_split(ex, st, v, ["None", "Some"]):
                if nm == "Some":
                    out.append((cnd, payload(ex, st, v, "Some", 0, dty)))
                elif meth == "unwrap_or":
                    out.append((cnd, args[1]))
                else:
                    return NotImplemented
            return out
        if meth == "as_ref":
            tv = deref_val(ex, st, v)
            out = []
            for cnd, nm in enum_split(ex, st, tv, ["None", "Some"]):
                if nm == "Some":
                    inner = generic_args(dty)
                    out.append((cnd, opt_some(dty, RefV(payload(ex, st, tv, "Some", 0, strip_ref(inner[0])[0] if inner else "?")))))
                else:
                    out.append((cnd, opt_none(dty)))
            return out
        if meth == "map" and len(args) == 2:
            out = []
            for cnd, nm in enum_split(ex, st, v, ["None", "Some"]):
                if nm == "Some":
                    inner = generic_args(dty)
                    mv = ex.fresh_lazy(inner[0] if inner else "?", "mapped")
                    if hasattr(mv, "oid"):        # provenance: the mapped value is a function of the closure and the payload
                        pl = payload(ex, st, v, "Some", 0, "?")
                        ex.havoc_calls[mv.oid] = ("Option::map", [pl, args[1]])
                        ex.havoc_snap[mv.oid] = [pl, deref_val(ex, st, args[1])]
                        ex.havoc_raw[mv.oid] = callee
                    out.append((cnd, opt_some(dty, mv)))
                else:
                    out.append((cnd, opt_none(dty)))
            return out
        if meth == "ok_or" or meth == "ok_or_else":
            return NotImplemented
        return NotImplemented
    # ---------------------------------------------------------------- floats
    if re.fullmatch(r"(?:core|std)::(?:f32|f64)::<impl (f32|f64)>::abs", c) or c in ("f32::abs", "f64::abs"):
        v = args[0]
        if isinstance(v, Sym) and z3.is_fp(v.t):
            return Sym(z3.fpAbs(v.t), v.ty)
    # ---------------------------------------------------------------- Result / Try
    if re.fullmatch(r"<(?:std::result::|core::result::)?Result<.*> as (?:std::ops::|core::ops::)?Try>::branch", c):
        v = args[0]
        out = []
        for cnd, nm in enum_split(ex, st, v, ["Ok", "Err"]):
            if nm == "Ok":
                out.append((cnd, Agg("ControlFlow", "Continue", [payload(ex, st, v, "Ok", 0)])))
            else:
                out.append((cnd, Agg("ControlFlow", "Break", [Agg("Result", "Err", [payload(ex, st, v, "Err", 0)])])))
        return out
    if re.fullmatch(r"<(?:std::option::|core::option::)?Option<.*> as (?:std::ops::|core::ops::)?Try>::branch", c):
        v = args[0]
        out = []
        for cnd, nm in enum_split(ex, st, v, ["None", "Some"]):
            if nm == "Some":
                out.append((cnd, Agg("ControlFlow", "Continue", [payload(ex, st, v, "Some", 0)])))
            else:
                out.append((cnd, Agg("ControlFlow", "Break", [opt_none("Option")])))
        return out
    if re.fullmatch(r"<(?:std::result::|core::result::)?Result<.*> as (?:std::ops::|core::ops::)?FromResidual<.*>>::from_residual", c):
        v = args[0]
        e = payload(ex, st, v, "Err", 0)
        return Agg(dty, "Err", [Agg("From::from", None, [e])])
    if re.fullmatch(r"<(?:std::option::|core::option::)?Option<.*> as (?:std::ops::|core::ops::)?FromResidual<.*>>::from_residual", c):
        return opt_none(dty)
    m = re.fullmatch(r"(?:std::result::|core::result::)?Result::(\w+)", c)
    if m:
        meth = m.group(1)
        v = args[0]
        if meth in ("is_ok", "is_err"):
            tv = deref_val(ex, st, v)
            if isinstance(tv, Agg):
                return Sym(z3.BoolVal((tv.variant == "Ok") == (meth == "is_ok")), "bool")
            d = ex.discr(st, tv)
            return Sym(d == z3.BitVecVal(0 if meth == "is_ok" else 1, 64), "bool")
        if meth in ("unwrap", "expect"):
            out = []
            for cnd, nm in enum_split(ex, st, v, ["Ok", "Err"]):
                out.append((cnd, payload(ex, st, v, "Ok", 0, dty) if nm == "Ok" else _PANIC))
            return _forks(ex, st, out, "Result::" + meth + " on Err")
        if meth == "ok":
            out = []
            for cnd, nm in enum_split(ex, st, v, ["Ok", "Err"]):
                out.append((cnd, opt_some(dty, payload(ex, st, v, "Ok", 0)) if nm == "Ok" else opt_none(dty)))
            return out
        return NotImplemented
    # ---------------------------------------------------------------- PartialEq on C-like enums / strs / ints
    m = re.fullmatch(r"<(.*) as PartialEq(?:<.*>)?>::(eq|ne)", c)
    if m:
        a, b = deref_val(ex, st, args[0]), deref_val(ex, st, args[1])
        a, b = deref_val(ex, st, a), deref_val(ex, st, b)
        neg = m.group(2) == "ne"
        r = None
        if isinstance(a, Str) and isinstance(b, Str):
            r = z3.BoolVal(a.s == b.s)
        elif isinstance(a, Sym) and isinstance(b, Sym):
            r = a.t == b.t
        else:
            ty = (a.ty if isinstance(a, (Agg, Lazy)) else None) or (b.ty if isinstance(b, (Agg, Lazy)) else None)
            vs = ex.enums.variants(ty) if ty else None
            if vs and all(v[1] == "unit" for v in vs) and isinstance(a, (Agg, Lazy)) and isinstance(b, (Agg, Lazy)):
                r = ex.discr(st, a) == ex.discr(st, b)
        if r is None:
            return NotImplemented
        return Sym(z3.Not(r) if neg else r, "bool")
    if c in ("core::str::<impl str>::len", "str::len") and isinstance(deref_val(ex, st, args[0]), Str):
        return Sym(z3.BitVecVal(len(deref_val(ex, st, args[0]).s.encode()), 64), "usize")
    # ---------------------------------------------------------------- usize helpers
    m = re.fullmatch(r"(?:core::num::<impl (usize|u8|u32|u64|i32|i64|isize)>|(usize|u32|u64|i32))::(saturating_sub|saturating_add|wrapping_add|wrapping_sub|min|max|checked_sub|checked_add|pow|abs_diff)", c)
    if m and all(isinstance(a, Sym) for a in args):
        ty = m.group(1) or m.group(2)
        op = m.group(3)
        x, y = args[0].t, args[1].t
        sg = ty.startswith("i")
        lt = (x < y) if sg else z3.ULT(x, y)
        if op == "saturating_sub" and not sg:
            return Sym(z3.If(z3.ULT(x, y), z3.BitVecVal(0, x.size()), x - y), ty)
        if op == "saturating_add" and not sg:
            return Sym(z3.If(z3.BVAddNoOverflow(x, y, False), x + y, z3.BitVecVal(-1, x.size())), ty)
        if op == "wrapping_add": return Sym(x + y, ty)
        if op == "wrapping_sub": return Sym(x - y, ty)
        if op == "min": return Sym(z3.If(lt, x, y), ty)
        if op == "max": return Sym(z3.If(lt, y, x), ty)
        if op == "checked_sub" and not sg:
            return [(z3.ULT(x, y), opt_none(dty)), (z3.Not(z3.ULT(x, y)), opt_some(dty, Sym(x - y, ty)))]
        if op == "checked_add" and not sg:
            ok = z3.BVAddNoOverflow(x, y, False)
            return [(z3.Not(ok), opt_none(dty)), (ok, opt_some(dty, Sym(x + y, ty)))]
        return NotImplemented
    m = re.fullmatch(r"<(usize|u8|u32|u64|i32|i64|isize) as (PartialOrd|Ord)>::(lt|le|gt|ge|cmp|max|min)", c)
    if m and m.group(3) in ("max", "min") and all(isinstance(a, Sym) for a in args):
        ty = m.group(1); x, y = args[0].t, args[1].t
        lt = (x < y) if ty.startswith("i") else z3.ULT(x, y)
        return Sym(z3.If(lt, y, x) if m.group(3) == "max" else z3.If(lt, x, y), ty)
    # std functions that panic on a violated precondition (contract from the std docs): the panic is a candidate the caller must exclude
    m = re.fullmatch(r"<(usize|u8|u16|u32|u64|i32|i64|isize) as Ord>::clamp", c) or re.fullmatch(r"(?:core|std)::cmp::Ord::clamp", c)
    if m and len(args) == 3 and all(isinstance(a, Sym) for a in args):
        x, lo, hi = args[0].t, args[1].t, args[2].t
        sg = args[0].ty.startswith("i")
        lt = (lambda a, b: a < b) if sg else z3.ULT
        val = Sym(z3.If(lt(x, lo), lo, z3.If(lt(hi, x), hi, x)), args[0].ty)
        return _forks(ex, st, [(lt(hi, lo), _PANIC), (z3.Not(lt(hi, lo)), val)], "contract: clamp requires min <= max")
    m = re.fullmatch(r"(?:std::cmp::|core::cmp::)(max|min)", c)
    if m and all(isinstance(a, Sym) for a in args):
        x, y = args[0].t, args[1].t
        lt = (x < y) if args[0].ty.startswith("i") else z3.ULT(x, y)
        return Sym(z3.If(lt, y, x) if m.group(1) == "max" else z3.If(lt, x, y), args[0].ty)
    return NotImplemented


class _Panic:
    pass


_PANIC = _Panic()


def _forks(ex, st, out, msg):
    """[(cond, value|_PANIC)] -> fork list; a feasible panic case becomes a panic outcome by way of a marker value"""
    res = []
    for c, v in out:
        if v is _PANIC:
            if ex.feasible(st, c):
                # record as panic candidate in the trace; the path itself continues only on the non-panicking cases
                st.trace.append(("panic-candidate", msg, c))
            continue
        res.append((c, v))
    if not res:
        return ("panic", msg)
    return res

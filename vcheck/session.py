"""Per-run session: MIR of the current tree (regenerated from /repo on every run through the tree-hash cache), enum tables,
solver helper with query accounting and vacuity twins."""
import os, subprocess, time, z3

from . import common, mirparse, mirsym, enums
from .common import Inconclusive


class Session:
    def __init__(self, report):
        self.report = report
        self._mir = {}
        self._enums = {}
        self.tree = None
        self.tier = report.tier
        self.smt_dump = []

    def mir(self, kind, featureset="default"):
        k = (kind, featureset)
        if k not in self._mir:
            path, tree, h = common.mir_dump(kind, featureset)
            self.tree = tree
            self._mirpath = getattr(self, "_mirpath", {})
            self._mirpath[k] = path
            self.report.extra["tree_hash"] = h
            with open(path) as fh:
                self._mir[k] = mirparse.parse_mir(fh.read())
        return self._mir[k]

    def mir_path(self, kind, featureset="default"):
        self.mir(kind, featureset)
        p = self._mirpath[(kind, featureset)]
        if not os.path.exists(p):
            # the shared cache was pruned by other runs while this (long) run was going on: dump again for the same tree
            p, tree, h = common.mir_dump(kind, featureset)
            self._mirpath[(kind, featureset)] = p
        return p

    def enums(self, featureset="default"):
        if featureset not in self._enums:
            if self.tree is None:
                self.tree, _ = common.snapshot()
            self._enums[featureset] = enums.EnumTable(self.tree, featureset)
        return self._enums[featureset]

    def executor(self, kind, featureset="default", **kw):
        funcs = self.mir(kind, featureset)
        ex = mirsym.Executor(funcs, self.enums(featureset), report=self.report, **kw)
        ex.tree = self.tree
        return ex

    def need(self, ex, name):
        f = ex.resolve(name)
        if f is None:
            raise Inconclusive(f"function `{name}` not found (or ambiguous) in the MIR of the current tree")
        return f

    # ------------------------------------------------------------------ solver
    def check(self, constraints, timeout_s=60):
        """-> (result in {'sat','unsat','unknown'}, model or None)"""
        # (the thorough tier may share the machine with other thorough runs: its caps are three times the quick ones)
        timeout_s = timeout_s * (3 if self.tier == "thorough" else 1) * float(os.environ.get("VERIF_TIMEOUT_SCALE", "1") or 1)
        s = z3.Solver()
        s.set("timeout", int(timeout_s * 1000))
        for c in constraints:
            s.add(c)
        t0 = time.time()
        r = s.check()
        dt = time.time() - t0
        self.report.queries += 1
        self.report.solver_s += dt
        if self.tier == "thorough" and len(self.smt_dump) < 400:
            self.smt_dump.append((s.to_smt2(), str(r)))
        if r == z3.sat:
            return "sat", s.model()
        if r == z3.unsat:
            return "unsat", None
        # z3 gave up: bit-vector arithmetic that stalls bit-blasting is often immediate for cvc5's integer encoding
        v = self.cvc5_verdict(s.to_smt2(), timeout_s)
        if v == "unsat":
            self.report.extra["decided_by_cvc5"] = self.report.extra.get("decided_by_cvc5", 0) + 1
            return "unsat", None
        return "unknown", None

    def cvc5_verdict(self, script, timeout_s):
        import tempfile
        script = "(set-logic ALL)\n" + script
        for opts in (["--solve-bv-as-int=sum"], []):
            try:
                t0 = time.time()
                p = subprocess.run(["cvc5", "--lang", "smt2", f"--tlimit={int(timeout_s * 1000)}"] + opts, input=script, capture_output=True,
                                   text=True, timeout=timeout_s + 10)
                self.report.solver_s += time.time() - t0
                self.report.queries += 1
            except Exception:
                continue
            out = [l for l in p.stdout.strip().split("\n") if l in ("sat", "unsat", "unknown")]
            if "(error" in p.stdout or "(error" in p.stderr:
                continue
            if out and out[0] == "unsat":
                return "unsat"
            if out and out[0] == "sat":
                return "sat"
        return "unknown"

    def reachable(self, assumptions, timeout_s=30):
        return self.check(assumptions, timeout_s)[0] != "unsat"

    def obligation(self, oid, assumptions, negated_goal, detail=None, timeout_s=60):
        """Discharge: assumptions /\\ negated_goal must be unsat; vacuity twin: assumptions must be sat.
        Returns ('unsat', None) | ('sat', model) | ('vacuous'|'unknown', None). Only records unsat/vacuous/unknown;
        the caller classifies sat (replay -> violation / known / spurious)."""
        r0, _ = self.check(assumptions, timeout_s)
        if r0 == "unsat":
            self.report.add(oid, "vacuous", "assumptions unsatisfiable: the asserted location is unreachable")
            return "vacuous", None
        if r0 == "unknown":
            self.report.add(oid, "inconclusive", "solver timeout on reachability twin")
            return "unknown", None
        r, m = self.check(list(assumptions) + [negated_goal], timeout_s)
        if r == "unsat":
            self.report.add(oid, "unsat", detail)
        elif r == "unknown":
            self.report.add(oid, "inconclusive", "solver timeout")
        return r, m

    def cross_check_cvc5(self):
        """thorough tier: replay every recorded script through cvc5 and diff verdicts"""
        bad = 0
        n = 0
        for script, verdict in self.smt_dump[:120]:
            try:
                p = subprocess.run(["cvc5", "--lang", "smt2", "--tlimit=20000"], input=script + "\n", capture_output=True, text=True, timeout=40)
            except Exception:
                continue
            out = p.stdout.strip().split("\n")[0] if p.stdout.strip() else ""
            if out in ("sat", "unsat"):
                n += 1
                if out != verdict:
                    bad += 1
        self.report.extra["cvc5_cross_check"] = {"scripts": n, "disagreements": bad}
        if bad:
            self.report.add("cvc5-cross-check", "inconclusive", f"{bad} verdicts differ between z3 and cvc5")


def pc_and(pc):
    return z3.And(*pc) if pc else z3.BoolVal(True)


def find_calls(trace, pred):
    """havoc'd/effect calls in a path trace whose canonical name satisfies pred -> [(name, args, result)]"""
    return [(t[1], t[2], t[3]) for t in trace if t[0] in ("havoc", "effect") and pred(t[1])]

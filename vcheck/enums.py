"""cfg-aware reader of Rust `enum` items (variant order = discriminant for enums without explicit values).
Reads StyLua's own sources from the snapshot tree and full_moon's from the cargo registry, for a given feature set.
The tables are *cross-checked* by mirsym against what the MIR shows (switch target k whose block projects `as Name`)."""
import glob, os, re

from . import common


def fm_features(stylua_feats):
    f = set()
    s = set(stylua_feats)
    if "lua54" in s: s |= {"lua53"}
    if "lua53" in s: s |= {"lua52"}
    if "luau" in s: f |= {"roblox", "luau"}
    for v in ("lua52", "lua53", "lua54", "luajit"):
        if v in s: f.add(v)
    if "lua54" in f: f.add("lua53")
    if "lua53" in f: f.add("lua52")
    f.add("serde")
    return f


def eval_cfg(expr, feats):
    expr = _unmask(expr.strip())
    m = re.fullmatch(r'feature\s*=\s*"([^"]*)"', expr)
    if m:
        return m.group(1) in feats
    for op in ("any", "all", "not"):
        if expr.startswith(op + "(") and expr.endswith(")"):
            inner = expr[len(op) + 1:-1]
            parts = [p for p in _split(inner) if p.strip()]
            vals = [eval_cfg(p, feats) for p in parts]
            return {"any": any(vals), "all": all(vals), "not": not vals[0]}[op]
    if expr in ("test", "kani", "debug_assertions"):
        return False
    if expr.startswith("target_arch"):
        return "wasm32" not in expr
    return False


def _split(s):
    out, d, cur = [], 0, []
    for c in s:
        if c in "([{": d += 1
        elif c in ")]}": d -= 1
        if c == "," and d == 0:
            out.append("".join(cur)); cur = []
        else:
            cur.append(c)
    out.append("".join(cur))
    return out


_STRS = []


def _strip_comments(src):
    """remove comments; mask string/char literals as \x00<k>\x00 so that braces/commas/slashes inside them are inert."""
    out, i, n = [], 0, len(src)
    while i < n:
        c = src[i]
        if c == "/" and src.startswith("//", i):
            j = src.find("\n", i)
            i = n if j == -1 else j
            continue
        if c == "/" and src.startswith("/*", i):
            j = src.find("*/", i + 2)
            i = n if j == -1 else j + 2
            continue
        if c == '"':
            j = i + 1
            while j < n and src[j] != '"':
                j += 2 if src[j] == "\\" else 1
            _STRS.append(src[i + 1:j]); out.append("\x00%d\x00" % (len(_STRS) - 1)); i = j + 1
            continue
        if c == "'":
            m = re.match(r"'(\\.[^']*|[^'\\])'", src[i:])
            if m:
                out.append("'c'"); i += len(m.group(0)); continue
        out.append(c); i += 1
    return "".join(out)


def _unmask(s):
    return re.sub("\x00(\\d+)\x00", lambda m: '"' + _STRS[int(m.group(1))] + '"', s) if s else s


def _body(src, i):
    """src[i] == '{' -> (body, end)"""
    d = 0
    for j in range(i, len(src)):
        if src[j] == "{": d += 1
        elif src[j] == "}":
            d -= 1
            if d == 0:
                return src[i + 1:j], j
    raise ValueError


def parse_enums(src, feats):
    """-> dict enum name -> list of (variant, payload_kind, fields, extra) in discriminant order."""
    src = _strip_comments(src)
    out = {}
    for m in re.finditer(r"((?:#\[[^\]]*\]\s*)*)(?:pub(?:\([a-z]+\))?\s+)?enum\s+([A-Za-z_][A-Za-z0-9_]*)\s*(?:<[^>{]*>)?\s*\{", src):
        attrs, name = m.group(1), m.group(2)
        ok = True
        for a in re.finditer(r"#\[cfg\((.*?)\)\]\s", attrs + " ", flags=re.S):
            ok = ok and eval_cfg(a.group(1), feats)
        if not ok:
            continue
        body, _ = _body(src, m.end() - 1)
        variants = []
        for item in _split(body):
            item = item.strip()
            if not item:
                continue
            keep = True
            # bracket version syntax of full_moon's macros: [luau | lua53] Name ...
            bm = re.match(r"^((?:#\[.*?\]\s*)*)\[([a-z0-9_ |]+)\]\s*(.*)$", item, flags=re.S)
            if bm:
                keep = any(v.strip() in feats for v in bm.group(2).split("|"))
                item = bm.group(1) + bm.group(3)
            # attributes
            while item.startswith("#["):
                d, j = 0, 1
                for j in range(1, len(item)):
                    if item[j] == "[": d += 1
                    elif item[j] == "]":
                        d -= 1
                        if d == 0: break
                attr = item[2:j]
                cm = re.match(r"cfg\((.*)\)$", attr.strip(), flags=re.S)
                if cm:
                    keep = keep and eval_cfg(cm.group(1), feats)
                item = item[j + 1:].strip()
            vm = re.match(r"^([A-Za-z_][A-Za-z0-9_]*)\s*(.*)$", item, flags=re.S)
            if not vm or not keep:
                continue
            vname, rest = vm.group(1), vm.group(2).strip()
            extra = None
            fields = []
            kind = "unit"
            if rest.startswith("{"):
                kind = "named"
                fb, _ = _body(rest, 0)
                for f in _split(fb):
                    f = re.sub(r"#\[[^\]]*\]", "", f).strip()
                    fm = re.match(r"^(?:pub\s+)?([a-z_][A-Za-z0-9_]*)\s*:\s*(.*)$", f, flags=re.S)
                    if fm:
                        fields.append((fm.group(1), " ".join(fm.group(2).split())))
            elif rest.startswith("("):
                kind = "tuple"
                d = 0
                for j, c in enumerate(rest):
                    if c == "(": d += 1
                    elif c == ")":
                        d -= 1
                        if d == 0: break
                fields = [(str(k), " ".join(t.split())) for k, t in enumerate(_split(rest[1:j])) if t.strip()]
            elif rest.startswith("=>"):
                extra = _unmask(rest[2:].strip()).strip('"')       # symbol! lexeme
            elif rest.startswith("="):
                extra = rest[1:].strip()                 # make_bin_op! precedence (or explicit discriminant)
            variants.append((vname, kind, fields, extra))
        if variants:
            out.setdefault(name, variants)
    # convert_enum!(From, Arg, { A, #[cfg(..)] B, })   (src/cli/opt.rs)
    for m in re.finditer(r"convert_enum!\(\s*([A-Za-z_]\w*)\s*,\s*([A-Za-z_]\w*)\s*,\s*\{", src):
        body, _ = _body(src, m.end() - 1)
        vs = []
        for item in _split(body):
            item = item.strip()
            keep = True
            while item.startswith("#["):
                d = 0
                for j in range(1, len(item)):
                    if item[j] == "[": d += 1
                    elif item[j] == "]":
                        d -= 1
                        if d == 0: break
                cm = re.match(r"cfg\((.*)\)$", item[2:j].strip(), flags=re.S)
                if cm:
                    keep = keep and eval_cfg(cm.group(1), feats)
                item = item[j + 1:].strip()
            if item and keep and re.fullmatch(r"[A-Za-z_]\w*", item):
                vs.append((item, "unit", [], None))
        if vs:
            out.setdefault(m.group(2), vs)
    # property_choice! { Name, "key"; (Variant, "string"), ... }   and   property_valued! {Name, "key", type; (Variant, "string")}
    for m in re.finditer(r"property_choice!\s*\{\s*([A-Za-z_]\w*)\s*,\s*(\x00\d+\x00)\s*;", src):
        body, _ = _body(src, src.index("{", m.start()))
        vs = [(v.group(1), "unit", [], _unmask(v.group(2)).strip('"')) for v in re.finditer(r"\(\s*([A-Za-z_]\w*)\s*,\s*(\x00\d+\x00)\s*\)", body)]
        if vs:
            out.setdefault(m.group(1), vs)
    for m in re.finditer(r"property_valued!\s*\{\s*([A-Za-z_]\w*)\s*,\s*(\x00\d+\x00)\s*,\s*([A-Za-z_]\w*)\s*;", src):
        body, _ = _body(src, src.index("{", m.start()))
        vs = [("Value", "tuple", [("0", m.group(3))], None)]
        vs += [(v.group(1), "unit", [], _unmask(v.group(2)).strip('"')) for v in re.finditer(r"\(\s*([A-Za-z_]\w*)\s*,\s*(\x00\d+\x00)\s*\)", body)]
        out.setdefault(m.group(1), vs)
    # full_moon macros
    mb = re.search(r"make_bin_op!\(\s*(?:#\[[^\]]*\]\s*)*\{", src)
    if mb:
        body, _ = _body(src, mb.end() - 1)
        vs = []
        for item in _split(body):
            item = item.strip()
            if not item: continue
            keep = True
            bm = re.match(r"^\[([a-z0-9_ |]+)\]\s*(.*)$", item, flags=re.S)
            if bm:
                keep = any(v.strip() in feats for v in bm.group(1).split("|")); item = bm.group(2)
            vm = re.match(r"^([A-Za-z_]+)\s*=\s*(\d+)", item)
            if vm and keep:
                vs.append((vm.group(1), "tuple", [("0", "TokenReference")], vm.group(2)))
        out["BinOp"] = vs
    return out


def parse_structs(src, feats):
    """-> dict struct name -> ordered list of (field, type) (cfg-stripped); tuple structs get numeric names"""
    src = _strip_comments(src)
    out = {}
    for m in re.finditer(r"((?:#\[[^\]]*\]\s*)*)(?:pub(?:\([a-z]+\))?\s+)?struct\s+([A-Za-z_][A-Za-z0-9_]*)\s*(?:<[^>{(]*>)?\s*(\{|\()", src):
        attrs, name, br = m.group(1), m.group(2), m.group(3)
        ok = True
        for a in re.finditer(r"#\[cfg\((.*?)\)\]\s", attrs + " ", flags=re.S):
            ok = ok and eval_cfg(a.group(1), feats)
        if not ok:
            continue
        if br == "(":
            continue
        body, _ = _body(src, m.end() - 1)
        fields = []
        for item in _split(body):
            item = item.strip()
            keep = True
            while item.startswith("#["):
                d = 0
                for j in range(1, len(item)):
                    if item[j] == "[": d += 1
                    elif item[j] == "]":
                        d -= 1
                        if d == 0: break
                cm = re.match(r"cfg\((.*)\)$", item[2:j].strip(), flags=re.S)
                if cm:
                    keep = keep and eval_cfg(cm.group(1), feats)
                item = item[j + 1:].strip()
            fm = re.match(r"^(?:pub(?:\([a-z]+\))?\s+)?([a-z_][A-Za-z0-9_]*)\s*:\s*(.*)$", item, flags=re.S)
            if fm and keep:
                fields.append((fm.group(1), " ".join(fm.group(2).split())))
        out.setdefault(name, fields)
    return out


class EnumTable:
    def __init__(self, tree, featureset):
        feats_sty = set(common.FEATURESETS[featureset]) | {"editorconfig"}
        self.enums = {}
        self.structs = {}
        for p in sorted(glob.glob(os.path.join(tree, "src", "**", "*.rs"), recursive=True)):
            txt = open(p).read()
            for k, v in parse_enums(txt, feats_sty | _implied(feats_sty)).items():
                self.enums.setdefault(k, v)
            for k, v in parse_structs(txt, feats_sty | _implied(feats_sty)).items():
                self.structs.setdefault(k, v)
        fm = sorted(glob.glob(os.path.expanduser("~/.cargo/registry/src/*/full_moon-1.2.0")))
        if not fm:
            raise common.Inconclusive("full_moon source not found")
        ff = fm_features(feats_sty)
        self.fm = {}
        for p in sorted(glob.glob(os.path.join(fm[0], "src", "**", "*.rs"), recursive=True)):
            for k, v in parse_enums(open(p).read(), ff).items():
                self.fm.setdefault(k, v)
        for k, v in self.fm.items():
            self.enums.setdefault(k, v)
        ec = sorted(glob.glob(os.path.expanduser("~/.cargo/registry/src/*/ec4rs-1.0.2/src/property.rs")))
        for p in ec:
            for k, v in parse_enums(open(p).read(), set()).items():
                self.enums.setdefault(k, v)
        # std enums that appear as symbolic values
        self.enums.setdefault("Option", [("None", "unit", [], None), ("Some", "tuple", [("0", "T")], None)])
        self.enums.setdefault("Result", [("Ok", "tuple", [("0", "T")], None), ("Err", "tuple", [("0", "E")], None)])
        self.enums.setdefault("ControlFlow", [("Continue", "tuple", [("0", "C")], None), ("Break", "tuple", [("0", "B")], None)])
        self.enums.setdefault("Cow", [("Borrowed", "tuple", [("0", "B")], None), ("Owned", "tuple", [("0", "O")], None)])
        self.enums.setdefault("Ordering", [("Less", "unit", [], "-1"), ("Equal", "unit", [], "0"), ("Greater", "unit", [], "1")])
        self.enums.setdefault("Level", [("Error", "unit", [], "1"), ("Warn", "unit", [], "2"), ("Info", "unit", [], "3"),
                                        ("Debug", "unit", [], "4"), ("Trace", "unit", [], "5")])
        self.enums.setdefault("LevelFilter", [("Off", "unit", [], "0"), ("Error", "unit", [], "1"), ("Warn", "unit", [], "2"),
                                              ("Info", "unit", [], "3"), ("Debug", "unit", [], "4"), ("Trace", "unit", [], "5")])
        ver = re.search(r'name = "similar"\nversion = "([^"]+)"', open(os.path.join(tree, "Cargo.lock")).read())
        for p in sorted(glob.glob(os.path.expanduser(f"~/.cargo/registry/src/*/similar-{ver.group(1) if ver else '*'}/src/types.rs"))):
            for k, v in parse_enums(open(p).read(), set()).items():
                if k in ("DiffOp", "ChangeTag", "DiffTag"):
                    self.enums.setdefault(k, v)
        self.enums.setdefault("DiffOp", [("Equal", "named", [], None), ("Delete", "named", [], None), ("Insert", "named", [], None),
                                         ("Replace", "named", [], None)])
        self.enums.setdefault("ChangeTag", [("Equal", "unit", [], "0"), ("Delete", "unit", [], "1"), ("Insert", "unit", [], "2")])

    def field_index(self, struct, field):
        fs = self.structs.get(struct)
        if fs is None:
            return None
        for i, (n, _) in enumerate(fs):
            if n == field:
                return i
        return None

    def variants(self, ty):
        return self.enums.get(enum_key(ty))

    def index(self, ty, variant):
        vs = self.enums.get(enum_key(ty))
        if vs is None:
            return None
        for i, v in enumerate(vs):
            if v[0] == variant:
                if v[1] == "unit" and v[3] is not None and re.fullmatch(r"-?\d+", v[3]) and enum_key(ty) in ("Ordering", "Level", "LevelFilter", "ChangeTag"):
                    return int(v[3])
                return i
        return None

    def name(self, ty, idx):
        vs = self.enums.get(enum_key(ty))
        if vs is None:
            return None
        if enum_key(ty) in ("Ordering", "Level", "LevelFilter", "ChangeTag"):
            for v in vs:
                if int(v[3]) == idx:
                    return v[0]
            return None
        return vs[idx][0] if 0 <= idx < len(vs) else None


def _implied(f):
    s = set(f)
    if "lua54" in s: s.add("lua53")
    if "lua53" in s: s.add("lua52")
    return s


def enum_key(ty):
    """last path segment of a type, generics stripped: std::option::Option<&T> -> Option"""
    t = ty.strip()
    t = re.sub(r"^&(?:'\w+ )?(?:mut )?", "", t)
    # strip generics
    d, out = 0, []
    for c in t:
        if c == "<": d += 1
        elif c == ">": d -= 1
        elif d == 0: out.append(c)
    t = "".join(out).rstrip(":")
    return t.split("::")[-1].strip()


if __name__ == "__main__":
    import sys
    t = EnumTable(sys.argv[1], sys.argv[2] if len(sys.argv) > 2 else "default")
    for n in ("Expression", "Stmt", "BinOp", "UnOp", "ExpressionContext", "Symbol", "TokenType", "FormatNode", "QuoteStyle", "CallParenType", "LastStmt", "Suffix", "Call", "FunctionArgs", "Field", "Index", "Var", "Prefix"):
        print(n, [(i, v[0]) for i, v in enumerate(t.variants(n) or [])])

"""vcheck entry point:  vcheck <ID> [--tier quick|thorough] [--replay <file>]"""
import argparse, importlib, os, sys, traceback

from . import common
from .common import Report, Inconclusive
from .session import Session


def main():
    ap = argparse.ArgumentParser()
    ap.add_argument("prop")
    ap.add_argument("--tier", default=os.environ.get("VERIF_TIER", "quick"), choices=["quick", "thorough"])
    ap.add_argument("--replay", default=None)
    a = ap.parse_args()
    seed = int(os.environ.get("VERIF_SEED", "0") or 0)
    prop = a.prop.upper()
    os.makedirs(common.SCRATCH, exist_ok=True)
    mod = importlib.import_module(f"vcheck.props.{prop.lower()}")
    if a.replay:
        try:
            import json
            rec = json.load(open(a.replay)).get("replay", {})
        except Exception:
            rec = {}
        if "kani_harness" in rec:
            from . import kanix
            v = kanix.replay(rec)
            print(v or "the recorded Kani harness passes (or its counterexample does not reproduce natively)")
            if v:
                print(f"VIOLATION property={prop} replay={a.replay}")
            sys.exit(1 if v else 0)
        sys.exit(mod.replay(a.replay))
    def attempt():
        rep = Report(prop, a.tier, seed)
        ses = Session(rep)
        try:
            mod.run(ses, rep)
            if a.tier == "thorough":
                ses.cross_check_cvc5()
        except Inconclusive as e:
            rep.add("engine", "inconclusive", str(e)[:1500], nontrivial=False)
        except Exception as e:       # an engine bug is never a pass and never an alarm
            traceback.print_exc()
            rep.add("engine", "inconclusive", f"internal error: {type(e).__name__}: {e}"[:1500], nontrivial=False)
        return rep, ses
    rep, ses = attempt()
    if rep.inconclusive and not rep.violations and os.environ.get("VERIF_NO_RETRY") != "1":
        # Nothing was confirmed, something was not decided. A frequent cause: a small predicate was extracted into a helper function whose
        # result the kernels treat as arbitrary. Second attempt: such helpers (Boolean / field-less enum result, unknown to every kernel by
        # name) are followed into their MIR. Its verdict is taken only if it is a clean pass; otherwise the first attempt stands.
        from . import mirsym
        import re
        # .. and only while a function named in an undecided obligation is the one under analysis (the other kernels keep their view)
        names = {n_ for fs_ in ses._mir.values() for n_ in fs_}
        named = {seg for i in rep.inconclusive for seg in re.split(r"[/ :(),]", str(i)) if seg in names}
        mirsym.AUTO_INLINE, mirsym.AUTO_INLINE_ONLY = True, named
        rep2, _ = attempt()
        if not rep2.inconclusive and not rep2.violations and mirsym.AUTO_INLINED:
            rep2.assumptions.append("second attempt: helper functions followed into their MIR instead of being treated as arbitrary: " + ", ".join(sorted(mirsym.AUTO_INLINED)))
            rep2.extra["first_attempt_inconclusive"] = [str(i)[:200] for i in rep.inconclusive[:10]]
            rep = rep2
        else:
            mirsym.AUTO_INLINE = False
    # second engine: the leaf kernels Kani reaches are decided again by CBMC over the compiled functions (vcheck/kanix.py)
    from . import kanix
    kanix.run(rep, prop, a.tier)
    force = os.environ.get("VERIF_FORCE_FALLBACK") == "1"        # audit of the batteries on a tree where the property holds
    if (force or (rep.inconclusive and not rep.violations)) and hasattr(mod, "fallback") and os.environ.get("VERIF_NO_FALLBACK") != "1":
        # A kernel could not be built or a solver model found no matching scenario (typically after a restructuring of the code the
        # kernel is shaped after). The undecided obligations stay undecided; in addition EVERY scenario of the property's replay
        # battery is run against the native build of this tree, and a scenario whose concrete oracle fails is reported (it is a
        # reproduced violation of the property, whatever the kernels could say). Nothing is reported without a failing run.
        try:
            mod.fallback(rep)
        except Inconclusive as e:
            rep.add("fallback", "inconclusive", str(e)[:500], nontrivial=False)
        except Exception as e:
            traceback.print_exc()
            rep.add("fallback", "inconclusive", f"internal error: {type(e).__name__}: {e}"[:500], nontrivial=False)
    sys.exit(rep.finish())


if __name__ == "__main__":
    main()

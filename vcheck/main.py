"""vcheck entry point:  vcheck <ID> [--tier quick|thorough] [--replay <file>]"""
import argparse, importlib, os, sys, traceback

from . import common
from .common import Report, Inconclusive
from .session import Session


def main():
    ap = argparse.ArgumentParser()
    ap.add_argument("prop")
    ap.add_argument("--tier", default=os.environ.get("VERIF_TIER", "quick"), choices=["quick", "thorough"])
    ap.add_argument("--replay", default=None)
    a = ap.parse_args()
    seed = int(os.environ.get("VERIF_SEED", "0") or 0)
    prop = a.prop.upper()
    os.makedirs(common.SCRATCH, exist_ok=True)
    mod = importlib.import_module(f"vcheck.props.{prop.lower()}")
    if a.replay:
        sys.exit(mod.replay(a.replay))
    rep = Report(prop, a.tier, seed)
    ses = Session(rep)
    try:
        mod.run(ses, rep)
        if a.tier == "thorough":
            ses.cross_check_cvc5()
    except Inconclusive as e:
        rep.add("engine", "inconclusive", str(e)[:1500], nontrivial=False)
    except Exception as e:       # an engine bug is never a pass and never an alarm
        traceback.print_exc()
        rep.add("engine", "inconclusive", f"internal error: {type(e).__name__}: {e}"[:1500], nontrivial=False)
    sys.exit(rep.finish())


if __name__ == "__main__":
    main()

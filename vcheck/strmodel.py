"""String-literal rewrite kernel of format_token, encoded from the MIR (closure, get_quote_to_use) plus the regex front end,
and the checker's own Lua string decoder (oracle)."""
import re, z3

from . import regexfe
from .common import Inconclusive
from .mirsym import Sym, Str, Agg, Lazy, Ref, RefV, UNIT, vkey
from .summaries import canon, deref_val, opt_some, opt_none

BS, SQ, DQ, LF, CR = 92, 39, 34, 10, 13


class SStr:
    """symbolic short string: python list of z3 Int char terms (code points)"""
    def __init__(self, chars, tag=None):
        self.chars, self.tag = list(chars), tag

    def __repr__(self):
        return f"SStr({self.chars})"


def as_chars(v):
    if isinstance(v, Str):
        return [z3.IntVal(ord(c)) for c in v.s]
    if isinstance(v, SStr):
        return v.chars
    return None


class Literal:
    """the symbolic literal body: N char variables and a length"""
    def __init__(self, N, name="c"):
        self.N = N
        self.c = [z3.Int(f"{name}{i}") for i in range(N)]
        self.n = z3.Int(f"{name}_len")


def find_patterns(mir_text):
    """static NAME -> pattern, for lazy_static regexes (pattern constant of the Regex::new call in the initializer that follows)"""
    out = {}
    for m in re.finditer(r"^static ([A-Z_][A-Z0-9_]*): \1 = \{", mir_text, re.M):
        nm = m.group(1)
        m2 = re.compile(r'const "((?:\\.|[^"\\])*)";\n\s*_\d+ = regex::Regex::new\(').search(mir_text, m.end())
        if m2 and m2.start() - m.end() < 6000:
            from .mirsym import decode_rust_str
            out[nm] = decode_rust_str(m2.group(1))
    return out


def decode_template(lit):
    """rustc's format_args byte template `b"..."` -> list of ('lit', str) | ('arg',)"""
    body = lit[2:-1]
    bs = bytearray()
    i = 0
    while i < len(body):
        if body[i] == "\\":
            d = body[i + 1]
            if d == "x":
                bs.append(int(body[i + 2:i + 4], 16)); i += 4
            else:
                bs.append({"n": 10, "r": 13, "t": 9, "\\": 92, '"': 34, "'": 39, "0": 0}[d]); i += 2
        else:
            bs += body[i].encode(); i += 1
    out, i = [], 0
    while i < len(bs):
        b = bs[i]
        if b == 0:
            break
        if b == 0xC0:
            out.append(("arg",)); i += 1
        elif b < 0x80:
            out.append(("lit", bs[i + 1:i + 1 + b].decode())); i += 1 + b
        else:
            raise Inconclusive(f"format template byte {b:#x}")
    return out


class Kernel:
    def __init__(self, ses, featureset="default"):
        self.ses = ses
        self.fs = featureset
        self.ex = ses.executor("lib", featureset, hooks=[self.hook], inline=self.inline)
        self.patterns = find_patterns(open(ses.mir_path("lib", featureset)).read())
        self.lit = None
        self.regex_alts = {}
        for k, p in self.patterns.items():
            try:
                self.regex_alts[k] = regexfe.parse(p)
            except regexfe.Unsupported as e:
                self.regex_alts[k] = e

    def inline(self, name, fn):
        return canon(name).split("::")[-1] in ("config",)

    # ------------------------------------------------------------------ hooks
    def hook(self, ex, st, callee, args, dty):
        c = canon(callee)
        last = c.split("::")[-1]
        if c.endswith("Captures::get"):
            k = z3.simplify(args[1].t).as_long()
            has = z3.Bool(f"has{k}")
            m = Lazy(next(ex.oid_counter), "regex::Match<'_>", f"cap{k}", 0, {"group": k})
            return [(has, opt_some(dty, m)), (z3.Not(has), opt_none(dty))]
        if c.endswith("Match::as_str"):
            m = deref_val(ex, st, args[0])
            if isinstance(m, Lazy) and "group" in m.tags:
                return SStr([z3.Int(f"cap{m.tags['group']}")], tag=("cap", m.tags["group"]))
        if re.fullmatch(r"<str as PartialEq(<str>)?>::(eq|ne)", c):
            a, b = as_chars(deref_val(ex, st, args[0])), as_chars(deref_val(ex, st, args[1]))
            if a is not None and b is not None:
                r = z3.And([x == y for x, y in zip(a, b)]) if len(a) == len(b) else z3.BoolVal(False)
                return Sym(r if c.endswith("eq") else z3.Not(r), "bool")
        if re.fullmatch(r"<(std::string::)?String as From<&str>>::from", c) or re.fullmatch(r"<str as ToOwned>::to_owned", c) or \
                re.fullmatch(r"<(std::string::)?String as (Deref|AsRef<str>)>::(deref|as_ref)", c) or last in ("must_use", "as_str", "to_string", "into_owned"):
            v = deref_val(ex, st, args[0])
            if isinstance(v, (Str, SStr)):
                return v
        m = re.fullmatch(r"<([A-Z_][A-Z0-9_]*) as Deref>::deref", c)
        if m and m.group(1) in self.patterns:
            return RefV(Lazy(next(ex.oid_counter), "regex::Regex", "regex:" + m.group(1), 0, {"regex": m.group(1)}))
        if c.endswith("Regex::is_match"):
            rx = deref_val(ex, st, args[0])
            txt = as_chars(deref_val(ex, st, args[1]))
            if isinstance(rx, Lazy) and "regex" in rx.tags and txt is not None:
                alts = self.regex_alts[rx.tags["regex"]]
                if isinstance(alts, Exception):
                    raise Inconclusive(f"regex {self.patterns[rx.tags['regex']]!r}: {alts}")
                return Sym(regexfe.full_match(alts, txt), "bool")
        if last in ("new_display", "new_debug") and "Argument" in c:
            return Agg("fmtarg", None, [deref_val(ex, st, args[0])])
        if re.search(r"Arguments(<.*>)?::new", c) and len(args) == 2 and isinstance(args[0], Str) and args[0].s.startswith('b"'):
            arr = deref_val(ex, st, args[1])
            return Agg("fmtargs", None, [args[0], arr])
        if c in ("format", "std::fmt::format", "alloc::fmt::format"):
            fa = args[0]
            if isinstance(fa, Agg) and fa.ty == "fmtargs":
                tmpl = decode_template(fa.fields[0].s)
                arr = fa.fields[1]
                items = arr.fields if isinstance(arr, Agg) else []
                out, k = [], 0
                for t in tmpl:
                    if t[0] == "lit":
                        out += [z3.IntVal(ord(ch)) for ch in t[1]]
                    else:
                        v = items[k].fields[0] if k < len(items) and isinstance(items[k], Agg) else None
                        k += 1
                        ch = as_chars(deref_val(ex, st, v)) if v is not None else None
                        if ch is None:
                            return NotImplemented
                        out += ch
                return SStr(out)
        # ---- get_quote_to_use: string scanning over the symbolic literal
        if self.lit is not None:
            L = self.lit
            if re.fullmatch(r"core::str::<impl str>::contains", c):
                s_ = deref_val(ex, st, args[0])
                if isinstance(s_, Lazy) and s_.tags.get("literal") and isinstance(args[1], Sym):
                    ch = z3.BV2Int(args[1].t)
                    return Sym(z3.Or([z3.And(L.n > i, L.c[i] == ch) for i in range(L.N)]), "bool")
            if re.fullmatch(r"core::str::<impl str>::matches", c):
                s_ = deref_val(ex, st, args[0])
                if isinstance(s_, Lazy) and s_.tags.get("literal") and isinstance(args[1], Sym):
                    return Agg("matches", None, [args[1]])
            if re.fullmatch(r"<(std::str::|core::str::)?Matches<.*> as Iterator>::count", c) and isinstance(args[0], Agg) and args[0].ty == "matches":
                ch = z3.BV2Int(args[0].fields[0].t)
                cnt = z3.Sum([z3.If(z3.And(L.n > i, L.c[i] == ch), 1, 0) for i in range(L.N)])
                return Sym(z3.Int2BV(cnt, 64), "usize")
            if re.fullmatch(r"<usize as Ord>::cmp", c):
                a, b = deref_val(ex, st, args[0]), deref_val(ex, st, args[1])
                if isinstance(a, Sym) and isinstance(b, Sym):
                    return Sym(z3.If(z3.ULT(a.t, b.t), z3.BitVecVal(-1, 8), z3.If(a.t == b.t, z3.BitVecVal(0, 8), z3.BitVecVal(1, 8))), "i8")
        return NotImplemented

    # ------------------------------------------------------------------ the replacer closure
    def replacer_paths(self):
        """-> (paths: [(cond, [char terms])], quote_discr term) of the closure handed to replace_all"""
        ex = self.ex
        funcs = ex.funcs
        ft = self.ses.need(ex, "format_token")
        clos, rx_name = None, None
        prev_deref = None
        # format_token itself, then the in-crate helpers it calls (a refactoring may move the string arm into one)
        hosts = [ft]
        for sts in ft.blocks.values():
            for s in sts:
                if s[0] == "call":
                    g = ex.resolve(s[2])
                    if g is not None and g.blocks and "{closure" not in g.name and g not in hosts and any("Regex::replace_all" in s2[2] for b2 in g.blocks.values() for s2 in b2 if s2[0] == "call"):
                        hosts.append(g)
        self.hosts = hosts
        for ft_, bb in [(h, b) for h in hosts for b in sorted(h.blocks, key=lambda b: int(b[2:]))]:
            for s in ft_.blocks[bb]:
                if s[0] != "call":
                    continue
                m = re.fullmatch(r"<([A-Z_][A-Z0-9_]*) as Deref>::deref", canon(s[2]))
                if m:
                    prev_deref = m.group(1)
                if "Regex::replace_all" in s[2]:
                    rx_name = prev_deref
                    cm = re.search(r"replace_all::<(\{closure@[^}]*\})>", s[2])
                    if cm:
                        for n_, l in funcs.items():
                            for f in l:
                                if f.params and cm.group(1) in f.params[0][1] and "{closure" in n_:
                                    clos = f
        if clos is None or rx_name is None:
            raise Inconclusive("format_token: replace_all call / replacer closure not found")
        self.rx_name = rx_name
        self.ses.report.fn(clos)
        env = ex.fresh_lazy(clos.params[0][1].lstrip("&").replace("mut ", ""), "env")
        caps = ex.fresh_lazy("regex::Captures<'_>", "caps")
        outs = ex.run(clos, [RefV(env), RefV(caps)])
        # the captured quote type
        qd = None
        for (oid, key), v in ex.lazy_tab.items():
            if isinstance(v, Lazy) and "StringLiteralQuoteType" in v.ty and not strip_is_ref(v.ty):
                o = oid
                while o in ex.parent:
                    o = ex.parent[o][0]
                if o == env.oid:
                    qd = ex.lazy_tab.get((v.oid, ("discr",)))
        paths = []
        for o in outs:
            if o.kind == "panic":
                paths.append((z3.And(o.pc) if o.pc else z3.BoolVal(True), None))
                continue
            if o.kind != "return":
                raise Inconclusive(f"replacer path ended with {o.kind}")
            ch = as_chars(o.value)
            if ch is None:
                raise Inconclusive(f"replacer returns {o.value!r}")
            paths.append((z3.And(o.pc) if o.pc else z3.BoolVal(True), ch))
        return paths, qd

    def quote_paths(self, lit):
        """get_quote_to_use over the symbolic literal -> (term: output quote discriminant, style discriminant)"""
        ex = self.ex
        self.lit = lit
        fn = self.ses.need(ex, "get_quote_to_use")
        ctx = ex.fresh_lazy("context::Context", "ctx")
        s_ = Lazy(next(ex.oid_counter), "str", "literal", 0, {"literal": True})
        outs = ex.run(fn, [RefV(ctx), RefV(s_)])
        # quote_style symbol
        ci = ex.enums.field_index("Context", "config")
        qi = ex.enums.field_index("Config", "quote_style")
        cfg = ex.lazy_tab.get((ctx.oid, ("field", ci)))
        qs = ex.lazy_tab.get((cfg.oid, ("field", qi))) if cfg is not None else None
        if qs is None:
            raise Inconclusive("get_quote_to_use does not read ctx.config.quote_style")
        style = ex.discr(None, qs) if False else ex.lazy_tab.get((qs.oid, ("discr",)))
        term = None
        conds = []
        for o in outs:
            if o.kind == "panic":
                continue
            v = o.value
            if not (isinstance(v, Agg) and v.variant):
                raise Inconclusive(f"get_quote_to_use returns {v!r}")
            idx = ex.enums.index("StringLiteralQuoteType", v.variant)
            c = z3.And(o.pc) if o.pc else z3.BoolVal(True)
            conds.append(c)
            term = z3.BitVecVal(idx, 64) if term is None else z3.If(c, z3.BitVecVal(idx, 64), term)
        return term, style, z3.Or(conds)


def quote_wiring(ses, featureset="default"):
    """format_token's string arm (or the in-crate helper it was moved into): on every path for a StringLiteral token
      - written with quotes: the quote type of the token it builds IS the result of get_quote_to_use (no quoted literal bypasses the
        quote selection - whatever else the path does to the text);
      - written with long brackets: the token stays a brackets string.
    Everything the arm calls is left unconstrained (havoc), so the obligation is about the wiring only."""
    from .session import find_calls
    flagged = []
    ex0 = ses.executor("lib", featureset, inline=lambda n, f: False)
    ft = ses.need(ex0, "format_token")
    hosts = set()
    for sts in ft.blocks.values():
        for s_ in sts:
            if s_[0] == "call":
                g = ex0.resolve(s_[2])
                if g is not None and g.blocks and "{closure" not in g.name and any(
                        s2[0] == "call" and ("Regex::replace_all" in s2[2] or canon(s2[2]).split("::")[-1] == "get_quote_to_use") for b2 in g.blocks.values() for s2 in b2):
                    hosts.add(g.name)
    ex = ses.executor("lib", featureset, inline=lambda n, f: canon(n).split("::")[-1] in hosts or n in hosts, max_depth=3)
    ex.max_block_visits = 2
    fn = ses.need(ex, "format_token")
    args = [RefV(ex.fresh_lazy(t.lstrip("&").strip(), p)) if t.startswith("&") else ex.fresh_lazy(t, p) for p, t in fn.params]
    outs = ex.run(fn, args)
    T = ex.enums
    SL = T.index("TokenType", "StringLiteral")
    BR = T.index("StringLiteralQuoteType", "Brackets")
    n = 0
    for pi, o in enumerate(outs):
        if o.kind != "return":
            continue
        tt = find_calls(o.trace, lambda x: x.split("::")[-1] == "token_type")
        if not tt:
            continue
        tobj = deref_val(ex, o.state, tt[0][2])
        d = ex.discr(o.state, tobj)
        if ses.check(list(o.pc) + [d == SL], 10)[0] != "sat":
            continue
        n += 1
        qin = None
        if isinstance(tobj, Lazy):
            for (po, key), ch in ex.lazy_tab.items():
                if po == tobj.oid and key[0] == "vfield" and key[1] == "StringLiteral":
                    c2 = deref_val(ex, o.state, ch)
                    if isinstance(c2, Lazy) and "StringLiteralQuoteType" in c2.ty:
                        qin = ex.discr(o.state, c2)
        gq = [g[2] for g in find_calls(o.trace, lambda x: x.split("::")[-1] == "get_quote_to_use")]
        built = [deref_val(ex, o.state, c[1][0]) for c in find_calls(o.trace, lambda x: x.endswith("Token::new")) if c[1]]
        built = [a for a in built if isinstance(a, Agg) and a.variant == "StringLiteral"]
        if not built:
            r, m = ses.obligation(f"quote-wiring/path{pi}/builds-a-string-token", list(o.pc) + [d == SL], z3.BoolVal(True), "a StringLiteral token is rebuilt as a StringLiteral token")
            if r == "sat":
                flagged.append((f"quote-wiring/path{pi}/builds-a-string-token", "format_token returns something else than a rebuilt StringLiteral for a string token", "quote-wiring", {}))
            continue
        oq = deref_val(ex, o.state, built[-1].fields[-1])
        from_choice = any(oq is g or deref_val(ex, o.state, g) is oq for g in gq)
        is_br = isinstance(oq, Agg) and oq.variant == "Brackets"
        pre = list(o.pc) + [d == SL]
        if qin is None:
            # the path never looked at the quote type of the literal: it cannot tell brackets from quotes
            bad_q, bad_b = z3.BoolVal(not from_choice), z3.BoolVal(not is_br)
            r, m = ses.obligation(f"quote-wiring/path{pi}/quote-type-inspected", pre, z3.BoolVal(True), "the arm distinguishes brackets strings from quoted ones")
            if r == "sat":
                flagged.append((f"quote-wiring/path{pi}/quote-type-inspected", "a string token is rebuilt without looking at its quote type", "quote-wiring", {}))
            continue
        reach_q = ses.check(pre + [qin != z3.BitVecVal(BR, 64), z3.ULT(qin, z3.BitVecVal(3, 64))], 10)[0] == "sat"
        reach_b = ses.check(pre + [qin == z3.BitVecVal(BR, 64)], 10)[0] == "sat"
        r, m = ses.obligation(f"quote-wiring/path{pi}/quoted-literal-goes-through-get_quote_to_use", pre + [qin != z3.BitVecVal(BR, 64), z3.ULT(qin, z3.BitVecVal(3, 64))], z3.BoolVal(not from_choice),
                              "quoted literal: the output quote type is the result of get_quote_to_use") if reach_q else ("skip", None)
        if r == "sat":
            flagged.append((f"quote-wiring/path{pi}/quoted-literal-goes-through-get_quote_to_use", "a path of format_token rebuilds a QUOTED string literal without asking "
                            "get_quote_to_use for its quote (quote_style is not honoured there)", "quote-wiring", {}))
        r, m = ses.obligation(f"quote-wiring/path{pi}/brackets-literal-stays-brackets", pre + [qin == z3.BitVecVal(BR, 64)], z3.BoolVal(not is_br),
                              "brackets literal: the output is a brackets literal") if reach_b else ("skip", None)
        if r == "sat":
            flagged.append((f"quote-wiring/path{pi}/brackets-literal-stays-brackets", "a path of format_token rebuilds a long-bracket string with another quote type", "quote-wiring", {}))
    if n == 0:
        raise Inconclusive("format_token: no path for a StringLiteral token")
    return flagged


def strip_is_ref(t):
    return t.strip().startswith("&")


# ---------------------------------------------------------------------------------------------- replace_all encoding
def replace_all(alts, lit, replacer, qdiscr, qout):
    """leftmost-first, non-overlapping replace_all over lit.c[0:lit.n] -> (out array, out length, constraints)"""
    N = lit.N
    out = z3.K(z3.IntSort(), z3.IntVal(0))
    olen = z3.IntVal(0)
    skip_until = z3.IntVal(0)
    cons = []
    sub_q = [(qdiscr, qout)] if qdiscr is not None else []
    for i in range(N):
        live = z3.And(lit.n > i, skip_until <= i)
        ms = regexfe.match_at(alts, lit.c, lit.n, i)
        matched = z3.Or([m[0] for m in ms]) if ms else z3.BoolVal(False)
        new_out, new_len, new_skip = out, olen, skip_until
        # no match: copy the char
        o_copy, l_copy = z3.Store(out, olen, lit.c[i]), olen + 1
        o_sel, l_sel, sk_sel = o_copy, l_copy, skip_until
        for cond, L, groups in reversed(ms):
            # instantiate the closure for this match: has_k, cap_k
            sub = list(sub_q)
            for k in (1, 2, 3):
                has = z3.BoolVal(k in groups)
                sub.append((z3.Bool(f"has{k}"), has))
                if k in groups:
                    s0, l0 = groups[k]
                    sub.append((z3.Int(f"cap{k}"), lit.c[i + s0]))
            o_m, l_m = out, olen
            # choose the closure path
            o_p, l_p = out, olen
            for pc, chars in reversed(replacer):
                c_ = z3.substitute(pc, *sub)
                if chars is None:
                    cons.append(z3.Implies(z3.And(live, cond), z3.Not(c_)))     # a panic path must be unreachable
                    continue
                oo, ll = out, olen
                for ch in chars:
                    oo = z3.Store(oo, ll, z3.substitute(ch, *sub) if sub else ch)
                    ll = ll + 1
                o_p = z3.If(c_, oo, o_p)
                l_p = z3.If(c_, ll, l_p)
            o_sel = z3.If(cond, o_p, o_sel)
            l_sel = z3.If(cond, l_p, l_sel)
            sk_sel = z3.If(cond, z3.IntVal(i + L), sk_sel)
        out = z3.If(live, o_sel, out)
        olen = z3.If(live, l_sel, olen)
        skip_until = z3.If(live, sk_sel, skip_until)
    return out, olen, cons


# ---------------------------------------------------------------------------------------------- oracle: Lua string decoder
WS = (32, 9, 10, 13, 11, 12)


def decode(get, length, M, tag):
    """value (sequence of code points) denoted by a quoted Lua/Luau string body. Escapes: \\a\\b\\f\\n\\r\\t\\v\\\\ \\" \\' \\LF \\CR,
    \\ddd, \\xHH, \\z, \\u{XXX}; any other escaped character denotes itself (Lua 5.1 / Luau). Fold over at most M chars."""
    val = z3.K(z3.IntSort(), z3.IntVal(0))
    vlen = z3.IntVal(0)
    st = z3.IntVal(0)     # 0 normal, 1 after \, 2 decimal, 3 hex, 4 \u expecting {, 5 \u{ digits, 6 zskip
    acc = z3.IntVal(0)
    cnt = z3.IntVal(0)
    ok = z3.BoolVal(True)      # the literal obeys the Lua 5.3 / Luau rules for \x \u \ddd (other unknown escapes are tolerated)
    SIMPLE = {ord("a"): 7, ord("b"): 8, ord("f"): 12, ord("n"): 10, ord("r"): 13, ord("t"): 9, ord("v"): 11}

    def push(v, l, ch):
        return z3.Store(v, l, ch), l + 1

    for i in range(M + 1):
        live = (i < length) if i < M else z3.BoolVal(False)
        ch = get(i) if i < M else z3.IntVal(-1)
        isdig = z3.And(ch >= 48, ch <= 57)
        ishex = z3.Or(isdig, z3.And(ch >= 97, ch <= 102), z3.And(ch >= 65, ch <= 70))
        hexv = z3.If(isdig, ch - 48, z3.If(ch >= 97, ch - 87, ch - 55))
        # pending numeric escape ends (before looking at ch): decimal with 3 digits / non digit / end; hex with 2 digits
        flush_dec = z3.And(st == 2, z3.Or(z3.Not(live), z3.Not(isdig), cnt == 3))
        flush_hex = z3.And(st == 3, z3.Or(z3.Not(live), z3.Not(ishex), cnt == 2))
        flush_uni = z3.And(st == 5, z3.Not(live))
        fl = z3.Or(flush_dec, flush_hex, flush_uni)
        ok = z3.And(ok, z3.Not(z3.And(flush_hex, cnt < 2)), z3.Not(flush_uni), z3.Not(z3.And(flush_dec, acc > 255)))
        v2, l2 = push(val, vlen, acc)
        val = z3.If(fl, v2, val); vlen = z3.If(fl, l2, vlen); st = z3.If(fl, z3.IntVal(0), st)
        # \u expecting `{` but something else: the `u` denotes itself
        bad_u = z3.And(st == 4, z3.Or(z3.Not(live), ch != 123))
        ok = z3.And(ok, z3.Not(bad_u))
        ok = z3.And(ok, z3.Not(z3.And(live, st == 5, z3.Not(ishex), ch != 125)), z3.Not(z3.And(live, st == 5, ch == 125, cnt == 0)),
                    z3.Not(z3.And(live, st == 5, acc > 0x10FFFF)))
        v3, l3 = push(val, vlen, z3.IntVal(ord("u")))
        val = z3.If(bad_u, v3, val); vlen = z3.If(bad_u, l3, vlen); st = z3.If(bad_u, z3.IntVal(0), st)
        # zskip ends at the first non-whitespace
        isws = z3.Or([ch == w for w in WS])
        endz = z3.And(st == 6, z3.Or(z3.Not(live), z3.Not(isws)))
        st = z3.If(endz, z3.IntVal(0), st)
        # process ch
        simple = ch
        for k_, v_ in SIMPLE.items():
            simple = z3.If(ch == k_, z3.IntVal(v_), simple)
        n_val, n_len = push(val, vlen, ch)
        b_val, b_len = push(val, vlen, simple)
        after_bs_special = z3.Or(isdig, ch == ord("x"), ch == ord("u"), ch == ord("z"))
        val_new = z3.If(st == 0, z3.If(ch == BS, val, n_val),
                  z3.If(st == 1, z3.If(after_bs_special, val, b_val),
                  z3.If(st == 5, z3.If(ch == 125, push(val, vlen, acc)[0], val), val)))
        len_new = z3.If(st == 0, z3.If(ch == BS, vlen, n_len),
                  z3.If(st == 1, z3.If(after_bs_special, vlen, b_len),
                  z3.If(st == 5, z3.If(ch == 125, vlen + 1, vlen), vlen)))
        acc_new = z3.If(z3.And(st == 1, isdig), ch - 48,
                  z3.If(z3.And(st == 1, z3.Or(ch == ord("x"), ch == ord("u"))), z3.IntVal(0),
                  z3.If(st == 2, acc * 10 + (ch - 48),
                  z3.If(z3.Or(st == 3, z3.And(st == 5, ishex)), acc * 16 + hexv, acc))))
        cnt_new = z3.If(z3.And(st == 1, isdig), z3.IntVal(1),
                  z3.If(z3.And(st == 1, z3.Or(ch == ord("x"), ch == ord("u"))), z3.IntVal(0),
                  z3.If(z3.Or(st == 2, st == 3, z3.And(st == 5, ishex)), cnt + 1, cnt)))
        st_new = z3.If(st == 0, z3.If(ch == BS, z3.IntVal(1), z3.IntVal(0)),
                 z3.If(st == 1, z3.If(isdig, z3.IntVal(2), z3.If(ch == ord("x"), z3.IntVal(3), z3.If(ch == ord("u"), z3.IntVal(4),
                                z3.If(ch == ord("z"), z3.IntVal(6), z3.IntVal(0))))),
                 z3.If(st == 2, z3.IntVal(2),
                 z3.If(st == 3, z3.IntVal(3),
                 z3.If(st == 4, z3.IntVal(5),
                 z3.If(st == 5, z3.If(ch == 125, z3.IntVal(0), z3.IntVal(5)),
                 z3.If(st == 6, z3.IntVal(6), st)))))))
        # states 2/3 that flushed above are now 0 and fall in the st == 0 row; zskip state consuming whitespace keeps state 6
        val = z3.If(live, val_new, val); vlen = z3.If(live, len_new, vlen)
        acc = z3.If(live, acc_new, acc); cnt = z3.If(live, cnt_new, cnt); st = z3.If(live, st_new, st)
    ok = z3.And(ok, st != 1, st != 4)
    return val, vlen, ok


def py_decode(body):
    """the same decoder on concrete text (used by replay)"""
    out, i, n = [], 0, len(body)
    SIMPLE = {"a": 7, "b": 8, "f": 12, "n": 10, "r": 13, "t": 9, "v": 11}
    while i < n:
        c = body[i]
        if c != "\\":
            out.append(ord(c)); i += 1; continue
        i += 1
        if i >= n:
            break
        d = body[i]
        if d.isdigit() and d.isascii():
            j = i
            while j < n and j < i + 3 and body[j].isdigit() and body[j].isascii():
                j += 1
            out.append(int(body[i:j])); i = j
        elif d == "x":
            j = i + 1
            while j < n and j < i + 3 and body[j] in "0123456789abcdefABCDEF":
                j += 1
            out.append(int(body[i + 1:j], 16) if j > i + 1 else 0); i = j
        elif d == "u":
            if i + 1 < n and body[i + 1] == "{":
                j = i + 2
                acc = 0
                while j < n and body[j] != "}":
                    if body[j] in "0123456789abcdefABCDEF":
                        acc = acc * 16 + int(body[j], 16)
                    j += 1
                if j < n:
                    out.append(acc); i = j + 1
                else:
                    out.append(acc); i = j
            else:
                out.append(ord("u")); i += 1
        elif d == "z":
            i += 1
            while i < n and ord(body[i]) in WS:
                i += 1
        else:
            out.append(SIMPLE.get(d, ord(d))); i += 1
    return out

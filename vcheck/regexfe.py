"""Regex front end for the finite patterns StyLua uses on string literals: literals, escapes, classes (negation, ranges, \\s \\S \\d \\w),
groups, alternation, `?`, `^`, `$`.  A pattern is expanded into a priority-ordered list of fixed-length alternatives (leftmost-first
semantics of the `regex` crate: earlier alternative wins, `x?` prefers to match).  Anything else raises Unsupported."""
import z3


class Unsupported(Exception):
    pass


class Alt:
    """one fixed-length way to match: list of (char predicate builder, capture group ids that cover this position)"""
    def __init__(self, items, anch_start=False, anch_end=False):
        self.items, self.anch_start, self.anch_end = items, anch_start, anch_end

    def __len__(self):
        return len(self.items)


def _cls_pred(neg, parts):
    def pred(c):
        ds = []
        for p in parts:
            if p[0] == "ch": ds.append(c == p[1])
            elif p[0] == "range": ds.append(z3.And(c >= p[1], c <= p[2]))
            elif p[0] == "space": ds.append(z3.Or([c == x for x in (32, 9, 10, 13, 11, 12)]))
            elif p[0] == "nspace": ds.append(z3.Not(z3.Or([c == x for x in (32, 9, 10, 13, 11, 12)])))
            elif p[0] == "digit": ds.append(z3.And(c >= 48, c <= 57))
            elif p[0] == "any": ds.append(z3.BoolVal(True))
        r = z3.Or(ds) if ds else z3.BoolVal(False)
        return z3.Not(r) if neg else r
    return pred


ESC = {"n": 10, "r": 13, "t": 9, "f": 12, "v": 11, "0": 0, "a": 7}


def _escape(p, i, in_class):
    c = p[i]
    if c == "s": return ("space",), i + 1
    if c == "S": return ("nspace",), i + 1
    if c == "d": return ("digit",), i + 1
    if c in ESC: return ("ch", ESC[c]), i + 1
    if c == "x":
        return ("ch", int(p[i + 1:i + 3], 16)), i + 3
    if c.isalnum():
        raise Unsupported("escape \\" + c)
    return ("ch", ord(c)), i + 1


def parse(p):
    """-> list of Alt in priority order"""
    alts, i = _alternation(p, 0, [0])
    if i != len(p):
        raise Unsupported("trailing " + p[i:])
    return alts


def _alternation(p, i, gcount):
    out = []
    while True:
        seqs, i = _sequence(p, i, gcount)
        out += seqs
        if i < len(p) and p[i] == "|":
            i += 1
            continue
        return out, i


def _sequence(p, i, gcount):
    # list of partial alternatives (each a list of items), in priority order
    cur = [([], False, False)]
    while i < len(p) and p[i] not in "|)":
        c = p[i]
        if c == "^":
            cur = [(it, True if not it else _bad(), e) for it, s, e in cur]
            i += 1
            continue
        if c == "$":
            cur = [(it, s, True) for it, s, e in cur]
            i += 1
            continue
        if c == "(":
            cap = True
            j = i + 1
            if p.startswith("(?:", i):
                cap = False; j = i + 3
            elif p.startswith("(?", i):
                raise Unsupported("group flags")
            gid = None
            if cap:
                gcount[0] += 1
                gid = gcount[0]
            inner, j = _alternation(p, j, gcount)
            if j >= len(p) or p[j] != ")":
                raise Unsupported("unbalanced group")
            j += 1
            piece = [[(pred, gs | ({gid} if gid else set())) for pred, gs in a.items] for a in inner]
            i = j
        elif c == "[":
            j = i + 1
            neg = False
            if p[j] == "^":
                neg = True; j += 1
            parts = []
            first = True
            while p[j] != "]" or first:
                first = False
                if p[j] == "\\":
                    e, j = _escape(p, j + 1, True)
                    parts.append(e)
                elif j + 2 < len(p) and p[j + 1] == "-" and p[j + 2] != "]":
                    parts.append(("range", ord(p[j]), ord(p[j + 2]))); j += 3
                else:
                    parts.append(("ch", ord(p[j]))); j += 1
            piece = [[(_cls_pred(neg, parts), set())]]
            i = j + 1
        elif c == "\\":
            e, i = _escape(p, i + 1, False)
            piece = [[(_cls_pred(False, [e]), set())]]
        elif c == ".":
            piece = [[(lambda ch: ch != 10, set())]]
            i += 1
        elif c in "*+{":
            raise Unsupported("repetition " + c)
        else:
            piece = [[(_cls_pred(False, [("ch", ord(c))]), set())]]
            i += 1
        # quantifier
        if i < len(p) and p[i] == "?":
            i += 1
            if i < len(p) and p[i] == "?":
                i += 1
                piece = [[]] + piece          # lazy: prefer empty
            else:
                piece = piece + [[]]          # greedy: prefer to match
        elif i < len(p) and p[i] in "*+{":
            raise Unsupported("repetition " + p[i])
        cur = [(it + pc, s, e) for it, s, e in cur for pc in piece]
    return [Alt(it, s, e) for it, s, e in cur], i


def _bad():
    raise Unsupported("^ not at the start")


def match_at(alts, chars, n, i):
    """symbolic leftmost-first match attempt at position i of chars[0:n] (chars: python list of z3 Int terms; n: z3 Int or int).
    -> list of (condition, length, {group: (start offset, length)}) in priority order; condition k already includes 'no earlier
    alternative matched'."""
    res = []
    earlier = []
    for a in alts:
        L = len(a)
        if i + L > len(chars):
            continue
        conds = [n >= i + L] if not isinstance(n, int) else [z3.BoolVal(n >= i + L)]
        if a.anch_start:
            conds.append(z3.BoolVal(i == 0))
        if a.anch_end:
            conds.append(n == i + L)
        groups = {}
        for k, (pred, gs) in enumerate(a.items):
            conds.append(pred(chars[i + k]))
            for g in gs:
                s0, l0 = groups.get(g, (k, 0))
                groups[g] = (s0, l0 + 1)
        own = z3.And(conds)
        res.append((z3.And([own] + [z3.Not(e) for e in earlier]), L, groups))
        earlier.append(own)
    return res


def full_match(alts, chars):
    """is_match on exactly the given (concrete-length) char list: some alternative matches somewhere (with anchors honoured)"""
    n = len(chars)
    ds = []
    for i in range(n + 1):
        for c, L, g in match_at(alts, chars, n, i):
            ds.append(c)
    return z3.Or(ds) if ds else z3.BoolVal(False)

"""Bounded symbolic strings for the executor: a string of at most M characters is M code-point terms (z3 Int) and a length term.
Every operation the formatter applies to comment / literal text (replace with literal patterns, trim_end, contains, ...) is a
quantifier-free function of those terms, so obligations over ALL strings up to the bound are single solver queries.
Membership in a regular language is a symbolic run of a small DFA over the positions below the length."""
import re, z3

from .mirsym import Agg, Lazy, Ref, RefV, Str, Sym
from .summaries import canon, deref_val

CR, LF, TAB, SP = 13, 10, 9, 32


class BStr:
    def __init__(self, chars, n):
        self.chars, self.n = list(chars), n

    @property
    def cap(self):
        return len(self.chars)

    def __repr__(self):
        return f"BStr(cap={self.cap})"

    @staticmethod
    def fresh(name, cap):
        return BStr([z3.Int(f"{name}[{i}]") for i in range(cap)], z3.Int(f"{name}.len"))

    @staticmethod
    def const(s):
        return BStr([z3.IntVal(ord(c)) for c in s], z3.IntVal(len(s)))

    def wellformed(self):
        return z3.And(self.n >= 0, self.n <= self.cap, *[z3.And(c >= 0, c < 0x110000) for c in self.chars])

    def value(self, m):
        n = m.eval(self.n, model_completion=True).as_long()
        return "".join(chr(m.eval(c, model_completion=True).as_long()) for c in self.chars[:n])


def is_rust_whitespace(c):
    """char::is_whitespace (Unicode White_Space)"""
    return z3.Or(z3.And(c >= 9, c <= 13), c == 32, c == 0x85, c == 0xA0, c == 0x1680, z3.And(c >= 0x2000, c <= 0x200A),
                 c == 0x2028, c == 0x2029, c == 0x202F, c == 0x205F, c == 0x3000)


def compact(items, cap=None):
    """items: [(guard Bool, char Int)] in order -> BStr whose characters are the guarded-in items"""
    cap = len(items) if cap is None else cap
    cnt = [z3.IntVal(0)]
    for g, _ in items:
        cnt.append(cnt[-1] + z3.If(g, 1, 0))
    chars = []
    for j in range(cap):
        ch = z3.IntVal(0)
        for k in range(len(items) - 1, -1, -1):
            g, c = items[k]
            ch = z3.If(z3.And(g, cnt[k] == j), c, ch)
        chars.append(z3.simplify(ch))
    return BStr(chars, z3.simplify(cnt[-1]))


def replace_all(b, pat, rep):
    """str::replace(pat, rep) with literal pat and rep: leftmost, non-overlapping"""
    m = len(pat)
    if m == 0:
        raise ValueError("empty pattern")
    N = b.cap
    # skip[i]: position i is inside a match that started earlier. match[i]: a match starts at i.
    match, inside = [], []
    remaining = z3.IntVal(0)         # number of positions still covered by the current match
    items = []
    for i in range(N):
        here = z3.And(remaining == 0, i + m <= b.n, *[b.chars[i + k] == ord(pat[k]) for k in range(m)]) if i + m <= N else z3.BoolVal(False)
        here = z3.simplify(here)
        present = z3.IntVal(i) < b.n
        for ch in rep:
            items.append((z3.And(present, here), z3.IntVal(ord(ch))))
        items.append((z3.And(present, z3.Not(here), remaining == 0), b.chars[i]))
        remaining = z3.simplify(z3.If(here, z3.IntVal(m - 1), z3.If(remaining > 0, remaining - 1, z3.IntVal(0))))
    cap = N * max(1, len(rep)) if m == 1 else N + (N // m) * max(0, len(rep) - m)
    return compact(items, cap)


def trim_end(b):
    n = z3.IntVal(0)
    for j in range(1, b.cap + 1):
        # the largest j <= len whose last character is not whitespace
        n = z3.If(z3.And(j <= b.n, z3.Not(is_rust_whitespace(b.chars[j - 1]))), z3.IntVal(j), n)
    return BStr(b.chars, z3.simplify(n))


def char_at(b, idx):
    ch = z3.IntVal(-1)
    for i in range(b.cap - 1, -1, -1):
        ch = z3.If(idx == i, b.chars[i], ch)
    return ch


def trim_end_matches(b, pat):
    """str::trim_end_matches with a literal (char or &str) pattern: strip the suffix repeatedly"""
    m = len(pat)
    n = b.n
    for _ in range(b.cap // m):
        hit = z3.And(n >= m, *[char_at(b, n - m + k) == ord(pat[k]) for k in range(m)])
        n = z3.simplify(z3.If(hit, n - m, n))
    return BStr(b.chars, n)


def contains_char(b, code):
    return z3.Or(*[z3.And(i < b.n, b.chars[i] == code) for i in range(b.cap)]) if b.cap else z3.BoolVal(False)


def equal(a, b):
    k = max(a.cap, b.cap)
    cs = [a.n == b.n]
    for i in range(k):
        if i < a.cap and i < b.cap:
            cs.append(z3.Implies(i < a.n, a.chars[i] == b.chars[i]))
        elif i < a.cap:
            cs.append(a.n <= i)
        else:
            cs.append(b.n <= i)
    return z3.And(*cs)


class DFA:
    """states 0..k-1, `delta(state:int, c:z3 Int) -> z3 Int term`, accepting set; state -1 is dead"""
    def __init__(self, nstates, delta, accepting, start=0):
        self.nstates, self.delta, self.accepting, self.start = nstates, delta, accepting, start

    def run(self, b):
        st = z3.IntVal(self.start)
        for i in range(b.cap):
            nxt = z3.IntVal(-1)
            for s in range(self.nstates):
                nxt = z3.If(st == s, self.delta(s, b.chars[i]), nxt)
            st = z3.simplify(z3.If(i < b.n, nxt, st))
        return st

    def accepts(self, b):
        st = self.run(b)
        return z3.Or(*[st == a for a in self.accepting])


def dfa_lines(le):
    """every line break is exactly `le` ("\\n" or "\\r\\n"); no other CR / LF"""
    if le == "\n":
        return DFA(1, lambda s, c: z3.If(c == CR, z3.IntVal(-1), z3.IntVal(0)), {0})
    return DFA(2, lambda s, c: (z3.If(c == CR, z3.IntVal(1), z3.If(c == LF, z3.IntVal(-1), z3.IntVal(0))) if s == 0
                                else z3.If(c == LF, z3.IntVal(0), z3.IntVal(-1))), {0})


# input text as the tokenizer delivers it for files written with LF and/or CRLF: a CR is always followed by LF
DFA_LF_OR_CRLF = DFA(2, lambda s, c: (z3.If(c == CR, z3.IntVal(1), z3.IntVal(0)) if s == 0 else z3.If(c == LF, z3.IntVal(0), z3.IntVal(-1))), {0})
# the text of a single-line comment or shebang: no LF, and a CR only as the last character (the CR of a CRLF line ending)
DFA_ONE_LINE = DFA(2, lambda s, c: (z3.If(c == LF, z3.IntVal(-1), z3.If(c == CR, z3.IntVal(1), z3.IntVal(0))) if s == 0 else z3.IntVal(-1)), {0, 1})


def bval(ex, st, v):
    v = deref_val(ex, st, v)
    if isinstance(v, BStr):
        return v
    if isinstance(v, Str):
        return BStr.const(v.s if isinstance(v.s, str) else v.s.decode())
    return None


def hook(ex, st, callee, args, dty):
    """str / String methods over BStr values"""
    if not args:
        return NotImplemented
    a0 = deref_val(ex, st, args[0])
    if not isinstance(a0, BStr):
        return NotImplemented
    c = canon(callee)
    last = c.split("::")[-1]
    if last in ("deref", "as_str", "to_string", "to_owned", "borrow", "as_ref", "clone", "into_boxed_str", "into_string") \
            or re.search(r"as (Into|From)<.*>>::(into|from)$", c):
        return a0
    if last == "replace" and len(args) == 3:
        p = deref_val(ex, st, args[1])
        if isinstance(p, Sym) and z3.is_bv_value(z3.simplify(p.t)):
            pat = chr(z3.simplify(p.t).as_long())
        elif isinstance(p, Str):
            pat = p.s
        else:
            return NotImplemented
        r = deref_val(ex, st, args[2])
        if not isinstance(r, Str):
            return NotImplemented
        return replace_all(a0, pat, r.s)
    if last == "trim_end" and len(args) == 1:
        return trim_end(a0)
    if last == "trim_end_matches" and len(args) == 2:
        p = deref_val(ex, st, args[1])
        if isinstance(p, Sym) and z3.is_bv_value(z3.simplify(p.t)):
            return trim_end_matches(a0, chr(z3.simplify(p.t).as_long()))
        if isinstance(p, Str) and p.s:
            return trim_end_matches(a0, p.s)
        return NotImplemented
    if last == "contains" and len(args) == 2:
        p = deref_val(ex, st, args[1])
        if isinstance(p, Sym) and z3.is_bv_value(z3.simplify(p.t)):
            return Sym(contains_char(a0, z3.simplify(p.t).as_long()), "bool")
    if last == "is_empty":
        return Sym(a0.n == 0, "bool")
    if last == "len":
        return NotImplemented
    return NotImplemented

"""Parser for rustc's `-Zunpretty=mir` text. Produces Function objects with typed locals and basic blocks whose
statements/terminators are small tuples. Anything the parser does not understand is kept as ('unknown', text) and
makes the executor raise Inconclusive if (and only if) it is reached."""
import re


class Function:
    __slots__ = ("name", "kind", "params", "ret", "locals", "blocks", "text", "debug", "line")

    def __init__(self):
        self.locals = {}
        self.blocks = {}
        self.debug = {}


# ------------------------------------------------------------------ tokenizer helpers

def split_top(s, sep=","):
    """split on `sep` at nesting depth 0 of () [] {} <> and outside string/char literals."""
    out, depth, cur, i, n = [], 0, [], 0, len(s)
    while i < n:
        c = s[i]
        if c == '"' and not (0 < i < n - 1 and s[i - 1] == "'" and s[i + 1] == "'"):
            j = i + 1
            while j < n and s[j] != '"':
                j += 2 if s[j] == "\\" else 1
            cur.append(s[i:j + 1]); i = j + 1; continue
        if c == "'" and i + 2 < n and (s[i + 2] == "'" or (s[i + 1] == "\\")):
            # char literal like 'a' or '\n' or '\u{1234}' (lifetimes like '_ have no closing quote right after)
            j = s.find("'", i + 2 if s[i + 1] != "\\" else i + 3)
            if j != -1 and j - i <= 12:
                cur.append(s[i:j + 1]); i = j + 1; continue
        if c in "([{":
            depth += 1
        elif c in ")]}":
            depth -= 1
        elif c == "<":
            depth += 1
        elif c == ">" and i > 0 and s[i - 1] not in "-=":
            depth -= 1
        if c == sep and depth == 0:
            out.append("".join(cur).strip()); cur = []
        else:
            cur.append(c)
        i += 1
    t = "".join(cur).strip()
    if t:
        out.append(t)
    return out


def match_paren(s, i):
    """s[i] is an opening bracket; return index of the matching close (string-literal aware)."""
    op = s[i]; cl = {"(": ")", "[": "]", "{": "}"}[op]
    depth, n = 0, len(s)
    while i < n:
        c = s[i]
        if c == '"' and not (0 < i < n - 1 and s[i - 1] == "'" and s[i + 1] == "'"):
            j = i + 1
            while j < n and s[j] != '"':
                j += 2 if s[j] == "\\" else 1
            i = j + 1; continue
        if c == op:
            depth += 1
        elif c == cl:
            depth -= 1
            if depth == 0:
                return i
        i += 1
    raise ValueError("unbalanced: " + s)


# ------------------------------------------------------------------ places / operands

class Place:
    """base local + list of projections: ('deref',), ('field', idx, type), ('downcast', Variant),
    ('index', local), ('constindex', i, min_len, from_end), ('subslice', a, b, from_end)"""
    __slots__ = ("local", "proj")

    def __init__(self, local, proj):
        self.local, self.proj = local, proj

    def __repr__(self):
        return f"Place({self.local},{self.proj})"


def parse_place(s):
    s = s.strip()
    p, rest = _place(s, 0)
    if rest != len(s):
        raise ValueError(f"trailing in place: {s!r} at {rest}")
    return p


def _place(s, i):
    # returns (Place, next index)
    n = len(s)
    if s[i] == "(":
        if s.startswith("(*", i):
            inner, j = _place(s, i + 2)
            assert s[j] == ")", s
            pl = Place(inner.local, inner.proj + [("deref",)]); j += 1
        else:
            inner, j = _place(s, i + 1)
            if s.startswith(" as ", j):
                k = j + 4
                m = re.match(r"[A-Za-z_][A-Za-z0-9_]*", s[k:])
                var = m.group(0); k += len(var)
                assert s[k] == ")", s
                pl = Place(inner.local, inner.proj + [("downcast", var)]); j = k + 1
            elif s[j] == ".":
                m = re.match(r"\.(\d+): ", s[j:])
                idx = int(m.group(1)); k = j + len(m.group(0))
                # type runs to matching ')' at depth 0
                depth, e = 0, k
                while True:
                    c = s[e]
                    if c in "([{": depth += 1
                    elif c in ")]}":
                        if depth == 0 and c == ")": break
                        depth -= 1
                    elif c == "<": depth += 1
                    elif c == ">" and s[e - 1] not in "-=": depth -= 1
                    e += 1
                ty = s[k:e]
                pl = Place(inner.local, inner.proj + [("field", idx, ty)]); j = e + 1
            else:
                raise ValueError("place? " + s)
    else:
        m = re.match(r"_\d+", s[i:])
        if not m:
            raise ValueError("place? " + s[i:])
        pl = Place(m.group(0), []); j = i + len(m.group(0))
    # postfix: [..]
    while j < n and s[j] == "[":
        e = match_paren(s, j)
        body = s[j + 1:e]
        if re.fullmatch(r"_\d+", body):
            pl = Place(pl.local, pl.proj + [("index", body)])
        elif (m := re.fullmatch(r"(-?)(\d+) of (\d+)", body)):
            pl = Place(pl.local, pl.proj + [("constindex", int(m.group(2)), int(m.group(3)), m.group(1) == "-")])
        elif (m := re.fullmatch(r"(\d+):(-?)(\d*)", body)):
            pl = Place(pl.local, pl.proj + [("subslice", int(m.group(1)), int(m.group(3) or 0), m.group(2) == "-")])
        else:
            raise ValueError("index? " + s)
        j = e + 1
    return pl, j


def parse_operand(s):
    s = s.strip()
    if s.startswith("no_retag "):
        s = s[9:]
    if s.startswith("copy "):
        return ("copy", parse_place(s[5:]))
    if s.startswith("move "):
        return ("move", parse_place(s[5:]))
    if s.startswith("const "):
        return ("const", s[6:].strip())
    if re.match(r"^[A-Za-z_<]", s) and not s.startswith(("copy", "move")):
        return ("fnitem", s)      # a function item used as a value (e.g. passed to Iterator::any)
    raise ValueError("operand? " + s)


BINOPS = {"Eq", "Ne", "Lt", "Le", "Gt", "Ge", "Add", "Sub", "Mul", "Div", "Rem", "BitAnd", "BitOr", "BitXor", "Shl", "Shr",
          "AddWithOverflow", "SubWithOverflow", "MulWithOverflow", "Offset", "Cmp", "AddUnchecked", "SubUnchecked",
          "MulUnchecked", "ShlUnchecked", "ShrUnchecked"}
UNOPS = {"Not", "Neg", "PtrMetadata"}


def match_back(s, e):
    """s[e] is a closing bracket; index of the matching opener (string aware, walking backwards)."""
    cl = s[e]; op = {")": "(", "]": "[", "}": "{"}[cl]
    depth, i = 0, e
    while i >= 0:
        c = s[i]
        if c == '"' and not (0 < i < len(s) - 1 and s[i - 1] == "'" and s[i + 1] == "'"):
            i -= 1
            while i >= 0 and not (s[i] == '"' and (i == 0 or s[i - 1] != "\\")):
                i -= 1
        elif c == cl: depth += 1
        elif c == op:
            depth -= 1
            if depth == 0: return i
        i -= 1
    raise ValueError("unbalanced(back): " + s)


def parse_rvalue(s):
    s = s.strip()
    m = re.match(r"^([A-Za-z_<][^ ]*|<.*?>::[^ ]*) as (.*) \((PointerCoercion.*)\)$", s)
    if m and not s.startswith(("copy ", "move ", "const ")):
        return ("cast", ("fnitem", m.group(1)), m.group(2), m.group(3))
    if s.startswith(("copy ", "move ", "const ", "no_retag ")):
        # may be a cast: "move _3 as usize (IntToInt)"
        m = re.match(r"^((?:no_retag )?(?:copy|move) .*?|const .*?) as (.*) \(([A-Za-z_:\(\), ]+)\)$", s)
        if m and not s.startswith('const "'):
            try:
                return ("cast", parse_operand(m.group(1)), m.group(2), m.group(3))
            except ValueError:
                pass
        return ("use", parse_operand(s))
    if s.startswith("&raw const "):
        return ("ref", "raw", parse_place(s[11:]))
    if s.startswith("&raw mut "):
        return ("ref", "rawmut", parse_place(s[9:]))
    if s.startswith("&mut "):
        return ("ref", "mut", parse_place(s[5:]))
    if s.startswith("&fake shallow "):
        return ("ref", "shared", parse_place(s[14:]))
    if s.startswith("&"):
        return ("ref", "shared", parse_place(s[1:]))
    if s.startswith("discriminant("):
        return ("discriminant", parse_place(s[13:-1]))
    if s.startswith("Len("):
        return ("len", parse_place(s[4:-1]))
    m = re.match(r"^([A-Za-z]+)\((.*)\)$", s)
    if m and m.group(1) in BINOPS:
        a, b = split_top(m.group(2))
        return ("binop", m.group(1), parse_operand(a), parse_operand(b))
    if m and m.group(1) in UNOPS:
        return ("unop", m.group(1), parse_operand(m.group(2)))
    if s.startswith("[") and s.endswith("]"):
        body = s[1:-1]
        parts = split_top(body, ";")
        if len(parts) == 2:
            return ("repeat", parse_operand(parts[0]), parts[1])
        return ("aggregate", "array", None, None, [parse_operand(x) for x in split_top(body)] if body.strip() else [])
    if s.startswith("(") and s.endswith(")") and match_paren(s, 0) == len(s) - 1:
        body = s[1:-1]
        ops = split_top(body)
        return ("aggregate", "tuple", None, None, [parse_operand(x) for x in ops])
    if s == "()":
        return ("aggregate", "tuple", None, None, [])
    # closure / coroutine aggregate: {closure@...} { a: move _1 }   or unit closure value
    if s.startswith("{closure@"):
        e = match_paren(s, 0)
        name = s[:e + 1]
        rest = s[e + 1:].strip()
        fields = []
        if rest.startswith("{"):
            for f in split_top(rest[1:-1]):
                k, v = f.split(": ", 1)
                fields.append((k.strip(), parse_operand(v)))
        return ("aggregate", "closure", name, None, fields)
    # ADT aggregates: Path::Variant { f: op, .. } | Path::Variant(op, ..) | Path { f: op } | Path::Variant | Path
    if re.match(r"^[A-Za-z_<]", s):
        path, body = s, None
        if s.endswith(")") or s.endswith("}"):
            b = match_back(s, len(s) - 1)
            if s.endswith("}") or not s[:b].endswith(("::<", "<", ", ", "&")):
                path, body = s[:b].strip(), s[b:]
        if body is None:
            return ("aggregate", "adt", path, None, [])
        if body.startswith("{"):
            fields = []
            inner = body[1:-1].strip()
            for f in split_top(inner):
                k, v = f.split(": ", 1)
                fields.append((k.strip(), parse_operand(v)))
            return ("aggregate", "adt", path, "named", fields)
        else:
            return ("aggregate", "adt", path, "tuple", [parse_operand(x) for x in split_top(body[1:-1])])
    raise ValueError("rvalue? " + s)


def parse_targets(s):
    # "[return: bb1, unwind: bb3]" / "[return: bb1, unwind continue]" / "unwind continue"
    t = {}
    if re.fullmatch(r"bb\d+", s.strip()):
        return {"return": s.strip()}
    for m in re.finditer(r"(return|success|unwind|otherwise|\d+): (bb\d+)", s):
        t[m.group(1)] = m.group(2)
    return t


def parse_stmt(line):
    s = line.strip()
    if s.endswith(";"):
        s = s[:-1]
    if s in ("return", "unreachable", "resume", "nop", "ConstEvalCounter", "UnwindResume") or s.startswith(("StorageLive(", "StorageDead(", "FakeRead(", "PlaceMention(", "AscribeUserType(", "Retag(", "Coverage", "Deinit(", "BackwardIncompatibleDropHint")):
        if s == "return": return ("return",)
        if s == "unreachable": return ("unreachable",)
        if s in ("resume", "UnwindResume"): return ("resume",)
        return ("nop",)
    if s.startswith("goto -> "):
        return ("goto", s[8:])
    if s.startswith("falseEdge -> ["):
        return ("goto", re.search(r"real: (bb\d+)", s).group(1))
    if s.startswith("falseUnwind -> ["):
        return ("goto", re.search(r"real: (bb\d+)", s).group(1))
    if s.startswith("switchInt("):
        e = match_paren(s, 9)
        op = parse_operand(s[10:e])
        arms = []
        for a in split_top(s[s.index("[", e) + 1:s.rindex("]")]):
            k, t = a.split(": ")
            arms.append((k if k == "otherwise" else int(k), t))
        return ("switch", op, arms)
    if s.startswith("drop("):
        e = match_paren(s, 4)
        return ("drop", parse_place(s[5:e]), parse_targets(s[e:]))
    if s.startswith("assert("):
        e = match_paren(s, 6)
        args = split_top(s[7:e])
        cond = args[0]
        expected = True
        if cond.startswith("!"):
            expected = False; cond = cond[1:]
        return ("assert", parse_operand(cond), expected, args[1] if len(args) > 1 else "", parse_targets(s[e:]))
    # assignment or call
    m = re.match(r"^(\(?\*?[_\(][^=]*?) = (.*)$", s)
    if s.startswith("discriminant(") and " = " in s:
        lhs, rhs = s.split(" = ", 1)
        return ("setdiscr", parse_place(lhs[13:-1]), int(rhs))
    if m:
        lhs, rhs = m.group(1), m.group(2)
        # call? "callee(args) -> [return: bbN, unwind ...]" or "-> unwind continue"
        cm = re.match(r"^(.*\)) -> (\[.*\]|unwind .*|bb\d+)$", rhs)
        if cm and not rhs.startswith(("copy ", "move ", "const ", "&")):
            call = cm.group(1)
            # find the argument list: last top-level (...) group
            e = len(call) - 1
            i = match_back(call, e)
            callee = call[:i].strip()
            args = [parse_operand(a) for a in split_top(call[i + 1:e])] if call[i + 1:e].strip() else []
            return ("call", parse_place(lhs), callee, args, parse_targets(cm.group(2)))
        return ("assign", parse_place(lhs), parse_rvalue(rhs))
    # diverging call without destination?  "callee(args) -> unwind continue"
    cm = re.match(r"^(.*\)) -> (\[.*\]|unwind .*|bb\d+)$", s)
    if cm:
        call = cm.group(1)
        i = match_back(call, len(call) - 1)
        return ("call", None, call[:i].strip(), [parse_operand(a) for a in split_top(call[i + 1:-1])], parse_targets(cm.group(2)))
    raise ValueError("stmt? " + s)


HEADER = re.compile(r"^(fn|const|static(?: mut)?) (.*?)(?:\((.*)\))?(?: -> (.*?))? (?:= )?\{$")


def parse_mir(text):
    """returns dict name -> [Function,...] (several when the same printed name occurs more than once)."""
    funcs = {}
    lines = text.split("\n")
    i, n = 0, len(lines)
    ctfe = False
    while i < n:
        ln = lines[i]
        if ln.startswith("// MIR FOR CTFE"):
            ctfe = True; i += 1; continue
        m1 = re.match(r"^const ([A-Za-z_][A-Za-z0-9_:<> ]*?): ([A-Za-z0-9_&<>:, \[\]()]+) = (const .*);$", ln)
        if m1:
            # one-line constant:  const NAME: TY = const VALUE;
            f = parse_function([f"const {m1.group(1)}: {m1.group(2)} = {{", f"    let mut _0: {m1.group(2)};", "    bb0: {", f"        _0 = {m1.group(3)};",
                                "        return;", "    }", "}"])
            if f is not None:
                f.line = i + 1
                funcs.setdefault(f.name, []).append(f)
            i += 1
            continue
        if ln.startswith(("fn ", "const ", "static ")) and ln.endswith("{"):
            start = i
            j = i + 1
            while j < n and lines[j] != "}":
                j += 1
            body = lines[start:j + 1]
            i = j + 1
            if ctfe:
                ctfe = False
                continue
            f = parse_function(body)
            if f is not None:
                f.line = start + 1
                funcs.setdefault(f.name, []).append(f)
            continue
        i += 1
    return funcs


def parse_function(body):
    head = body[0]
    f = Function()
    f.text = "\n".join(body)
    if head.startswith("fn "):
        f.kind = "fn"
        # name up to the parameter list: find first '(' at angle depth 0 that starts "(_1:" or "()"
        # the parameter list starts at the first "(_1: " / "()" and ends at its matching parenthesis (the return type may itself
        # contain "fn(..) -> .." and parentheses)
        ms = re.search(r"\((?=_1: |\))", head)
        if not ms:
            return None
        i0 = ms.start()
        depth, i = 0, i0
        while i < len(head):
            ch = head[i]
            if ch in "([{":
                depth += 1
            elif ch in ")]}":
                depth -= 1
                if depth == 0:
                    break
            i += 1
        if depth != 0:
            return None
        name, params, rest = head[3:i0], head[i0 + 1:i], head[i + 1:]
        mr = re.match(r"^ -> (.*) \{$", rest)
        if mr:
            ret = mr.group(1)
        elif rest.strip() == "{":
            ret = "()"
        else:
            return None
        f.name, f.ret = name, ret
        f.params = []
        if params.strip():
            for p in split_top(params):
                k, t = p.split(": ", 1)
                f.params.append((k.strip(), t.strip()))
                f.locals[k.strip()] = t.strip()
    else:
        m = re.match(r"^(const|static(?: mut)?) (.*) = \{$", head)
        if not m:
            return None
        rest = m.group(2)
        depth, cut = 0, None
        for i, ch in enumerate(rest):
            if ch == "<": depth += 1
            elif ch == ">" and rest[i - 1] not in "-=": depth -= 1
            elif ch == ":" and depth == 0 and rest[i:i + 2] == ": " and rest[i - 1] != ":":
                cut = i
                break
        if cut is None:
            return None
        f.kind, f.name, f.ret, f.params = "const", rest[:cut], rest[cut + 2:], []
    cur = None
    for ln in body[1:-1]:
        s = ln.strip()
        if not s or s == "}":
            if ln.startswith("    }"):
                cur = None
            continue
        if cur is None:
            m = re.match(r"^let (?:mut )?(_\d+): (.*);$", s)
            if m:
                f.locals[m.group(1)] = m.group(2); continue
            m = re.match(r"^debug (\S+) => (.*);$", s)
            if m:
                f.debug[m.group(1)] = m.group(2); continue
            m = re.match(r"^(bb\d+)(?: \(cleanup\))?: \{$", s)
            if m:
                cur = m.group(1); f.blocks[cur] = []; continue
            continue
        try:
            f.blocks[cur].append(parse_stmt(s))
        except Exception as e:  # keep going; reaching it is Inconclusive
            f.blocks[cur].append(("unknown", s, repr(e)))
    return f


if __name__ == "__main__":
    import sys, collections
    fs = parse_mir(open(sys.argv[1]).read())
    unk = collections.Counter()
    nst = 0
    for name, lst in fs.items():
        for f in lst:
            for b, sts in f.blocks.items():
                for st in sts:
                    nst += 1
                    if st[0] == "unknown":
                        unk[re.sub(r"_\d+", "_N", st[1])[:90]] += 1
    print(len(fs), "items", nst, "statements", sum(unk.values()), "unknown")
    for k, v in unk.most_common(40):
        print(v, k)

"""Concrete confirmation scenarios for the CLI-side properties: run the native build of the *current tree* in a temporary
directory and evaluate the property's concrete oracle.  Used only to confirm (or refute) what a solver query flagged."""
import os, shutil, subprocess, tempfile, hashlib, time

from . import common

UNFORMATTED = "local   x   =    1\n"
FORMATTED = "local x = 1\n"
BROKEN = "local x = = 1\n"


def _snap(d):
    out = {}
    for base, _, fs in os.walk(d):
        for f in fs:
            p = os.path.join(base, f)
            if os.path.islink(p) and not os.path.exists(p):
                out[os.path.relpath(p, d)] = (b"<dangling symlink>", 0, 0)
                continue
            st = os.stat(p)
            out[os.path.relpath(p, d)] = (open(p, "rb").read(), st.st_mtime_ns, st.st_ino)
    return out


def run_cli(binp, files, args, cwd_files=None, stdin=None, env=None, timeout=60, cwd_rel=None):
    """files: {relpath: content}. Returns dict(rc, out, err, before, after)."""
    d = tempfile.mkdtemp(dir=common.SCRATCH, prefix="cli.")
    try:
        for rel, content in files.items():
            p = os.path.join(d, rel)
            os.makedirs(os.path.dirname(p), exist_ok=True)
            if isinstance(content, tuple) and content[0] == "symlink":
                os.symlink(content[1], p)
                continue
            with open(p, "wb") as fh:
                fh.write(content.encode() if isinstance(content, str) else content)
            old = time.time() - 100000
            os.utime(p, (old, old))
        before = _snap(d)
        e = dict(os.environ)
        e.pop("STYLUA_LOG", None)
        e["HOME"] = d
        e["XDG_CONFIG_HOME"] = os.path.join(d, ".xdg")
        if env:
            e.update(env)
        args = [a.replace("{ROOT}", d) for a in args]       # absolute spellings of files of the scenario tree
        r = subprocess.run([binp] + list(args), cwd=os.path.join(d, cwd_rel) if cwd_rel else d, input=(stdin.encode() if isinstance(stdin, str) else stdin),
                           capture_output=True, timeout=timeout, env=e)
        after = _snap(d)
        return {"rc": r.returncode, "out": r.stdout.decode("utf-8", "replace"), "err": r.stderr.decode("utf-8", "replace"),
                "before": before, "after": after, "argv": list(args)}
    finally:
        shutil.rmtree(d, ignore_errors=True)


def changed(res, rel, content_only=False):
    b, a = res["before"].get(rel), res["after"].get(rel)
    if b is None or a is None:
        return b != a
    if content_only:
        return b[0] != a[0]
    return b != a


def new_files(res):
    return sorted(set(res["after"]) - set(res["before"]))


def describe(res):
    return {"argv": res["argv"], "rc": res["rc"], "stdout": res["out"][:2000], "stderr": res["err"][:2000],
            "files_after": {k: v[0].decode("utf-8", "replace")[:400] for k, v in res["after"].items()}}

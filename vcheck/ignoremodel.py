"""Shared encoding for C08 (ignore directives) and C09 (range formatting): the same code carries both.

  A  should_format_node       symbolic comment lines / positions / range  ->  result == oracle(Skip > NotInRange > Normal)
  B  check_toggle_formatting  fold over <= K comment lines: last start/end directive wins, else the incoming flag
  C  format_block             one loop iteration (and the last-statement tail) from an arbitrary state: a statement that is not
                              Normal is pushed as-is together with its original semicolon
  D  format_stmt / format_last_stmt / format_eof / format_field: Skip (and NotInRange where no block is visited) returns the input
"""
import re, z3

from . import common
from .common import Inconclusive
from .mirsym import Sym, Str, Agg, Lazy, Ref, RefV, UNIT, vkey, derives_from
from .summaries import canon, deref_val, opt_some, opt_none
from .session import find_calls

LINES = ["stylua: ignore", "stylua: ignore start", "stylua: ignore end", "stylua: ignore ", "stylua:ignore", "stylua: ignore starts",
         "stylua: ignore ends", "-- stylua: ignore", "stylua: ignore next", ""]
# candidates are *trimmed* lines; entry 3 (trailing blank) cannot survive trim and is excluded from the domain
DOMAIN = [i for i, l in enumerate(LINES) if l == l.strip()]
K_TOKENS, K_LINES = 2, 2
VISITS = 8


class Model:
    def __init__(self, ses, featureset="default"):
        self.ses = ses
        self.ex = None
        self.fs = featureset
        self.sfn_memo = {}
        self.inline_helpers = True

    def new_executor(self, extra_hooks=(), **kw):
        ex = self.ses.executor("lib", self.fs, hooks=list(extra_hooks) + [self.hook_trivia], inline=lambda n, f: False, **kw)
        # free helper functions of context.rs (a refactoring may move the comment-line scanning into one) are part of the two tests
        import os
        src = open(os.path.join(common.REPO, "src/context.rs")).read()
        free = set(re.findall(r"^(?:pub(?:\([a-z]+\))? )?fn\s+(\w+)", src, re.M)) - {"create_indent_trivia", "create_plain_indent_trivia", "create_newline_trivia",
                                                                                   "line_ending_character"}
        helpers = {n_ for n_ in ex.funcs if n_.split("::")[-1] in free and "<impl" not in n_ and "{closure" not in n_}
        if helpers and self.inline_helpers:
            ex.inline = lambda n, f, helpers=helpers: f.name in helpers and len(f.blocks) <= 60
            ex.inline_closure_calls = True
        self.ex = ex
        return ex

    # ---------------------------------------------------------------- trivia / comment-line model
    def hook_trivia(self, ex, st, callee, args, dty):
        c = canon(callee)
        if re.fullmatch(r"<.* as Node>::surrounding_trivia", c) or c.endswith("Node::surrounding_trivia"):
            node = deref_val(ex, st, args[0])
            lead = Lazy(next(ex.oid_counter), "Vec<&Token>", "leading", 0, {"trivia_of": vkey(node)})
            trail = Lazy(next(ex.oid_counter), "Vec<&Token>", "trailing", 0, {})
            return Agg(dty, None, [lead, trail])
        if re.fullmatch(r"<Vec<&Token> as IntoIterator>::into_iter", c) or re.fullmatch(r"core::slice::<impl \[&Token\]>::iter", c) or \
                re.fullmatch(r"<&?Vec<&Token> as IntoIterator>::into_iter", c):
            v = deref_val(ex, st, args[0])
            if isinstance(v, Lazy) and "trivia_of" in v.tags:
                return Lazy(next(ex.oid_counter), dty, "tokiter", 0, {"tokiter": True})
        if re.fullmatch(r"<std::vec::IntoIter<&Token> as Iterator>::next", c) or re.fullmatch(r"<std::slice::Iter<'_, &Token> as Iterator>::next", c):
            k = st.aux.get("tok_k", 0)
            st.aux["tok_k"] = k + 1
            st.aux["line_j"] = 0
            ntok = z3.Int("ntok")
            if k >= K_TOKENS:
                return opt_none(dty)
            tok = Lazy(1000000 + k, "full_moon::tokenizer::Token", f"tok{k}", 0, {"tok": k})
            return [(ntok > k, opt_some(dty, RefV(tok))), (ntok <= k, opt_none(dty))]
        if c in ("Token::token_type", "full_moon::tokenizer::Token::token_type"):
            tok = deref_val(ex, st, args[0])
            if isinstance(tok, Lazy) and "tok" in tok.tags:
                return RefV(ex.lazy_child(st, tok, ("get", "token_type"), "full_moon::tokenizer::TokenType", ".tt"))
        if re.fullmatch(r"<ShortString as Deref>::deref", c):
            s_ = deref_val(ex, st, args[0])
            if isinstance(s_, Lazy):
                o, k = s_.oid, None
                while o in ex.parent:
                    o = ex.parent[o][0]
                k = o - 1000000 if 1000000 <= o < 1000000 + K_TOKENS else None
                if k is not None:
                    return RefV(Lazy(next(ex.oid_counter), "str", f"comment{k}", 0, {"comment_of": k}))
        if re.fullmatch(r"core::str::<impl str>::lines", c):
            s_ = deref_val(ex, st, args[0])
            if isinstance(s_, Lazy) and "comment_of" in s_.tags:
                return Lazy(next(ex.oid_counter), dty, "lines", 0, {"lines_of": s_.tags["comment_of"], "trimmed": False})
        if re.fullmatch(r"<std::str::Lines<'_> as Iterator>::map", c):
            it = args[0]
            if isinstance(it, Lazy) and "lines_of" in it.tags:
                cl = args[1]
                trims = self.closure_is_trim(ex, cl)
                return Lazy(next(ex.oid_counter), dty, "lines.map", 0, {"lines_of": it.tags["lines_of"], "trimmed": trims})
        if re.fullmatch(r"<std::iter::Map<std::str::Lines<'_>, .*> as IntoIterator>::into_iter", c):
            return args[0]
        if re.fullmatch(r"<std::iter::Map<std::str::Lines<'_>, .*> as Iterator>::next", c):
            it = deref_val(ex, st, args[0])
            if isinstance(it, Lazy) and "lines_of" in it.tags:
                k = it.tags["lines_of"]
                j = st.aux.get(("line_j", k), 0)
                st.aux[("line_j", k)] = j + 1
                if j >= K_LINES:
                    return opt_none(dty)
                nl = z3.Int(f"nlines{k}")
                line = Lazy(next(ex.oid_counter), "str", f"line{k}_{j}", 0, {"line": (k, j), "trimmed": it.tags["trimmed"]})
                return [(nl > j, opt_some(dty, RefV(line))), (nl <= j, opt_none(dty))]
        m = re.fullmatch(r"<&?str as PartialEq(<&?str>)?>::(eq|ne)", c)
        if m:
            a, b = deref_val(ex, st, args[0]), deref_val(ex, st, args[1])
            a, b = deref_val(ex, st, a), deref_val(ex, st, b)
            if isinstance(b, Lazy) and isinstance(a, Str):
                a, b = b, a
            if isinstance(a, Lazy) and "line" in a.tags and isinstance(b, Str):
                k, j = a.tags["line"]
                lc = z3.Int(f"lc{k}_{j}")
                if a.tags.get("trimmed"):
                    r = z3.Or([lc == i for i in DOMAIN if LINES[i] == b.s] + [z3.BoolVal(False)])
                else:
                    # untrimmed comparison: the raw line carries surrounding blanks; only an exact candidate without blanks matches
                    r = z3.And(z3.Bool(f"noblank{k}_{j}"), z3.Or([lc == i for i in DOMAIN if LINES[i] == b.s] + [z3.BoolVal(False)]))
                return Sym(r if m.group(2) == "eq" else z3.Not(r), "bool")
        return NotImplemented

    def closure_is_trim(self, ex, cl):
        """does the mapping closure return core::str::trim(arg)?"""
        name = cl.ty if isinstance(cl, Agg) else None
        if name is None:
            return False
        for n_, l in ex.funcs.items():
            for f in l:
                if "{closure" in n_ and f.params and name in f.params[0][1]:
                    calls = [canon(s[2]) for sts in f.blocks.values() for s in sts if s[0] == "call"]
                    return calls == ["core::str::<impl str>::trim"]
        return False

    def line_constraints(self):
        cs = [z3.Int("ntok") >= 0, z3.Int("ntok") <= K_TOKENS]
        for k in range(K_TOKENS):
            cs += [z3.Int(f"nlines{k}") >= 0, z3.Int(f"nlines{k}") <= K_LINES]
            for j in range(K_LINES):
                cs.append(z3.Or([z3.Int(f"lc{k}_{j}") == i for i in DOMAIN]))
        return cs

    def is_comment_token(self, ex, k):
        """term: token k is a single-line or multi-line comment"""
        tok = Lazy(1000000 + k, "full_moon::tokenizer::Token", f"tok{k}", 0, {"tok": k})
        tt = ex.lazy_tab.get((tok.oid, ("get", "token_type")))
        if tt is None:
            return z3.BoolVal(False)
        d = ex.discr(None, tt) if False else ex.lazy_tab.get((tt.oid, ("discr",)))
        if d is None:
            return z3.BoolVal(False)
        T = ex.enums
        return z3.Or(d == z3.BitVecVal(T.index("TokenType", "SingleLineComment"), 64), d == z3.BitVecVal(T.index("TokenType", "MultiLineComment"), 64))

    def any_line(self, ex, text):
        """oracle: some line of some comment token equals `text` exactly (after trim)"""
        ds = []
        for k in range(K_TOKENS):
            for j in range(K_LINES):
                ds.append(z3.And(z3.Int("ntok") > k, self.is_comment_token(ex, k), z3.Int(f"nlines{k}") > j,
                                 z3.Int(f"lc{k}_{j}") == LINES.index(text)))
        return z3.Or(ds)

    # ---------------------------------------------------------------- memoised should_format_node (ghost + hook)
    def sfn(self, ex, ctxv, nodev):
        key = (vkey(ctxv), vkey(nodev))
        if key not in self.sfn_memo:
            self.sfn_memo[key] = Lazy(next(ex.oid_counter), "FormatNode", "should_format_node", 0, {})
        return self.sfn_memo[key]

    def hook_sfn(self, ex, st, callee, args, dty):
        c = canon(callee)
        if c.endswith("Context::should_format_node"):
            return self.sfn(ex, deref_val(ex, st, args[0]), deref_val(ex, st, args[1]))
        return NotImplemented


def same_option(ex, st, out, src):
    """z3 condition under which the Option value `out` is the original Option `src` (a lazy object): the same object, or
    Some(payload of src) when src is Some, or None when src is None"""
    out = deref_val(ex, st, out)
    if src is None:
        return z3.BoolVal(False)
    if isinstance(out, Lazy):
        return z3.BoolVal(out.oid == src.oid)
    if isinstance(out, Agg) and out.variant == "None":
        return ex.discr(st, src) == 0
    if isinstance(out, Agg) and out.variant == "Some":
        x = deref_val(ex, st, out.fields[0])
        if isinstance(x, Lazy) and ex.parent.get(x.oid) == (src.oid, ("vfield", "Some", 0)):
            return ex.discr(st, src) == 1
    return z3.BoolVal(False)


# ================================================================================================ analyses
def analyse_should_format_node(M, ses, rep):
    """A: result == oracle for every combination of flag, comment lines, positions and range"""
    flagged = []
    ex = M.new_executor()
    fn = ses.need(ex, "context::Context::should_format_node")
    ctx = ex.fresh_lazy("context::Context", "ctx")
    node = ex.fresh_lazy("impl Node", "node")
    pos = {}

    def hook(ex_, st, callee, args, dty):
        c = canon(callee)
        m = re.fullmatch(r"<.* as Node>::(start_position|end_position)", c)
        if m:
            has = z3.Bool("has_" + m.group(1))
            p = Lazy(next(ex_.oid_counter), "Position", m.group(1), 0, {"pos": m.group(1)})
            return [(has, opt_some(dty, p)), (z3.Not(has), opt_none(dty))]
        if c.endswith("Position::bytes"):
            p = deref_val(ex_, st, args[0])
            if isinstance(p, Lazy) and "pos" in p.tags:
                return Sym(z3.BitVec("bytes_" + p.tags["pos"], 64), "usize")
        return NotImplemented
    ex.hooks = [hook] + ex.hooks
    ex.max_block_visits = VISITS
    outs = ex.run(fn, [RefV(ctx), RefV(node)])
    T = ex.enums
    ci = {n: T.field_index("Context", n) for n in ("config", "range", "formatting_disabled")}
    disabled = ex.lazy_tab.get((ctx.oid, ("field", ci["formatting_disabled"])))
    rng = ex.lazy_tab.get((ctx.oid, ("field", ci["range"])))
    if disabled is None:
        raise Inconclusive("should_format_node does not read formatting_disabled")
    # range terms (lazily created children; create what is missing so that the oracle can talk about them)
    st0 = outs[0].state if outs else None
    def child(lz, key, ty, lab):
        return ex.lazy_child(st0, lz, key, ty, lab)
    if rng is None:
        rng = child(ctx, ("field", ci["range"]), "Option<FormatRange>", ".range")
    has_range = ex.discr(st0, rng) == 1
    fr = child(rng, ("vfield", "Some", 0), "Range", ".Some.0")
    ri = {n: T.field_index("Range", n) for n in ("start", "end")}
    rs = child(fr, ("field", ri["start"]), "Option<usize>", ".start")
    re_ = child(fr, ("field", ri["end"]), "Option<usize>", ".end")
    has_s, has_e = ex.discr(st0, rs) == 1, ex.discr(st0, re_) == 1
    sb = child(rs, ("vfield", "Some", 0), "usize", ".Some.0").t
    eb = child(re_, ("vfield", "Some", 0), "usize", ".Some.0").t
    ns, ne = z3.BitVec("bytes_start_position", 64), z3.BitVec("bytes_end_position", 64)
    hs, he = z3.Bool("has_start_position"), z3.Bool("has_end_position")
    skip = z3.Or(disabled.t, M.any_line(ex, "stylua: ignore"))
    outside = z3.And(has_range, z3.Or(z3.And(has_s, hs, z3.ULT(ns, sb)), z3.And(has_e, he, z3.UGT(ne, eb))))
    want = z3.If(skip, z3.BitVecVal(T.index("FormatNode", "Skip"), 64),
                 z3.If(outside, z3.BitVecVal(T.index("FormatNode", "NotInRange"), 64), z3.BitVecVal(T.index("FormatNode", "Normal"), 64)))
    base = M.line_constraints() + [z3.ULE(ex.discr(st0, rng), z3.BitVecVal(1, 64)), z3.ULE(ex.discr(st0, rs), z3.BitVecVal(1, 64)),
                                   z3.ULE(ex.discr(st0, re_), z3.BitVecVal(1, 64))]
    for k in range(K_TOKENS):
        tok = Lazy(1000000 + k, "full_moon::tokenizer::Token", f"tok{k}", 0, {})
        tt = ex.lazy_tab.get((tok.oid, ("get", "token_type")))
        if tt is not None:
            base.append(z3.ULT(ex.discr(st0, tt), z3.BitVecVal(len(T.variants("TokenType")), 64)))
    n = 0
    for pi, o in enumerate(outs):
        if o.kind == "loopbound":
            continue
        if o.kind != "return":
            raise Inconclusive(f"should_format_node path ended with {o.kind}")
        n += 1
        got = ex.discr(o.state, o.value)
        r, m = ses.obligation(f"should_format_node/path{pi}/result=oracle", base + list(o.pc), got != want,
                              "Skip if disabled or an exact `stylua: ignore` line; NotInRange iff start<range.start or end>range.end; else Normal")
        if r == "sat":
            ev = lambda t: m.eval(t, model_completion=True)
            info = {"got": T.name("FormatNode", ev(got).as_long()), "want": T.name("FormatNode", ev(want).as_long()),
                    "disabled": str(ev(disabled.t)), "has_range": str(ev(has_range)),
                    "start_bound": str(ev(sb)) if z3.is_true(ev(has_s)) else None, "end_bound": str(ev(eb)) if z3.is_true(ev(has_e)) else None,
                    "node_start": str(ev(ns)), "node_end": str(ev(ne)),
                    "lines": [[LINES[ev(z3.Int(f"lc{k}_{j}")).as_long()] for j in range(min(K_LINES, ev(z3.Int(f"nlines{k}")).as_long()))]
                              for k in range(min(K_TOKENS, ev(z3.Int("ntok")).as_long()))]}
            kind = "range" if "NotInRange" in (info["got"], info["want"]) else "ignore"
            if info["want"] == "Skip" and info["got"] == "NotInRange":
                kind = "ignored-in-range"       # an ignored node treated as merely out of range: its nested blocks are descended into (C08 and C09)
            flagged.append((f"should_format_node/path{pi}/result=oracle", f"should_format_node returns {info['got']}, expected {info['want']}", kind, info))
    rep.bounds["should_format_node_paths"] = n
    rep.bounds["comment_tokens"], rep.bounds["lines_per_comment"] = K_TOKENS, K_LINES
    return flagged


def analyse_toggle(M, ses, rep):
    """B: check_toggle_formatting: the returned context differs from self only in formatting_disabled = fold(lines)"""
    flagged = []
    KL = 3
    ex = M.new_executor()
    fn = ses.need(ex, "context::Context::check_toggle_formatting")
    ctx = ex.fresh_lazy("context::Context", "ctx")
    node = ex.fresh_lazy("impl Node", "node")

    def hook(ex_, st, callee, args, dty):
        c = canon(callee)
        if re.search(r"as Iterator>::(filter_map|flatten)$", c) or re.fullmatch(r"core::slice::<impl \[&Token\]>::iter", c) or \
                re.fullmatch(r"<Vec<&Token> as Deref>::deref", c):
            return Lazy(next(ex_.oid_counter), dty, "lineiter", 0, {"lineiter": True})
        if re.search(r"as IntoIterator>::into_iter$", c) and isinstance(args[0], Lazy) and args[0].tags.get("lineiter"):
            return args[0]
        if re.search(r"as Iterator>::next$", c):
            it = deref_val(ex_, st, args[0])
            if isinstance(it, Lazy) and it.tags.get("lineiter"):
                j = st.aux.get("tl", 0)
                st.aux["tl"] = j + 1
                if j >= KL:
                    return opt_none(dty)
                line = Lazy(next(ex_.oid_counter), "str", f"line0_{j}", 0, {"line": ("t", j), "trimmed": True})
                return [(z3.Int("tlines") > j, opt_some(dty, RefV(line))), (z3.Int("tlines") <= j, opt_none(dty))]
        return NotImplemented
    ex.hooks = [hook] + ex.hooks
    ex.max_block_visits = VISITS
    outs = ex.run(fn, [RefV(ctx), RefV(node)])
    T = ex.enums
    fi = T.field_index("Context", "formatting_disabled")
    inc = ex.lazy_tab.get((ctx.oid, ("field", fi)))
    if inc is None:
        raise Inconclusive("check_toggle_formatting does not read the incoming flag")
    want = inc.t
    for j in range(KL):
        lc = z3.Int(f"lct_{j}")
        want = z3.If(z3.Int("tlines") > j, z3.If(lc == LINES.index("stylua: ignore start"), z3.BoolVal(True),
                                                  z3.If(lc == LINES.index("stylua: ignore end"), z3.BoolVal(False), want)), want)
    base = [z3.Int("tlines") >= 0, z3.Int("tlines") <= KL] + [z3.Or([z3.Int(f"lct_{j}") == i for i in DOMAIN]) for j in range(KL)]
    for pi, o in enumerate(outs):
        if o.kind == "loopbound":
            continue
        if o.kind != "return":
            raise Inconclusive(f"check_toggle_formatting path ended with {o.kind}")
        v = o.value
        if not isinstance(v, Agg) or len(v.fields) <= fi:
            raise Inconclusive(f"check_toggle_formatting returns {v!r}")
        got = v.fields[fi]
        r, m = ses.obligation(f"check_toggle_formatting/path{pi}/flag=fold", base + list(o.pc), got.t != want,
                              "flag = last start/end directive among the comment lines, else the incoming flag")
        if r == "sat":
            ev = lambda t: m.eval(t, model_completion=True)
            info = {"lines": [LINES[ev(z3.Int(f"lct_{j}")).as_long()] for j in range(ev(z3.Int("tlines")).as_long())], "incoming": str(ev(inc.t)),
                    "got": str(ev(got.t)), "want": str(ev(want))}
            flagged.append((f"check_toggle_formatting/path{pi}/flag=fold", f"toggle state {info}", "toggle", info))
        for i_, f_ in enumerate(v.fields):
            if i_ == fi:
                continue
            same = isinstance(f_, Lazy) and ex.parent.get(f_.oid, (None,))[0] == ctx.oid
            r, m = ses.obligation(f"check_toggle_formatting/path{pi}/field{i_}-unchanged", list(o.pc), z3.BoolVal(not same), "config/range copied from self")
            if r == "sat":
                flagged.append((f"check_toggle_formatting/path{pi}/field{i_}-unchanged", "check_toggle_formatting changes another context field", "toggle", {}))
    # the filter_map closure: comments (and only comments) contribute lines
    cl = [f for n_, l in ex.funcs.items() for f in l if re.search(r"check_toggle_formatting::\{closure#0\}$", n_)]
    for f in cl[:1]:
        ex2 = M.new_executor()
        tokv = Lazy(next(ex2.oid_counter), "full_moon::tokenizer::Token", "tok", 0, {})
        env = ex2.fresh_lazy("closure", "env")
        for pi, o in enumerate(ex2.run(f, [RefV(env), RefV(RefV(tokv))])):
            if o.kind != "return":
                continue
            tts = [v_ for (oid, key), v_ in ex2.lazy_tab.items() if key == ("discr",) and "token_type" in str(v_)]
            v = o.value
            is_some = isinstance(v, Agg) and v.variant == "Some"
            if not tts:
                continue
            d = tts[0]
            comment = z3.Or(d == z3.BitVecVal(T.index("TokenType", "SingleLineComment"), 64), d == z3.BitVecVal(T.index("TokenType", "MultiLineComment"), 64))
            r, m = ses.obligation(f"check_toggle_formatting/closure/path{pi}/comments-only", list(o.pc) + [z3.ULT(d, z3.BitVecVal(len(T.variants("TokenType")), 64))],
                                  z3.BoolVal(is_some) != comment, "lines are taken from comment tokens and only from them")
            if r == "sat":
                flagged.append((f"check_toggle_formatting/closure/path{pi}/comments-only", "directive lines are read from the wrong kind of trivia", "toggle", {}))
    return flagged


def same_obj(a, b):
    return a is b or (isinstance(a, Lazy) and isinstance(b, Lazy) and a.oid == b.oid)


def analyse_format_block(M, ses, rep):
    """C: one loop iteration + the last-statement tail. A statement that is Skip/NotInRange is pushed unchanged with its semicolon."""
    flagged = []
    ex = M.new_executor(extra_hooks=[M.hook_sfn])
    fn = ses.need(ex, "format_block")
    item = ex.fresh_lazy("(Stmt, Option<TokenReference>)", "item")
    last_item = ex.fresh_lazy("(LastStmt, Option<TokenReference>)", "last_item")

    def hook(ex_, st, callee, args, dty):
        c = canon(callee)
        if re.fullmatch(r"<Peekable<.*> as Iterator>::next", c) or re.fullmatch(r"<std::slice::Iter<'_, \(Stmt, .*\)> as Iterator>::next", c):
            k = st.aux.get("it", 0)
            st.aux["it"] = k + 1
            return opt_some(dty, RefV(item)) if k == 0 else opt_none(dty)
        if c.endswith("Block::last_stmt_with_semicolon"):
            return [(z3.Bool("has_last"), opt_some(dty, RefV(last_item))), (z3.Not(z3.Bool("has_last")), opt_none(dty))]
        if c.endswith("Option::cloned") or c.endswith("Option::copied"):
            v = deref_val(ex_, st, args[0])
            if isinstance(v, Agg) and v.variant == "Some":
                return opt_some(dty, deref_val(ex_, st, v.fields[0]))
            if isinstance(v, Agg) and v.variant == "None":
                return opt_none(dty)
            if isinstance(v, Lazy):
                return Lazy(v.oid, dty, v.label, v.depth, dict(v.tags, cloned=True))
        return NotImplemented
    ex.hooks = [hook] + ex.hooks
    ex.max_block_visits = 3
    ex.max_paths = 20000
    args = [RefV(ex.fresh_lazy(t.lstrip("&"), p)) if t.startswith("&") else ex.fresh_lazy(t, p) for p, t in fn.params]
    outs = ex.run(fn, args)
    T = ex.enums
    normal = z3.BitVecVal(T.index("FormatNode", "Normal"), 64)
    semi_in = None
    n = 0
    for pi, o in enumerate(outs):
        if o.kind != "return":
            continue
        st = o.state
        tog = find_calls(o.trace, lambda x: x.endswith("check_toggle_formatting"))
        fmt = find_calls(o.trace, lambda x: x.split("::")[-1] == "format_stmt")
        pushes = find_calls(o.trace, lambda x: re.search(r"Vec::push$", x) is not None)
        if fmt and tog:
            n += 1
            ctxv, X = tog[0][2], fmt[0][2]
            orig = ex.lazy_child(st, item, ("field", 0), "Stmt", ".0")
            d = ex.discr(st, M.sfn(ex, ctxv, orig))          # the verdict on the ORIGINAL statement (it has the positions)
            ok = z3.BoolVal(False)
            what = "statement not pushed"
            semi_src = ex.lazy_tab.get((item.oid, ("field", 1)))
            same_semi = z3.BoolVal(False)
            if pushes:
                tup = deref_val(ex, st, pushes[0][1][1])
                if isinstance(tup, Agg) and len(tup.fields) == 2:
                    s_out, semi_out = deref_val(ex, st, tup.fields[0]), deref_val(ex, st, tup.fields[1])
                    same_stmt = isinstance(s_out, Lazy) and s_out.oid == X.oid
                    same_semi = same_option(ex, st, semi_out, semi_src)
                    ok = z3.And(z3.BoolVal(same_stmt), same_semi)
                    what = ("statement rebuilt" if not same_stmt else "") + (" semicolon changed/dropped" if not z3.is_true(z3.simplify(same_semi)) else "")
            pc = list(o.pc) + [z3.ULT(d, z3.BitVecVal(3, 64))]
            if ses.reachable(pc + [d != normal]):
                r, m = ses.obligation(f"format_block/stmt/path{pi}/untouched-when-not-normal", pc + [d != normal], z3.Not(ok),
                                      "Skip/NotInRange (judged on the original statement) => pushed as returned by format_stmt, with its own semicolon")
                if r == "sat":
                    which = T.name("FormatNode", m.eval(d, model_completion=True).as_long())
                    flagged.append((f"format_block/stmt/path{pi}/untouched-when-not-normal", f"{which} statement: {what.strip()}", "both",
                                    {"which": which, "what": what.strip()}))
            # the converse: a Normal statement goes through the semicolon handling (its old `;` token is never kept as it was)
            if semi_src is not None:
                had = ex.discr(st, semi_src) == 1
                pcn = pc + [d == normal, had]
                if ses.reachable(pcn):
                    r, m = ses.obligation(f"format_block/stmt/path{pi}/normal-statement-is-post-processed", pcn, same_semi,
                                          "Normal statement with a `;`: the semicolon is removed or re-created, not copied with its old trivia")
                    if r == "sat":
                        flagged.append((f"format_block/stmt/path{pi}/normal-statement-is-post-processed",
                                        "a statement that should be formatted is treated as ignored / out of range by format_block", "both",
                                        {"which": "Normal", "what": "post-processing skipped"}))
        # the ignore state is threaded: every statement is toggled on the context its predecessor left, and is formatted under ITS toggled context
        lfmt = find_calls(o.trace, lambda x: x.split("::")[-1] == "format_last_stmt")
        chain_ok, why = True, ""
        prev = None
        snapped = lambda pred: [(t[1], (t[4] if len(t) > 4 else t[2]), t[3]) for t in o.trace if t[0] == "havoc" and pred(t[1])]     # arguments AT CALL TIME
        togs = snapped(lambda x: x.endswith("check_toggle_formatting"))
        for i_, tg in enumerate(togs):
            self_ctx = deref_val(ex, st, tg[1][0])
            if prev is not None and not same_obj(self_ctx, prev):
                chain_ok, why = False, f"check_toggle_formatting #{i_} does not start from the context the previous statement left"
            prev = tg[2]
        for label in ("format_stmt", "format_last_stmt"):
            for c_ in snapped(lambda x, label=label: x.split("::")[-1] == label):
                cx = deref_val(ex, st, c_[1][0])
                node_ = deref_val(ex, st, c_[1][1])
                mine = [tg for tg in togs if same_obj(deref_val(ex, st, tg[1][1]), node_)]
                if not mine or not same_obj(cx, mine[-1][2]):
                    chain_ok, why = False, f"{label} does not receive the context toggled by its own statement's comments"
        if tog and (fmt or lfmt):
            r, m = ses.obligation(f"format_block/path{pi}/ignore-state-is-threaded", list(o.pc), z3.BoolVal(not chain_ok),
                                  "ctx = ctx.check_toggle_formatting(stmt) before each statement, and that ctx formats it")
            if r == "sat":
                flagged.append((f"format_block/path{pi}/ignore-state-is-threaded", why, "toggle", {"last": bool(lfmt) and "last" in why, "what": why}))
        # last statement
        wl = find_calls(o.trace, lambda x: x.endswith("Block::with_last_stmt"))
        if lfmt and len(tog) >= 1 and wl:
            ctxl = tog[-1][2]
            XL = lfmt[0][2]
            d = ex.discr(st, M.sfn(ex, ctxl, ex.lazy_child(st, last_item, ("field", 0), "LastStmt", ".0")))
            arg = deref_val(ex, st, wl[0][1][1])
            ok, what = False, "last statement not returned"
            if isinstance(arg, Agg) and arg.variant == "Some":
                tup = deref_val(ex, st, arg.fields[0])
                if isinstance(tup, Agg) and len(tup.fields) == 2:
                    s_out, semi_out = deref_val(ex, st, tup.fields[0]), deref_val(ex, st, tup.fields[1])
                    same_stmt = isinstance(s_out, Lazy) and s_out.oid == XL.oid
                    semi_src = ex.lazy_tab.get((last_item.oid, ("field", 1)))
                    same_semi = same_option(ex, st, semi_out, semi_src)
                    pc = list(o.pc) + [z3.ULT(d, z3.BitVecVal(3, 64)), d != normal]
                    if ses.reachable(pc):
                        r, m = ses.obligation(f"format_block/last/path{pi}/untouched-when-not-normal", pc, z3.Not(z3.And(z3.BoolVal(same_stmt), same_semi)),
                                              "Skip/NotInRange last statement returned as is, with its own semicolon")
                        if r == "sat":
                            which = T.name("FormatNode", m.eval(d, model_completion=True).as_long())
                            flagged.append((f"format_block/last/path{pi}/untouched-when-not-normal", f"{which} last statement is rebuilt / loses its semicolon",
                                            "both", {"which": which, "last": True}))
    rep.bounds["format_block_paths_with_a_statement"] = n
    if n == 0:
        raise Inconclusive("format_block: no path formats a statement (loop not recognised)")
    return flagged


def analyse_field_sites(M, ses, rep, fs="default"):
    """F: every place that formats the children of a table Field (functions and closures that take a Field and return one) first asks
    should_format_node(field) and formats nothing when the answer is Skip - also on the range-only visitor (stmt_block)."""
    flagged = []
    funcs = ses.mir("lib", fs)
    n = 0
    for name, l in sorted(funcs.items()):
        for f in l:
            fi = [i for i, (p, t) in enumerate(f.params) if re.search(r"(^|[&: ])Field$", t.strip())]
            if len(fi) != 1 or not f.ret or "Field" not in f.ret:
                continue
            fmt_calls = [s_ for sts in f.blocks.values() for s_ in sts if s_[0] == "call" and canon(s_[2]).split("::")[-1].startswith(("format_", "hang_"))]
            if not fmt_calls:
                continue
            ex = ses.executor("lib", fs, inline=lambda n_, fn: False)
            ex.max_block_visits = 2
            T = ex.enums
            skip = z3.BitVecVal(T.index("FormatNode", "Skip"), 64)
            rep.fn(f)
            n += 1
            mk = lambda g: [RefV(ex.fresh_lazy(t.lstrip("&").replace("mut ", "", 1).strip(), p)) if t.startswith("&") else ex.fresh_lazy(t, p) for p, t in g.params]
            own_test = any(s_[0] == "call" and canon(s_[2]).split("::")[-1] == "should_format_node" for sts in f.blocks.values() for s_ in sts)
            if "{closure" in f.name and not own_test:
                # a closure that receives the field from its parent: the test may sit in the parent, in front of the use of the closure
                from .props import c02
                cid = re.search(r"\{closure@[^}]*\}", f.params[0][1]).group(0)
                parent = [g for g in funcs.get(f.name.rsplit("::{closure", 1)[0], [])]
                if len(parent) != 1:
                    raise Inconclusive(f"{f.name}: parent not found")
                g = parent[0]
                outs = ex.run(g, mk(g))
                used = 0
                for pi, o in enumerate(outs):
                    if o.kind != "return":
                        continue
                    P = c02.Prov(ex, o)
                    uses = [t for t in o.trace if t[0] == "havoc" and isinstance(t[3], Lazy) and cid in ex.havoc_raw.get(t[3].oid, "")]
                    if not uses:
                        continue
                    used += 1
                    src = P.of((uses[0][4] if len(uses[0]) > 4 else uses[0][2])[0])
                    asks = [t for t in o.trace if t[0] == "havoc" and t[1].split("::")[-1] == "should_format_node"
                            and (P.of((t[4] if len(t) > 4 else t[2])[1]) & src)]
                    bad = z3.BoolVal(True) if not asks else ex.discr(o.state, asks[0][3]) == skip
                    oid = f"field-sites/{fs}/{f.name}/parent-path{pi}/used-only-if-not-Skip"
                    r, m = ses.obligation(oid, list(o.pc), bad, "the closure that formats a field's children is applied only after should_format_node(field) != Skip")
                    if r == "sat":
                        flagged.append((oid, f"{f.name} formats the children of a table field and is applied without asking should_format_node(field): an ignored "
                                             "field is rewritten", "field", {"function": f.name}))
                if not used:
                    raise Inconclusive(f"{f.name}: its use in {g.name} was not recognised")
                continue
            args = mk(f)
            field = args[fi[0]].v if isinstance(args[fi[0]], RefV) else args[fi[0]]
            outs = ex.run(f, args)
            for pi, o in enumerate(outs):
                if o.kind != "return":
                    continue
                fm = [t for t in o.trace if t[0] == "havoc" and t[1].split("::")[-1].startswith(("format_", "hang_"))]
                if not fm:
                    continue
                asks = [t for t in o.trace if t[0] == "havoc" and t[1].split("::")[-1] == "should_format_node"
                        and same_obj(deref_val(ex, o.state, (t[4] if len(t) > 4 else t[2])[1]), field)]
                bad = z3.BoolVal(True) if not asks else ex.discr(o.state, asks[0][3]) == skip
                oid = f"field-sites/{fs}/{f.name}/path{pi}/children-formatted-only-if-not-Skip"
                r, m = ses.obligation(oid, list(o.pc), bad, "a field's children are formatted only after should_format_node(field) != Skip")
                if r == "sat":
                    flagged.append((oid, f"{f.name} formats the children of a table field without asking should_format_node(field): an ignored field is "
                                         "rewritten", "field", {"function": f.name}))
    rep.bounds["field_sites"] = n
    if n < 2:
        raise Inconclusive(f"field sites: only {n} functions that format a Field's children found")
    return flagged


def analyse_skip_arms(M, ses, rep):
    """D: format_stmt, format_last_stmt, format_eof: when should_format_node is Skip the node is returned unchanged; for
    NotInRange the statement goes to the block-only visitor (format_stmt_block) and the eof token is returned unchanged."""
    flagged = []
    T = None
    for fname, visitor in (("format_stmt", "format_stmt_block"), ("format_last_stmt", "format_last_stmt_block"), ("format_eof", None)):
        ex = M.new_executor(extra_hooks=[M.hook_sfn])
        T = ex.enums
        fn = ses.need(ex, fname)
        args = [RefV(ex.fresh_lazy(t.lstrip("&"), p)) if t.startswith("&") else ex.fresh_lazy(t, p) for p, t in fn.params]
        node = args[1].v if isinstance(args[1], RefV) else args[1]
        ex.max_block_visits = 3
        ex.max_paths = 30000
        outs = ex.run(fn, args)
        ctxv = args[0].v
        d = ex.discr(None, M.sfn(ex, ctxv, node))
        skip, nir = z3.BitVecVal(T.index("FormatNode", "Skip"), 64), z3.BitVecVal(T.index("FormatNode", "NotInRange"), 64)
        seen = 0
        for pi, o in enumerate(outs):
            if o.kind != "return":
                continue
            v = deref_val(ex, o.state, o.value)
            same = isinstance(v, Lazy) and v.oid == node.oid
            pc = list(o.pc)
            if ses.reachable(pc + [d == skip]):
                seen += 1
                r, m = ses.obligation(f"{fname}/path{pi}/skip-returns-input", pc + [d == skip], z3.BoolVal(not same), "Skip => the node itself")
                if r == "sat":
                    flagged.append((f"{fname}/path{pi}/skip-returns-input", f"{fname} rebuilds a skipped node", "ignore", {"fn": fname}))
            if ses.reachable(pc + [d == nir]):
                via = find_calls(o.trace, lambda x: visitor is not None and x.split("::")[-1] == visitor)
                good = same or (bool(via) and isinstance(v, Lazy) and v.oid == via[-1][2].oid)
                r, m = ses.obligation(f"{fname}/path{pi}/out-of-range-only-visits-blocks", pc + [d == nir], z3.BoolVal(not good),
                                      "NotInRange => unchanged, or handed to the block-only visitor")
                if r == "sat":
                    flagged.append((f"{fname}/path{pi}/out-of-range-only-visits-blocks", f"{fname} formats an out-of-range node", "range", {"fn": fname}))
        if seen == 0:
            raise Inconclusive(f"{fname}: no path consults should_format_node")
    return flagged


def analyse_format_code_output(M, ses, rep):
    """lib.rs::format_code: the text it returns is the printed AST and nothing else - on every Ok path the payload is the very String
    `Ast::to_string` produced (no byte is appended, trimmed or replaced afterwards: text outside a range / inside an ignore region is
    only safe because the printer reproduces untouched nodes verbatim), printed exactly once, from the AST format_ast returned."""
    import z3
    from .mirsym import Agg, Lazy
    from .summaries import deref_val
    from .session import find_calls
    flagged = []
    ex = ses.executor("lib", "default", inline=lambda n, f: False)
    fn = ses.need(ex, "format_code")
    args = [ex.fresh_lazy(t, p + ":" + t) for p, t in fn.params]
    outs = [o for o in ex.run(fn, args) if o.kind == "return"]
    n_ok = 0
    for pi, o in enumerate(outs):
        v = o.value
        if not (isinstance(v, Agg) and v.variant == "Ok"):
            continue
        n_ok += 1
        payload = deref_val(ex, o.state, v.fields[0]) if v.fields else None
        prints = find_calls(o.trace, lambda n: n.split("::")[-1] in ("to_string", "print") and ("Ast" in n or "ToString" in n))
        strings = [c for c in o.trace if c[0] in ("havoc", "effect") and c[3] is not None and c[3] is payload]
        ok = len(prints) == 1 and prints[0][2] is payload
        # any other call that was handed the string mutably / by value after it was printed
        later = []
        if ok:
            idx = next(i for i, c in enumerate(o.trace) if c[0] in ("havoc", "effect") and c[3] is payload)
            for c in o.trace[idx + 1:]:
                if c[0] in ("havoc", "effect") and any((a is payload) or (deref_val(ex, o.state, a) is payload) for a in (c[2] or []) if a is not None):
                    nm = c[1].split("::")[-1]
                    if nm not in ("drop", "drop_in_place", "clone", "len", "is_empty", "as_str", "deref"):
                        later.append(c[1])
        r, m = ses.obligation(f"format_code/path{pi}/ok-payload-is-the-printed-ast", list(o.pc), z3.BoolVal(not ok or bool(later)),
                              "Ok(text): text is the result of the one Ast::to_string call, untouched afterwards")
        if r == "sat":
            flagged.append((f"format_code/path{pi}/ok-payload-is-the-printed-ast", "format_code post-processes the printed text (or prints something else than "
                            "the formatted AST): " + (", ".join(later) or f"{len(prints)} print calls, payload not the printed string"), "output", {}))
    if not n_ok:
        raise Inconclusive("format_code has no Ok path")
    return flagged


SHAPE_METHODS = ("reset", "increment_block_indent", "increment_additional_indent", "indent", "with_indent", "add_width", "with_additional_indent", "add_indent_level")


def analyse_visitor_shapes(M, ses, rep, fs="default"):
    """the block-only visitors of range formatting (format_stmt_block, format_last_stmt_block): a statement that is not wholly inside the range
    is walked for the blocks nested in its expressions, and those blocks must be formatted at the indentation whole-file formatting gives
    them - one block level below the statement, at column 0. With Shape's own methods executed (Shape / Indent as integer structs): every
    callee that is handed a Shape - directly or inside a closure it is given - receives block_indent = the statement's + 1 and offset 0;
    a closure that captures the statement's own shape must do that increment itself before it calls format_expression_block."""
    import z3
    from .mirsym import Agg, Lazy, RefV, Sym
    flagged = []
    funcs = ses.mir("lib", fs)
    inl = lambda n, g: canon(n).split("::")[-1] in SHAPE_METHODS and g.params and re.search(r"(Shape|Indent)$", g.params[0][1].strip().lstrip("&"))
    LIM = z3.BitVecVal(2 ** 32, 64)

    def shape_terms(ex, st, v):
        """-> (block_indent term, offset term) of a Shape value, or None"""
        v = deref_val(ex, st, v)
        if isinstance(v, Agg) and re.search(r"(^|::)Shape$", str(v.ty)) and len(v.fields) >= 2:
            ind = deref_val(ex, st, v.fields[0])
            o_ = deref_val(ex, st, v.fields[1])
            if isinstance(ind, Agg) and len(ind.fields) >= 2:
                b = deref_val(ex, st, ind.fields[1])
                if isinstance(b, Sym) and isinstance(o_, Sym):
                    return b.t, o_.t
            if isinstance(ind, Lazy) and isinstance(o_, Sym):        # the indent is carried over unchanged from a symbolic shape
                bi = ex.enums.field_index("Indent", "block_indent")
                b = ex.lazy_child(st, ind, ("field", bi), "usize", ".block_indent")
                return b.t, o_.t
        return None

    def lazy_shape_terms(ex, st, lz):
        T = ex.enums
        ii, oi = T.field_index("Shape", "indent"), T.field_index("Shape", "offset")
        bi = T.field_index("Indent", "block_indent")
        if None in (ii, oi, bi):
            raise Inconclusive("Shape / Indent layout not found")
        ind = ex.lazy_child(st, lz, ("field", ii), "Indent", ".indent")
        b = ex.lazy_child(st, ind, ("field", bi), "usize", ".block_indent")
        o_ = ex.lazy_child(st, lz, ("field", oi), "usize", ".offset")
        return b.t, o_.t
    n = 0
    for fname in ("format_stmt_block", "format_last_stmt_block"):
        ex = ses.executor("lib", fs, inline=inl, max_depth=3)
        ex.max_block_visits = 2
        fn = ses.need(ex, fname)
        args = [RefV(ex.fresh_lazy(t.lstrip("&").strip(), p)) if t.startswith("&") else ex.fresh_lazy(t, p) for p, t in fn.params]
        si = [i for i, (p, t) in enumerate(fn.params) if re.search(r"(^|::)Shape$", t.strip())]
        if len(si) != 1:
            raise Inconclusive(f"{fname}: no Shape parameter")
        shape0 = args[si[0]]
        captured_param = False
        for pi, o in enumerate(ex.run(fn, args)):
            if o.kind != "return":
                continue
            pb, po = lazy_shape_terms(ex, o.state, shape0)
            for ci, t in enumerate(o.trace):
                if t[0] not in ("havoc", "effect"):
                    continue
                callee = t[1].split("::")[-1]
                snap = t[4] if len(t) > 4 else t[2]
                for a in (snap or []):
                    v = deref_val(ex, o.state, a)
                    cands = [("direct", v)]
                    if isinstance(v, Agg) and "closure" in str(v.ty):
                        cands = [("captured", deref_val(ex, o.state, x)) for x in v.fields]
                    for how, x in cands:
                        if x is shape0:
                            if how == "captured":
                                captured_param = True      # (the closure has to increment: checked on the closure below)
                                continue
                            terms = (pb, po)
                        else:
                            terms = shape_terms(ex, o.state, x)
                        if terms is None:
                            continue
                        n += 1
                        b, off = terms
                        oid = f"visitor-shape/{fname}/path{pi}/call{ci}-{callee}/one-level-below-the-statement"
                        r, m = ses.obligation(oid, list(o.pc) + [z3.ULT(pb, LIM)], z3.Or(b != pb + 1, off != 0),
                                              "Shape handed on = statement's block_indent + 1, offset 0")
                        if r == "sat":
                            flagged.append((oid, f"{fname} hands {callee} a shape that is not one block level below the statement at column 0: nested blocks of an "
                                            "out-of-range statement come out at another indentation than whole-file formatting gives them", "visitor-shape", {"function": fname}))
        if captured_param:
            cls = [f for nm, l in funcs.items() for f in l if nm.startswith(fname + "::{closure") and
                   any(s_[0] == "call" and canon(s_[2]).split("::")[-1].endswith("_block") for sts in f.blocks.values() for s_ in sts)]
            for f in cls:
                ex2 = ses.executor("lib", fs, inline=inl, max_depth=3)
                a2 = [RefV(ex2.fresh_lazy(t.lstrip("&").replace("mut ", "").strip(), p)) if t.startswith("&") else ex2.fresh_lazy(t, p) for p, t in f.params]
                env = a2[0].v if isinstance(a2[0], RefV) else a2[0]
                for pi, o in enumerate(ex2.run(f, a2)):
                    if o.kind != "return":
                        continue
                    # the Shape the closure captured: the (only) Shape-typed child of its environment that the path read
                    caps = [ch for (po_, key), ch in ex2.lazy_tab.items() if isinstance(ch, Lazy) and re.search(r"(^|::)Shape$", ch.ty.strip().lstrip("&"))]
                    for c in find_calls(o.trace, lambda x: x.split("::")[-1].endswith("_block")):
                        for a in c[1]:
                            terms = shape_terms(ex2, o.state, a)
                            v = deref_val(ex2, o.state, a)
                            if terms is None and isinstance(v, Lazy) and re.search(r"(^|::)Shape$", v.ty.strip()):
                                terms = lazy_shape_terms(ex2, o.state, v)
                                caps = [x for x in caps if x is not v] + [v]
                            if terms is None or not caps:
                                continue
                            n += 1
                            # the captured shape the handed-on shape was computed from: the candidate whose block_indent occurs in the term
                            base_ = None
                            for cnd in caps:
                                if re.search(r"(^|::)Shape$", cnd.ty.strip()):
                                    cb_, co_ = lazy_shape_terms(ex2, o.state, cnd)
                                    if str(cb_) in str(terms[0]):
                                        base_ = (cb_, co_)
                            if base_ is None:
                                flagged.append((f"visitor-shape/{f.name}/path{pi}/derived-from-the-captured-shape", f"{f.name}: the shape handed on is not computed from the captured one",
                                                "visitor-shape", {"function": fname}))
                                continue
                            cb, co = base_
                            oid = f"visitor-shape/{f.name}/path{pi}/one-level-below-the-captured-shape"
                            r, m = ses.obligation(oid, list(o.pc) + [z3.ULT(cb, LIM)], z3.Or(terms[0] != cb + 1, terms[1] != 0),
                                                  "closure over the statement's shape: increments the block level and resets the offset itself")
                            if r == "sat":
                                flagged.append((oid, f"{f.name} formats nested blocks at the statement's own level", "visitor-shape", {"function": fname}))
    if n == 0:
        raise Inconclusive("the range visitors hand no Shape to any callee")
    return flagged

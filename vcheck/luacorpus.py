"""Small Lua / Luau programs that together contain every statement, expression, suffix, field, operator and type node kind of
full_moon 1.2 for each syntax. Used ONLY to replay solver models on the native build (a model names a node kind and a configuration;
the corpus supplies a program that contains it). Never the deciding step of a check."""

LUA51 = {
    "unicode-comments": "-- NOTE \u521d\u59cb\u5316\u914d\u7f6e\u5e76\u52a0\u8f7d\u6240\u6709\u6a21\u5757\nlocal x = 1\n-- gr\u00f6\u00dfer als h\u00f6chste Eintr\u00e4ge\nlocal y = '\u00fc'\n"
                        "--[[ R\u00e9sum\u00e9 de l\u2019\u00e9l\u00e9ment renvoy\u00e9\n   \u00e0 la ligne ]]\nlocal t = {\n\t-- cl\u00e9 \u2192 valeur \u00e9tendue ici\n\tk = 1,\n}\nreturn x -- \u7d42\u308f\u308a\n",
    "empty-bodies": "if queue.paused then end\nif (DEBUG) then end\nwhile x do end\nlocal f = function() end\nfor i = 1, 2 do end\nrepeat until x\ndo end\n",
    "assign": "a = 1\na, b = b, a\na.b.c = 2\na[1] = 3\na['k'] = 4\n",
    "local": "local a\nlocal b, c = 1\nlocal d, e = f()\nlocal s = 'x' .. \"y\" .. [[z]] .. [==[w]==]\n",
    "calls": "f()\nf(1, 2)\nf 'x'\nf \"y\"\nf [[z]]\nf { 1, 2 }\nf({ 1 }, 'x')\nobj:m()\nobj:m 'x'\nobj:m { 1 }\nobj.a.b:c(1)(2)[3].d()\n(f or g)()\n(f)()\n",
    "do": "do\n\tlocal x = 1\nend\ndo end\n",
    "while": "while x < 10 do\n\tx = x + 1\nend\nwhile true do end\nwhile (x) do break end\n",
    "repeat": "repeat\n\tx = x + 1\nuntil x > 10\nrepeat until (x)\n",
    "if": "if a then\n\tb()\nend\nif a then b() elseif c then d() else e() end\nif (a) then return end\nif a then\n\treturn\nelse\n\tbreak\nend\n",
    "if-guard": "for i = 1, 2 do\n\tif a then break end\n\tif b then return end\n\tif c then f() end\n\tif d then x = 1 end\n\tif e then local y = 2 end\nend\n",
    "numeric-for": "for i = 1, 10 do\n\tprint(i)\nend\nfor i = 10, 1, -1 do end\n",
    "generic-for": "for k, v in pairs(t) do\n\tprint(k, v)\nend\nfor _, v in ipairs({ 1, 2 }) do end\nfor k in next, t do end\n",
    "function": "function f() end\nfunction a.b.c(x, y) return x end\nfunction a:m(...) return ... end\nlocal function g(a, b, ...)\n\treturn a, b, ...\nend\n",
    "return": "local function f()\n\treturn\nend\nlocal function g()\n\treturn 1, 2, f()\nend\nreturn a and b or c\n",
    "anonymous": "local f = function() end\nlocal g = function(a, ...) return a end\ncall(function() return 1 end)\ncall(a, function()\n\tprint(1)\nend, b)\n",
    "binops": "x = a + b - c * d / e % f ^ g .. h\nx = a == b or a ~= b and a < b or a <= b or a > b or a >= b\nx = (a + b) * c\nx = a ^ b ^ c\nx = (a ^ b) ^ c\nx = a .. b .. c\nx = (a .. b) .. c\nx = a - (b - c)\nx = a / (b * c)\n",
    "unops": "x = -a\nx = not a\nx = #a\nx = - -a\nx = -(-a)\nx = not not a\nx = (-a) ^ b\nx = -a ^ b\nx = (not a) == b\nx = #(a .. b)\n",
    "parens": "x = (a)\nx = ((a))\nx = (f())\nx = (...)\nx = (a).b\nx = (a)()\nx = ({}).x\nx = ('s'):rep(2)\nlocal y = (a and b)\nprint((f()))\nprint((...))\n",
    "tables": "t = {}\nt = { 1, 2, 3 }\nt = { a = 1, b = 2 }\nt = { [1] = 'a', ['k'] = 'b', [f()] = c }\nt = { 1, a = 2; 3 }\nt = { { 1, 2 }, { a = { b = {} } } }\nt = {\n\t1,\n\t2,\n}\nt = { [ [[k]] ] = 1 }\nt = { f = function() end, g = function(x) return x end }\n",
    "numbers": "x = 1\nx = 1.5\nx = .5\nx = 5.\nx = 1e10\nx = 1E-5\nx = 0xFF\nx = 0xff\nx = 3e+2\n",
    "strings": "x = 'a'\nx = \"b\"\nx = 'it\\'s'\nx = \"say \\\"hi\\\"\"\nx = '\\n\\t\\\\'\nx = \"\\65\\066\"\nx = [[long\nstring]]\nx = [=[a]]b]=]\nx = 'a\"b'\nx = \"a'b\"\n",
    "varargs": "local function f(...)\n\tlocal a, b = ...\n\treturn select('#', ...), { ... }\nend\n",
    "index": "x = a.b\nx = a[1]\nx = a['k']\nx = a[b][c].d\nx = a[ [[k]] ]\nx = a.b.c.d.e.f\nx = f().x\nx = f()[1]\n",
    "comments": "-- leading\nlocal a = 1 -- trailing\n--[[ block ]]\nlocal b = 2 --[[ inline ]]\n--[==[ level\n2 ]==]\nlocal c = { -- in table\n\t1, -- after item\n\t2,\n}\nf( -- in call\n\ta,\n\tb\n)\nlocal d = a -- after a\n\tor b\nif a then -- after then\n\tb()\nend -- after end\n",
    "semicolons": "local a = 1;\nf();\n(g)();\nlocal b = 2; local c = 3;\ndo local d = 4; end\nreturn a;\n",
    "long-lines": "local result = some_function_name(argument_number_one, argument_number_two, argument_number_three, argument_number_four)\nlocal value = first_operand_name + second_operand_name * third_operand_name - fourth_operand_name / fifth_operand_name .. sixth\nlocal t = { alpha_alpha_alpha = 1, beta_beta_beta = 2, gamma_gamma_gamma = 3, delta_delta_delta = 4, epsilon_epsilon = 5, zeta = 6 }\nif some_condition_name and another_condition_name or yet_another_condition_name and the_last_condition_name_in_the_list then\n\tf()\nend\nobject.field.another_field:method_name(argument):another_method(argument_two):third_method(argument_three):fourth(x)\nreturn first_value_returned_from_function, second_value_returned_from_function, third_value_returned_from_function_x\n",
    "requires": "local b = require('b')\nlocal a = require('a')\nlocal d = require(\"d\")\n\nlocal c = require('c')\nlocal s = game:GetService('S')\nlocal r = game:GetService('R')\nlocal x = 1\n",
    "nested-calls": "local x = call(call(call(call(call(a, function() return 1 end, b), { 1, 2 }, c), d), e), f)\n",
    "shebang": "#!/usr/bin/env lua\nprint('hi')\n",
    "empty": "",
    "only-comment": "-- nothing else\n",
    "crlf": "local a = 1\r\nlocal b = 2 -- c\r\n--[[ x\r\ny ]]\r\nlocal s = [[p\r\nq]]\r\n",
    "ignore": "-- stylua: ignore\nlocal   a   =   1\nlocal b = 2\n-- stylua: ignore start\nlocal   c   =   3\nlocal   d   =   4\n-- stylua: ignore end\nlocal   e   =   5\n",
}

LUA52 = {
    "goto": "goto done\ndo\n\tgoto continue\n\t::continue::\nend\n::done::\nfor i = 1, 3 do\n\tif i == 2 then goto next end\n\tprint(i)\n\t::next::\nend\n",
    "goto-function-body": "local f = function() goto done end\ncall(function() goto done end)\nfunction g() goto done end\n::done::\n",
    "goto-guard": "while true do\n\tif a then goto out end\nend\n::out::\n",
    "escapes": "x = '\\x41\\z\n   b'\nx = \"\\z  c\"\n",
}

LUA53 = {
    "bitops": "x = a & b | c ~ d << e >> f\nx = ~a\nx = a // b\nx = ~(~a)\nx = (a & b) | c\nx = a << (b >> c)\nx = ~a ~ ~b\n",
    "escapes": "x = '\\u{48}\\u{20AC}'\n",
    "ints": "x = 0x7fffffffffffffff\nx = 3 // 2\n",
}

LUA54 = {
    "attribs": "local a <const> = 1\nlocal b <close> = f()\nlocal c <const>, d <close> = 1, g()\n",
}

LUAJIT = {
    "numbers": "x = 1LL\nx = 2ULL\nx = 3i\nx = 0xffULL\nx = 1ll\n",
}

LUAU = {
    "types": "type A = number\ntype B<T> = { T }\ntype C = { a: number, b: string?, [string]: boolean }\nexport type D = A | B<number> | nil\ntype E = A & C\ntype F = (number, string) -> boolean\ntype G = (...number) -> ...string\ntype H<T...> = (T...) -> ()\ntype I = typeof(x)\ntype J = module.Type\ntype K = module.Generic<number>\ntype L = 'lit' | \"lit2\" | true | false\ntype M = { read a: number, write b: string }\ntype N = (a: number, b: string) -> (number, string)\ntype O = { number }\ntype P<T = number, U... = ...string> = { T }\ntype Q = ((number) -> number)?\ntype R = | A | B<string>\n",
    "annotations": "local a: number = 1\nlocal b: string?, c: { number } = 'x', {}\nlocal function f(x: number, y: string?, ...: boolean): (number, string)\n\treturn x, y\nend\nfunction g<T>(x: T): T\n\treturn x\nend\nfor i: number = 1, 2 do end\nfor k: string, v: number in pairs(t) do end\nlocal h = function(a: number): number return a end\n",
    "assertion": "local a = x :: number\nlocal b = (x :: any) :: string\nlocal c = -(x :: number)\nlocal d = (x :: number) + 1\nlocal e = { x :: number }\nf(x :: any)\n",
    "compound": "a += 1\na -= 1\na *= 2\na /= 2\na //= 2\na %= 2\na ^= 2\na ..= 's'\nt.x += 1\nt[i] -= 1\n",
    "compound-guard": "for i = 1, 2 do\n\tif a then x += 1 end\n\tif b then continue end\nend\n",
    "continue": "for i = 1, 10 do\n\tif i % 2 == 0 then\n\t\tcontinue\n\tend\n\tprint(i)\nend\nlocal continue = 1\ncontinue = 2\n",
    "ifexpr": "local a = if x then 1 else 2\nlocal b = if x then 1 elseif y then 2 else 3\nlocal c = (if x then f else g)()\nlocal d = if some_long_condition_name_here then some_long_value_name_number_one elseif another_condition then value_two else value_three\n",
    "interp": "local a = `hello {name}`\nlocal b = `a {1 + 2} b {f(x)} c`\nlocal c = `plain`\nlocal d = `{ {1} }`\nprint(`x = {x}`)\n",
    "typefunction": "type function F(t)\n\treturn t\nend\nexport type function G(a, b)\n\treturn a\nend\n",
    "attributes": "@native\nfunction f() end\n@checked\nlocal function g() end\n",
    "floor": "x = a // b\nx //= 2\n",
    "numbers": "x = 0b1010\nx = 1_000_000\nx = 0xFF_FF\n",
    "generics-call": "local x = f<<number>>(1)\n",
    "declare-like": "local t: { [number]: string } = {}\nlocal u: { x: number, y: number } = { x = 1, y = 2 }\nlocal cb: (number) -> () = function(n) end\nlocal opt: number? = nil\nlocal var: typeof(setmetatable({}, {})) = nil\n",
    "long-types": "type VeryLongUnionTypeName = 'option_number_one' | 'option_number_two' | 'option_number_three' | 'option_number_four' | 'option_five'\ntype Callback = (argument_number_one: number, argument_number_two: string, argument_number_three: boolean) -> (number, string)\nexport type Props = { property_number_one: number, property_number_two: string, property_number_three: boolean, four: nil }\n",
}

CONFIGS = [
    [],
    ["--collapse-simple-statement", "Always"],
    ["--collapse-simple-statement", "Always", "--column-width", "40"],
    ["--collapse-simple-statement", "ConditionalOnly"],
    ["--collapse-simple-statement", "FunctionOnly"],
    ["--column-width", "20"],
    ["--column-width", "1"],
    ["--column-width", "100000"],
    ["--indent-type", "Spaces", "--indent-width", "1"],
    ["--indent-type", "Spaces", "--indent-width", "16", "--column-width", "60"],
    ["--call-parentheses", "None"],
    ["--call-parentheses", "NoSingleString"],
    ["--call-parentheses", "NoSingleTable"],
    ["--call-parentheses", "Input"],
    ["--quote-style", "ForceSingle"],
    ["--quote-style", "AutoPreferSingle"],
    ["--sort-requires"],
    ["--line-endings", "Windows"],
    ["--space-after-function-names", "Always"],
    ["--space-after-function-names", "Definitions"],
    ["--range-start", "10", "--range-end", "60"],
    ["--range-start", "50"],
    ["--range-end", "0"],
    ["--range-start", "30", "--range-end", "5"],
    ["--range-start", "100000", "--range-end", "200000"],
    ["--verify"],
]


def programs(featureset="full"):
    """-> [(name, syntax flag value, source)]"""
    out = [("lua51/" + k, "Lua51", v) for k, v in LUA51.items()]
    if featureset == "full":
        out += [("lua52/" + k, "Lua52", v) for k, v in LUA52.items()]
        out += [("lua53/" + k, "Lua53", v) for k, v in LUA53.items()]
        out += [("lua54/" + k, "Lua54", v) for k, v in list(LUA54.items()) + list(LUA53.items()) + list(LUA52.items())]
        out += [("luajit/" + k, "LuaJIT", v) for k, v in LUAJIT.items()]
        out += [("luau/" + k, "Luau", v) for k, v in LUAU.items()]
        out += [("all/" + k, "All", v) for k, v in LUA51.items()]
    return out

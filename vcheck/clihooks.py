"""Summaries and helpers shared by the CLI-side properties (C13, C14, C17, C18, C19)."""
import re, z3

from .mirsym import Sym, Str, Agg, Lazy, Ref, RefV, UNIT
from .summaries import canon, enum_split, payload, deref_val

READ_ONLY_FS = {"read_to_string", "read", "metadata", "symlink_metadata", "canonicalize", "read_dir", "exists", "try_exists",
                "read_link", "open"}


def is_fs_mutation(name):
    """callee (canonical spelling) that may create/modify/delete/touch a file. Default-deny for std::fs / File / OpenOptions."""
    n = name
    m = re.search(r"(?:^|::)fs::(?:File::)?([a-z_]+)$", n) or re.search(r"(?:^|::)(?:File|OpenOptions)::([a-z_]+)$", n)
    if m:
        last = m.group(1)
        if "OpenOptions" in n:
            return last in ("write", "append", "truncate", "create", "create_new")
        return last not in READ_ONLY_FS
    if re.search(r"(?:^|::)(?:filetime|utime|set_file_times|set_modified|set_times|set_permissions|symlink)", n):
        return True
    return False


def context_passthrough(ex, st, callee, args, dty):
    """anyhow::Context::{context,with_context}: Ok(v) -> Ok(v), Err(e) -> Err(wrapped e)"""
    c = canon(callee)
    if re.fullmatch(r"<(?:std::result::)?Result<.*> as anyhow::Context<.*>>::(with_context|context)", c):
        v = args[0]
        out = []
        for cnd, nm in enum_split(ex, st, v, ["Ok", "Err"]):
            if nm == "Ok":
                out.append((cnd, Agg(dty, "Ok", [payload(ex, st, v, "Ok", 0)])))
            else:
                out.append((cnd, Agg(dty, "Err", [Agg("anyhow::context", None, [payload(ex, st, v, "Err", 0)])])))
        return out
    if re.fullmatch(r"(?:std::result::)?Result::map_err", c):
        v = args[0]
        out = []
        for cnd, nm in enum_split(ex, st, v, ["Ok", "Err"]):
            if nm == "Ok":
                out.append((cnd, Agg(dty, "Ok", [payload(ex, st, v, "Ok", 0)])))
            else:
                out.append((cnd, Agg(dty, "Err", [Agg("map_err", None, [payload(ex, st, v, "Err", 0)])])))
        return out
    return NotImplemented


def quiet_logging(ex, st, callee, args, dty):
    """debug!/error! level tests: `Level <= STATIC_MAX_LEVEL` and `Level <= max_level()` are environment; one fresh Bool per
    call site is enough. log::__private_api::log is recorded as an effect with its level argument."""
    c = canon(callee)
    if c in ("log::__private_api::log", "log::__private_api::log_impl"):
        st.trace.append(("effect", "log", args, None))
        return UNIT
    return NotImplemented


def silence_logging(ex, st, callee, args, dty):
    """for analyses that are not about the exit status: every `log!` level test is false (logging has no effect on the result),
    which removes three paths per log site"""
    c = canon(callee)
    if re.fullmatch(r"<log::Level as PartialOrd<(log::)?LevelFilter>>::le", c):
        return Sym(z3.BoolVal(False), "bool")
    return NotImplemented


def atomic_hook(cells, fresh_loads=False):
    """model Atomic<T> statics as store cells. `cells` maps the static's type string (e.g. 'Atomic<i32>') to a name.
    fresh_loads: every read returns a fresh symbol (recorded in the event) - the value is fixed later by an interleaving
    encoding instead of by this thread's own earlier writes."""
    def h(ex, st, callee, args, dty):
        c = canon(callee)
        m = re.fullmatch(r"(?:std::sync::atomic::|core::sync::atomic::)?Atomic(?:I32|U32|Usize|Bool|<\w+>)?::(load|store|fetch_add|fetch_max|fetch_min|fetch_or|fetch_and|swap|compare_exchange|fetch_update|compare_exchange_weak|fetch_sub)", c)
        if not m:
            return NotImplemented
        op = m.group(1)
        cell = args[0]
        if not isinstance(cell, Ref) or cell.key[0] != "static":
            return NotImplemented
        name = None
        for k, v in cells.items():
            if k in cell.key[1]:
                name = v
        if name is None:
            return NotImplemented
        bits = 32
        ty = "i32" if "i32" in cell.key[1] else "u32"
        if "Atomic<" not in cell.key[1]:
            return NotImplemented
        cur = st.aux.get(("atomic", name))
        if cur is None:
            cur = z3.BitVec(f"{name}_init", bits)
            st.aux[("atomic", name)] = cur
            st.aux.setdefault("atomic_init", {})
        if fresh_loads and op != "store":
            cur = z3.BitVec(f"rd_{name}_{next(ex.oid_counter)}", bits)
        ev = None
        if op == "load":
            res = Sym(cur, ty)
            ev = ("load", name, cur)
        elif op == "store":
            st.aux[("atomic", name)] = args[1].t
            res = UNIT
            ev = ("store", name, args[1].t)
        elif op in ("fetch_add", "fetch_sub", "fetch_max", "fetch_min", "fetch_or", "fetch_and", "swap"):
            x = args[1].t
            sg = ty.startswith("i")
            new = {"fetch_add": cur + x, "fetch_sub": cur - x,
                   "fetch_max": z3.If((cur < x) if sg else z3.ULT(cur, x), x, cur),
                   "fetch_min": z3.If((cur < x) if sg else z3.ULT(cur, x), cur, x),
                   "fetch_or": cur | x, "fetch_and": cur & x, "swap": x}[op]
            st.aux[("atomic", name)] = new
            res = Sym(cur, ty)
            ev = ("rmw", name, op, x, cur, new)
        elif op in ("compare_exchange", "compare_exchange_weak"):
            exp, new = args[1].t, args[2].t
            ok = cur == exp
            st.aux[("atomic", name)] = z3.If(ok, new, cur)
            ev = ("rmw", name, "cas", exp, cur, z3.If(ok, new, cur))
            # Result<T,T>: fork
            st.trace.append(("atomic", ev))
            return [(ok, Agg(dty, "Ok", [Sym(cur, ty)])), (z3.Not(ok), Agg(dty, "Err", [Sym(cur, ty)]))]
        else:
            return NotImplemented
        st.trace.append(("atomic", ev))
        return res
    return h


BOUNDARY = {"format_file", "format_string", "format_code", "format_ast", "create_diff", "convert_parse_error_to_json", "load_configuration",
            "load_configuration_for_stdin", "path_is_stylua_ignored", "format", "main", "output_diff", "output_diff_unified", "output_diff_json"}


def inline_cli_helpers(name, fn):
    """inline small in-crate helpers (so that extracting a helper function does not blind an analysis), never the big boundary functions"""
    last = canon(name).split("::")[-1]
    return last not in BOUNDARY and "{closure" not in fn.name and len(fn.blocks) <= 60 and not fn.name.startswith(("opt::", "config::"))

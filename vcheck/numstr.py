"""z3 sequence-theory model of the number-literal handling: the tokenizer's number language per syntax (written from
full_moon 1.2 src/tokenizer/lexer.rs read_number / read_hex_number / read_binary_number / read_exponent_part /
read_luajit_number_suffix), the accept languages of Rust's str::parse::<f64> and i64::from_str_radix, and executor hooks that give the
str methods used around them their semantics over symbolic strings."""
import re, z3

from .mirsym import Agg, Lazy, Ref, RefV, Str, Sym
from .summaries import canon, deref_val


class SStr:
    """symbolic string value (z3 Seq term) flowing through the executor"""
    def __init__(self, t):
        self.t = t

    def __repr__(self):
        return f"SStr({self.t})"


def lit(s):
    return z3.Re(s)


def any_of(chars):
    return z3.Union(*[z3.Re(c) for c in chars]) if len(chars) > 1 else z3.Re(chars)


D = z3.Range("0", "9")
H = z3.Union(z3.Range("0", "9"), z3.Range("a", "f"), z3.Range("A", "F"))
SIGN = z3.Option(any_of("+-"))


def token_language(syntax, cleaned=False):
    """language of TokenType::Number texts produced by full_moon's lexer for one syntax"""
    luau = syntax in ("luau",)
    lua52 = syntax in ("lua52", "lua53", "lua54", "luajit")
    luajit = syntax == "luajit"
    d = z3.Union(D, lit("_")) if luau and not cleaned else D
    h = z3.Union(H, lit("_")) if luau and not cleaned else H
    plus = (lambda x: z3.Star(x)) if luau and cleaned else z3.Plus      # a run that may consist of underscores only
    dstar = z3.Star(d)
    # read_exponent_part: [eEpP] sign? digit (digit|_)*
    exp_tail = z3.Concat(SIGN, D, z3.Star(d))
    suffix = z3.Union(z3.Concat(any_of("uU"), any_of("lL"), any_of("lL")), z3.Concat(any_of("lL"), any_of("lL")), any_of("iI"))
    # read_number: starts with a digit, or with '.' followed by a digit; (digit|_)* with at most one '.'
    body = z3.Union(z3.Concat(D, z3.Star(d), z3.Option(z3.Concat(lit("."), z3.Star(d)))),
                    z3.Concat(lit("."), D, z3.Star(d)))
    dec = z3.Concat(body, z3.Option(z3.Concat(any_of("eE"), exp_tail)))
    if luajit:
        dec = z3.Union(dec, z3.Concat(body, suffix))
    # read_hex_number
    if lua52:
        hbody = z3.Union(z3.Concat(z3.Plus(h), z3.Option(z3.Concat(lit("."), z3.Star(h)))), z3.Concat(lit("."), z3.Star(h)))
        hexn = z3.Concat(lit("0"), any_of("xX"), hbody, z3.Option(z3.Concat(any_of("pP"), exp_tail)))
        if luajit:
            hexn = z3.Union(hexn, z3.Concat(lit("0"), any_of("xX"), hbody, suffix))
    else:
        hexn = z3.Concat(lit("0"), any_of("xX"), plus(h))
    langs = [dec, hexn]
    if luau or luajit:
        bits = z3.Star(any_of("01")) if cleaned else z3.Plus(any_of("01_"))
        b = z3.Concat(lit("0"), any_of("bB"), bits)
        if luajit:
            b = z3.Union(b, z3.Concat(lit("0"), any_of("bB"), bits, suffix))
        langs.append(b)
    return z3.Union(*langs)


def ci(word):
    return z3.Concat(*[any_of(c.lower() + c.upper()) for c in word])


def rust_f64_language():
    """core::num::dec2flt: sign? (inf | infinity | nan | digits [. digits*] | . digits) [e sign? digits]"""
    num = z3.Union(z3.Concat(z3.Plus(D), z3.Option(z3.Concat(lit("."), z3.Star(D)))), z3.Concat(lit("."), z3.Plus(D)))
    exp = z3.Option(z3.Concat(any_of("eE"), SIGN, z3.Plus(D)))
    return z3.Concat(SIGN, z3.Union(ci("inf"), ci("infinity"), ci("nan"), z3.Concat(num, exp)))


def rust_i64_radix_language(radix):
    """i64::from_str_radix accepts sign? digit+ whose value fits in an i64"""
    if radix == 16:
        dg, top = H, z3.Range("0", "7")
        n = 16
        minv = z3.Concat(lit("8"), z3.Loop(lit("0"), 15, 15))
    elif radix == 2:
        dg, top = any_of("01"), lit("0")
        n = 64
        minv = z3.Concat(lit("1"), z3.Loop(lit("0"), 63, 63))
    else:
        raise ValueError(radix)
    fits = z3.Union(z3.Loop(dg, 1, n - 1), z3.Concat(top, z3.Loop(dg, n - 1, n - 1)))
    zeros = z3.Star(lit("0"))
    return z3.Union(z3.Concat(z3.Option(lit("+")), zeros, fits), z3.Concat(lit("-"), zeros, z3.Union(fits, minv)),
                    z3.Concat(SIGN, z3.Plus(lit("0"))))


def replace_all(s, a, b):
    ctx = s.ctx
    return z3.SeqRef(z3.Z3_mk_seq_replace_all(ctx.ref(), s.as_ast(), a.as_ast(), b.as_ast()), ctx)


def sval(ex, st, v):
    v = deref_val(ex, st, v)
    if isinstance(v, SStr):
        return v.t
    if isinstance(v, Str):
        return z3.StringVal(v.s if isinstance(v.s, str) else v.s.decode())
    return None


def hooks(counter=[0]):
    """executor hooks for the str methods that occur around number handling"""
    def h(ex, st, callee, args, dty):
        c = canon(callee)
        last = c.split("::")[-1]
        if not args:
            return NotImplemented
        s = sval(ex, st, args[0])
        if s is None or not isinstance(deref_val(ex, st, args[0]), SStr):
            return NotImplemented
        if last in ("deref", "as_str", "to_string", "to_owned", "borrow", "as_ref", "clone") or re.search(r"as (Into|From)<.*>>::(into|from)$", c):
            return SStr(s)
        if last == "replace" and len(args) == 3:
            a = deref_val(ex, st, args[1])
            b = sval(ex, st, args[2])
            if isinstance(a, Sym) and z3.is_bv_value(z3.simplify(a.t)) and b is not None and z3.is_string_value(b):
                counter[0] += 1
                r = z3.String(f"replaced{counter[0]}")
                st.aux["strrel"] = st.aux.get("strrel", ()) + (("replace_all", s, chr(z3.simplify(a.t).as_long()), b.as_string(), r),)
                return SStr(r)
            return NotImplemented
        if last == "trim_end_matches" and len(args) == 2:
            p = sval(ex, st, args[1])
            if p is None or not z3.is_string_value(p):
                return NotImplemented
            counter[0] += 1
            r = z3.String(f"trim{counter[0]}")
            st.aux["strrel"] = st.aux.get("strrel", ()) + (("trim_end", s, p.as_string(), None, r),)
            return SStr(r)
        if last == "starts_with" and len(args) == 2:
            p = deref_val(ex, st, args[1])
            if isinstance(p, Sym) and z3.is_bv_value(z3.simplify(p.t)):
                return Sym(z3.PrefixOf(z3.StringVal(chr(z3.simplify(p.t).as_long())), s), "bool")
            pv = sval(ex, st, args[1])
            if pv is not None:
                return Sym(z3.PrefixOf(pv, s), "bool")
            return NotImplemented
        if last == "parse" and "f64" in callee:
            ok = z3.InRe(s, rust_f64_language())
            return [(ok, Agg(dty, "Ok", [ex.fresh_lazy("f64", "parsed")])), (z3.Not(ok), Agg(dty, "Err", [ex.fresh_lazy("ParseFloatError", "pfe")]))]
        if last == "from_str_radix":
            rd = z3.simplify(args[1].t).as_long()
            ok = z3.InRe(s, rust_i64_radix_language(rd))
            return [(ok, Agg(dty, "Ok", [ex.fresh_lazy("i64", "parsed")])), (z3.Not(ok), Agg(dty, "Err", [ex.fresh_lazy("ParseIntError", "pie")]))]
        if last == "index" and "RangeFrom" in callee:
            r = deref_val(ex, st, args[1])
            k = r.fields[0] if isinstance(r, Agg) else None
            if k is None or not z3.is_bv_value(z3.simplify(k.t)):
                return NotImplemented
            k = z3.simplify(k.t).as_long()
            st.trace.append(("str-index", k, s, list(st.pc)))
            st.pc.append(z3.Length(s) >= k)
            return SStr(z3.SubString(s, k, z3.Length(s) - k))
        if last == "get" and "RangeFrom" in callee:
            r = deref_val(ex, st, args[1])
            k = r.fields[0] if isinstance(r, Agg) else None
            if k is None or not z3.is_bv_value(z3.simplify(k.t)):
                return NotImplemented
            k = z3.simplify(k.t).as_long()
            return [(z3.Length(s) >= k, Agg(dty, "Some", [SStr(z3.SubString(s, k, z3.Length(s) - k))])), (z3.Length(s) < k, Agg(dty, "None", []))]
        return NotImplemented
    return h


def relation_constraints(rels, no_char=(), no_suffix=(), image=None):
    """constraints for the recorded string relations. no_char: characters known not to occur in the source text (replace is the
    identity); no_suffix: suffixes known not to occur; image: {char: language of the text with that char deleted} used when the char
    may occur (sound for reachability: exists s in L with P(delete(s)) iff exists t in delete(L) with P(t))."""
    cs = []
    n = 0
    for kind, s, a, b, r in rels:
        if kind == "replace_all":
            if a in no_char:
                cs.append(r == s)
            elif b == "" and image and a in image and n == 0:
                cs.append(z3.InRe(r, image[a]))
            else:
                cs.append(r == replace_all(s, z3.StringVal(a), z3.StringVal(b)))
        elif kind == "trim_end":
            if a in no_suffix:
                cs.append(r == s)
            else:
                n += 1
                rest = z3.String(f"rest_{n}_{abs(hash(str(r))) % 9973}")
                cs.append(z3.And(s == z3.Concat(r, rest), z3.InRe(rest, z3.Star(z3.Re(a))), z3.Not(z3.SuffixOf(z3.StringVal(a), r))))
    return cs

"""Common pipeline pieces: snapshot of /repo's working tree, MIR dump cache, native replay build,
evidence writer, known findings, exit codes.  See DESIGN.md section 4."""
import hashlib, json, os, shutil, subprocess, sys, time, fcntl, contextlib

REPO = os.environ.get("VERIF_REPO", "/repo")
VERIF = os.path.dirname(os.path.dirname(os.path.abspath(__file__)))
SCRATCH = os.environ.get("VERIF_SCRATCH", "/var/tmp/stylua-verif")
OUT = os.environ.get("VERIF_OUT", VERIF)     # where evidence/ and replays/ are written (self-tests against scratch trees redirect it)
NIGHTLY = os.environ.get("VERIF_NIGHTLY", "nightly")
FEATURESETS = {
    "default": [],                       # what the baseline tests build (editorconfig only matters for the bin)
    "full": ["luau", "lua54", "luajit"],  # lua54 implies lua53, lua52
    "editorconfig": ["editorconfig"],
}
EXIT_OK, EXIT_VIOLATION, EXIT_INCONCLUSIVE = 0, 1, 2


class Inconclusive(Exception):
    """Engine limitation: never a pass, never an alarm."""


def log(*a):
    print(*a, file=sys.stderr, flush=True)


def env_offline():
    e = dict(os.environ)
    e["CARGO_NET_OFFLINE"] = "true"
    e.pop("RUSTFLAGS", None)
    return e


def tree_files(root):
    out = []
    for base in ("src", "Cargo.toml", "Cargo.lock", "build.rs"):
        p = os.path.join(root, base)
        if os.path.isdir(p):
            for d, _, fs in os.walk(p):
                for f in fs:
                    out.append(os.path.join(d, f))
        elif os.path.exists(p):
            out.append(p)
    return sorted(out)


def tree_hash(root=REPO):
    h = hashlib.sha256()
    for f in tree_files(root):
        h.update(os.path.relpath(f, root).encode())
        h.update(b"\0")
        with open(f, "rb") as fh:
            h.update(fh.read())
        h.update(b"\0")
    return h.hexdigest()[:20]


@contextlib.contextmanager
def flock(name):
    os.makedirs(SCRATCH, exist_ok=True)
    fh = open(os.path.join(SCRATCH, name + ".lock"), "w")
    fcntl.flock(fh, fcntl.LOCK_EX)
    try:
        yield
    finally:
        fcntl.flock(fh, fcntl.LOCK_UN)
        fh.close()


def snapshot():
    """Copy /repo's *working tree* (not HEAD) into the scratch area; returns (dir, hash).
    One copy per tree hash, shared by all checks; old copies are pruned."""
    h = tree_hash(REPO)
    d = os.path.join(SCRATCH, "trees", h)
    with flock("snapshot"):
        if not os.path.exists(os.path.join(d, ".complete")):
            if os.path.exists(d):
                shutil.rmtree(d)
            os.makedirs(d)
            subprocess.run(["rsync", "-a", "--exclude", "target", "--exclude", ".git", "--exclude", "stylua-vscode",
                            "--exclude", "stylua-npm-bin", "--exclude", "wasm", "--exclude", "benches",
                            REPO + "/", d + "/"], check=True)
            # benches are declared in Cargo.toml; cargo only needs them for `cargo bench`, but the manifest
            # parser wants the files to exist.
            bd = os.path.join(d, "benches")
            os.makedirs(bd, exist_ok=True)
            for b in ("date", "nested_tables", "docgen"):
                with open(os.path.join(bd, b + ".rs"), "w") as fh:
                    fh.write("fn main() {}\n")
            # cargo decides freshness by mtime and shares fingerprints between copies of the same package in one target dir:
            # make every source file of a new snapshot newer than anything built before
            now = time.time()
            for f in tree_files(d):
                os.utime(f, (now, now))
            open(os.path.join(d, ".complete"), "w").close()
        # prune: keep the 12 most recent trees (parallel self-tests against scratch worktrees use several at once)
        td = os.path.join(SCRATCH, "trees")
        ents = sorted((os.path.getmtime(os.path.join(td, e)), e) for e in os.listdir(td))
        for mt, e in ents[:-12]:
            if e != h and time.time() - mt > 2700:      # (a tree used within the last 45 minutes may belong to a run that is still going on)
                shutil.rmtree(os.path.join(td, e), ignore_errors=True)
                shutil.rmtree(os.path.join(SCRATCH, "mir", e), ignore_errors=True)
        os.utime(d)
    return d, h


def mir_dump(kind, featureset="default"):
    """MIR text of the lib or bin crate of the current working tree. kind in {lib, bin}.
    Regenerated whenever the tree hash changes; cached under SCRATCH/mir/<hash>/."""
    tree, h = snapshot()
    outd = os.path.join(SCRATCH, "mir", h)
    os.makedirs(outd, exist_ok=True)
    out = os.path.join(outd, f"{kind}.{featureset}.mir")
    with flock(f"mir.{kind}.{featureset}"):
        if os.path.exists(out) and os.path.getsize(out) > 100000:
            return out, tree, h
        t0 = time.time()
        feats = list(FEATURESETS[featureset])
        if kind == "bin":
            feats = feats + ["editorconfig"]
        # force the final crate to be recompiled so that the dump is never empty
        for f in ("src/lib.rs", "src/cli/main.rs"):
            os.utime(os.path.join(tree, f))
        cmd = ["cargo", "+" + NIGHTLY, "rustc", "--offline", "--lib" if kind == "lib" else "--bin=stylua",
               "--no-default-features", "--target-dir", os.path.join(SCRATCH, "target-mir"),
               "--manifest-path", os.path.join(tree, "Cargo.toml")]
        if feats:
            cmd += ["--features", ",".join(feats)]
        cmd += ["--", "-Zunpretty=mir", "-C", "debug-assertions=off", "-C", "overflow-checks=on"]
        r = subprocess.run(cmd, env=env_offline(), capture_output=True, text=True, cwd=tree)
        if r.returncode != 0 or len(r.stdout) < 100000:
            raise Inconclusive(f"MIR dump failed ({kind},{featureset}) rc={r.returncode}: {r.stderr[-2000:]}")
        with open(out + ".tmp", "w") as fh:
            fh.write(r.stdout)
        os.rename(out + ".tmp", out)
        log(f"[mir] dumped {kind}/{featureset}: {len(r.stdout.splitlines())} lines in {time.time()-t0:.1f}s")
    return out, tree, h


def native_build(featureset="full", release=False, cfg_verif=False):
    """Native build of the stylua binary of the current working tree (for replay). Returns path to binary."""
    tree, h = snapshot()
    tdir = os.path.join(SCRATCH, "target-native" + ("-hook" if cfg_verif else ""))
    feats = list(FEATURESETS[featureset]) + ["editorconfig"]
    marker = os.path.join(SCRATCH, "mir", h, f"native.{featureset}.{int(release)}.{int(cfg_verif)}")
    prof = "release" if release else "debug"
    binp = os.path.join(tdir, prof, "stylua")
    keep = os.path.join(SCRATCH, "mir", h, f"stylua.{featureset}.{prof}.{int(cfg_verif)}")
    with flock("native" + ("-hook" if cfg_verif else "")):
        if os.path.exists(keep):
            return keep
        cmd = ["cargo", "build", "--offline", "--bin", "stylua", "--no-default-features", "--features", ",".join(feats),
               "--target-dir", tdir, "--manifest-path", os.path.join(tree, "Cargo.toml")]
        if release:
            cmd.append("--release")
        env = env_offline()
        if cfg_verif:
            env["RUSTFLAGS"] = "--cfg stylua_verif"
        t0 = time.time()
        # the target directory is shared between tree copies and cargo does not re-uplift target/<profile>/stylua for a copy whose
        # fingerprint is still fresh (the binary there would be the one of whichever tree was built last): force this tree's crates
        # to be rebuilt and relinked
        now = time.time()
        for f in tree_files(tree):
            os.utime(f, (now, now))
        r = subprocess.run(cmd, env=env, capture_output=True, text=True, cwd=tree)
        if r.returncode != 0:
            raise Inconclusive("native build failed: " + r.stderr[-3000:])
        os.makedirs(os.path.dirname(keep), exist_ok=True)
        shutil.copy2(binp, keep)
        log(f"[build] native {featureset} {prof} hook={cfg_verif} in {time.time()-t0:.1f}s")
    return keep


def run_stylua(binp, source, args=(), stdin_name=None, timeout=60):
    """Format `source` via stdin with the given extra CLI args. Returns (rc, stdout, stderr)."""
    cmd = [binp, "--no-editorconfig"] + list(args) + ["-"]
    with contextlib.ExitStack() as st:
        import tempfile
        d = st.enter_context(tempfile.TemporaryDirectory(dir=SCRATCH))
        r = subprocess.run(cmd, input=source.encode("utf-8", "surrogateescape"), capture_output=True, cwd=d, timeout=timeout)
    return r.returncode, r.stdout.decode("utf-8", "surrogateescape"), r.stderr.decode("utf-8", "replace")


# ---------------------------------------------------------------- known findings

def load_known():
    p = os.path.join(VERIF, "known_findings.json")
    if not os.path.exists(p):
        return {"known": [], "fixed": []}
    with open(p) as fh:
        return json.load(fh)


def match_known(prop, role):
    """role: dict describing the violation by *role* (obligation id + discriminating keys). A known finding
    matches when property and obligation agree and every key of its `match` dict equals the role's value."""
    for k in load_known().get("known", []):
        if k["property"] != prop:
            continue
        if all(str(role.get(a)) == str(b) for a, b in k["match"].items()):
            return k
    return None


# ---------------------------------------------------------------- result accumulation / evidence

class Report:
    def __init__(self, prop, tier, seed):
        self.prop, self.tier, self.seed = prop, tier, seed
        self.t0 = time.time()
        self.obligations = []       # dicts: id, status(unsat|sat-known|sat-violation|inconclusive|vacuous), detail
        self.queries = 0
        self.solver_s = 0.0
        self.functions = {}         # name -> mir hash
        self.bounds = {}
        self.assumptions = []
        self.outside = []
        self.samples = []
        self.violations = []        # (role, replay_path)
        self.known_hits = []
        self.inconclusive = []
        self.extra = {}
        self.nontrivial = set()
        self.havoc = set()
        self.summaries = set()
        self.kani = []

    def fn(self, f):
        self.functions[f.name] = hashlib.sha256(f.text.encode()).hexdigest()[:12]

    def add(self, oid, status, detail=None, nontrivial=True):
        self.obligations.append({"id": oid, "status": status, **({"detail": detail} if detail else {})})
        if nontrivial and status != "vacuous":
            self.nontrivial.add(oid)
        if status == "inconclusive" or status == "vacuous":
            self.inconclusive.append(oid + ": " + str(detail))

    def violation(self, role, replay_obj):
        """A *replayed* (confirmed on the native build) violation. Classifies against known findings."""
        k = match_known(self.prop, role)
        if k is not None:
            if k["id"] not in [x["id"] for x in self.known_hits]:
                self.known_hits.append(k)
            return "sat-known"
        d = os.path.join(OUT, "replays", self.prop)
        os.makedirs(d, exist_ok=True)
        name = hashlib.sha256(json.dumps(role, sort_keys=True).encode()).hexdigest()[:10]
        p = os.path.join(d, f"{name}.json")
        with open(p, "w") as fh:
            json.dump({"property": self.prop, "role": role, "replay": replay_obj}, fh, indent=1)
        if p not in [x[1] for x in self.violations]:
            self.violations.append((role, p))
        return "sat-violation"

    def finish(self):
        wall = time.time() - self.t0
        n_ob = len(self.obligations)
        discharged = sum(1 for o in self.obligations if o["status"] == "unsat")
        ev = {
            "property_id": self.prop, "tier": self.tier, "seed": self.seed, "level": "model_checking",
            "coverage": {
                "evaluations": max(self.queries, 0),
                "distinct_nontrivial": len(self.nontrivial),
                "rule": "one case = one solver obligation (negated property over a symbolic input class, generated from the "
                        "MIR/compiled code of the current tree); non-trivial = its reachability twin was satisfiable "
                        "(the asserted location is reachable), distinct = distinct obligation id",
                "samples": self.samples[:12] or [o for o in self.obligations[:5]],
                "obligations": n_ob, "discharged": discharged,
                "known_findings_reproduced": [k["id"] for k in self.known_hits],
                "functions_encoded": self.functions, "bounds": self.bounds, "solver_s": round(self.solver_s, 3),
                "queries": self.queries, "havoc_callees": sorted(self.havoc)[:200], "summaries_used": sorted(self.summaries),
                "outside_the_claim": self.outside, "kani": self.kani, "obligation_list": self.obligations[:400],
                "trusted_base": ["rustc nightly MIR printer", "mirsym reading of MIR + summaries (vcheck/mirsym.py)", "z3",
                                 "oracles written from the Lua manual / README (vcheck/props)"],
                **self.extra,
            },
            "assumptions": self.assumptions,
            "wall_s": round(wall, 2),
            "violations": len(self.violations),
        }
        os.makedirs(os.path.join(OUT, "evidence"), exist_ok=True)
        with open(os.path.join(OUT, "evidence", self.prop + ".json"), "w") as fh:
            json.dump(ev, fh, indent=1, default=str)
        for k in self.known_hits:
            print(f"KNOWN-FINDING: property={self.prop} {k['id']}: {k['what']}")
        for role, p in self.violations:
            print(f"VIOLATION property={self.prop} replay={p}")
        if self.violations:
            return EXIT_VIOLATION
        if self.inconclusive:
            for i in self.inconclusive[:20]:
                print(f"INCONCLUSIVE property={self.prop} {i}")
            return EXIT_INCONCLUSIVE
        print(f"OK property={self.prop} tier={self.tier} obligations={n_ob} discharged={discharged} "
              f"known={len(self.known_hits)} queries={self.queries} solver_s={self.solver_s:.2f} wall_s={wall:.1f}")
        return EXIT_OK

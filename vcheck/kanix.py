"""Kani cross-check: leaf kernels decided a second time by CBMC over the COMPILED functions (DESIGN.md section 3.2).

The harness sources live in /verif/kani/*.rs. At check time a private copy of the snapshot of /repo's working tree is made, each
harness file is appended to the source file that holds the kernel (as a child module under #[cfg(kani)], so private items are in scope;
nothing is written to /repo), and `cargo kani -Z stubbing --no-default-features [--features ..] --harness ..` is run under a time and
memory limit, serialised by a lock (one shared Kani target directory).

Verdicts: SUCCESSFUL -> an obligation `kani/<harness>` discharged; FAILED -> the counterexample is made concrete
(-Z concrete-playback, inplace) and re-run natively (`cargo kani playback`): only a natively failing assertion is a violation, otherwise
the obligation is inconclusive; a harness that does not compile / times out / runs out of memory is recorded in evidence as not decided
and changes nothing else (the kernel's source shape changed - the MIR kernels say what they can about it)."""
import hashlib, json, os, re, shutil, subprocess, time

from . import common
from .common import Inconclusive

KANI_DIR = os.path.join(common.VERIF, "kani")

# property -> [(harness file, source file it is appended to, crate kind, extra cargo features, [harness names], cost class)]
SPECS = {
    "C07": [("shape.rs", "src/shape.rs", "lib", ["editorconfig"], ["verif_shape_arithmetic_never_panics", "verif_indent_arithmetic_never_panics"], "cheap")],
    "C20": [("overrides.rs", "src/cli/config.rs", "bin", ["editorconfig"], ["verif_load_overrides"], "cheap")],
    "C15": [("overrides.rs", "src/cli/config.rs", "bin", ["editorconfig"], ["verif_load_overrides"], "cheap")],
    "C11": [("context.rs", "src/context.rs", "lib", ["editorconfig"], ["verif_space_after_function_names", "verif_option_predicates"], "cheap")],
    "C05": [("excess.rs", "src/formatters/expression.rs", "lib", ["editorconfig"], ["verif_excess_unary", "verif_excess_atoms"], "slow")],
}
WHAT = {
    "verif_shape_arithmetic_never_panics": "Shape: no arithmetic overflow / panic in any width method (indent_width<=255, levels<=2^16, widths<=2^32, any column_width)",
    "verif_indent_arithmetic_never_panics": "Indent: no arithmetic overflow / panic in the level methods",
    "verif_load_overrides": "load_overrides: every field = the flag's same-named value if given else the base value (all enum variants, any widths)",
    "verif_space_after_function_names": "create_function_{definition,call}_trivia: one blank exactly under the documented option values",
    "verif_option_predicates": "should_omit_{string,table}_parens against the README table of call_parentheses (and the deprecated no_call_parentheses)",
    "verif_excess_unary": "check_excess_parentheses: parentheses around a unary operation are kept when it is the left operand of `^`",
    "verif_excess_atoms": "check_excess_parentheses: parentheses around `...` are never excess; every atom kind returns",
}


def _tree_with_harnesses():
    tree, h = common.snapshot()
    hh = hashlib.sha256()
    for fn in sorted(os.listdir(KANI_DIR)):
        hh.update(open(os.path.join(KANI_DIR, fn), "rb").read())
    d = os.path.join(common.SCRATCH, "kani", h + "-" + hh.hexdigest()[:8])
    if not os.path.exists(os.path.join(d, ".complete")):
        shutil.rmtree(d, ignore_errors=True)
        os.makedirs(os.path.dirname(d), exist_ok=True)
        subprocess.run(["rsync", "-a", "--exclude", "target", tree + "/", d + "/"], check=True)
        done = set()
        for specs in SPECS.values():
            for hf, src, kind, feats, names, cost in specs:
                if (hf, src) in done:
                    continue
                done.add((hf, src))
                with open(os.path.join(d, src), "a") as fh:
                    fh.write("\n" + open(os.path.join(KANI_DIR, hf)).read())
        now = time.time()
        for f in common.tree_files(d):
            os.utime(f, (now, now))
        open(os.path.join(d, ".complete"), "w").close()
        # keep the three most recent harness trees
        kd = os.path.join(common.SCRATCH, "kani")
        ents = sorted((os.path.getmtime(os.path.join(kd, e)), e) for e in os.listdir(kd))
        for _, e in ents[:-3]:
            if os.path.join(kd, e) != d:
                shutil.rmtree(os.path.join(kd, e), ignore_errors=True)
    return d


def _run_kani(tree, feats, names, timeout_s, extra=()):
    cmd = ["cargo", "kani", "-Z", "stubbing", "--no-default-features"] + (["--features", ",".join(feats)] if feats else [])
    for n in names:
        cmd += ["--harness", n]
    cmd += list(extra) + ["--target-dir", os.path.join(common.SCRATCH, "kani-target")]
    env = common.env_offline()
    sh = "ulimit -v 16000000; exec " + " ".join("'" + c + "'" for c in cmd)
    try:
        r = subprocess.run(["bash", "-c", sh], cwd=tree, env=env, capture_output=True, text=True, timeout=timeout_s)
        return r.returncode, r.stdout + "\n" + r.stderr
    except subprocess.TimeoutExpired as e:
        return None, ((e.stdout or b"").decode("utf-8", "replace") if isinstance(e.stdout, bytes) else (e.stdout or "")) + "\n[timeout]"


def _parse(out):
    res = {}
    cur = None
    for ln in out.splitlines():
        m = re.match(r"Checking harness (\S+?)\.\.\.", ln)
        if m:
            cur = m.group(1).split("::")[-1]
            res[cur] = {"status": None, "failed": [], "time": None}
            continue
        if cur is None:
            continue
        if ln.startswith("VERIFICATION:- "):
            res[cur]["status"] = ln.split(":- ")[1].strip()
        elif ln.startswith("Failed Checks:"):
            res[cur]["failed"].append(ln[len("Failed Checks:"):].strip())
        elif ln.startswith("Verification Time:"):
            res[cur]["time"] = ln.split(":")[1].strip()
        elif "out of memory" in ln or "CBMC failed" in ln:
            res[cur]["status"] = "ERROR"
    return res


def _playback(tree, feats, name, timeout_s):
    """-> (reproduced natively?, text)"""
    rc, out = _run_kani(tree, feats, [name], timeout_s, extra=["-Z", "concrete-playback", "--concrete-playback=inplace"])
    cmd = ["cargo", "kani", "playback", "-Z", "concrete-playback", "--no-default-features"] + (["--features", ",".join(feats)] if feats else []) + \
          ["--", "kani_concrete_playback_" + name]
    try:
        r = subprocess.run(cmd, cwd=tree, env=common.env_offline(), capture_output=True, text=True, timeout=timeout_s)
    except subprocess.TimeoutExpired:
        return False, "playback timed out"
    txt = r.stdout + r.stderr
    failed = re.search(r"test \S*kani_concrete_playback_" + re.escape(name) + r"\S* \.\.\. FAILED", txt) is not None
    pan = re.search(r"panicked at [^\n]*\n([^\n]*)", txt)
    return failed, (pan.group(0)[:300] if pan else txt[-300:])


def run(rep, prop, tier):
    """adds obligations kani/<harness> to the report; never raises"""
    specs = [s_ for s_ in SPECS.get(prop, []) if tier == "thorough" or s_[5] == "cheap"]
    if not specs or os.environ.get("VERIF_NO_KANI") == "1":
        return
    if shutil.which("cargo-kani") is None and not os.path.exists(os.path.expanduser("~/.cargo/bin/cargo-kani")):
        rep.kani.append({"status": "not run", "reason": "cargo-kani not found"})
        return
    t0 = time.time()
    try:
        with common.flock("kani"):
            tree = _tree_with_harnesses()
            for hf, src, kind, feats, names, cost in specs:
                tmo = 420 if tier == "quick" else 1800
                rc, out = _run_kani(tree, feats, names, tmo)
                res = _parse(out)
                for n in names:
                    r_ = res.get(n)
                    rec = {"harness": n, "file": src, "decides": WHAT.get(n, ""), "engine": "Kani 0.68 / CBMC (cadical)", "features": feats or ["(none)"]}
                    if r_ is None or r_["status"] in (None, "ERROR"):
                        why = "timeout" if rc is None else ("out of memory / CBMC error" if r_ else "harness did not compile against the current source (or was not found)")
                        err = re.findall(r"^error(?:\[E\d+\])?: [^\n]*", out, re.M)[:2]
                        rec.update({"status": "not decided", "reason": why + ("; " + " | ".join(err) if err else "")})
                        rep.kani.append(rec)
                        continue
                    rec["cbmc_time"] = r_["time"]
                    if r_["status"] == "SUCCESSFUL":
                        rec["status"] = "SUCCESSFUL"
                        rep.kani.append(rec)
                        rep.add(f"kani/{n}", "unsat", WHAT.get(n, "") + f" [CBMC {r_['time']}]")
                        rep.queries += 1
                        continue
                    # FAILED: concrete playback against the native build
                    ok, txt = _playback(tree, feats, n, 900)
                    rec.update({"status": "FAILED", "failed_checks": r_["failed"][:4], "native_playback": "reproduced" if ok else "not reproduced", "playback": txt})
                    rep.kani.append(rec)
                    if ok:
                        st = rep.violation({"obligation": "kani/" + n, "failed": (r_["failed"] or ["?"])[0][:120]},
                                           {"what": WHAT.get(n, ""), "observed": "; ".join(r_["failed"][:3]) + " - " + txt, "kani_harness": n, "features": feats, "file": src})
                        rep.add(f"kani/{n}", st, "; ".join(r_["failed"][:3]))
                    else:
                        rep.add(f"kani/{n}", "inconclusive", "Kani reports " + "; ".join(r_["failed"][:3]) + " but the concrete playback does not fail natively: " + txt[:200])
    except Exception as e:      # infrastructure trouble is never a verdict
        rep.kani.append({"status": "not run", "reason": f"{type(e).__name__}: {e}"[:300]})
    rep.extra["kani_wall_s"] = round(time.time() - t0, 1)


def replay(record):
    """re-run one harness recorded in a replay file; -> violation text or None"""
    n, feats = record["kani_harness"], record.get("features") or []
    with common.flock("kani"):
        tree = _tree_with_harnesses()
        rc, out = _run_kani(tree, feats, [n], 1800)
        r_ = _parse(out).get(n)
        if r_ and r_["status"] == "FAILED":
            ok, txt = _playback(tree, feats, n, 900)
            if ok:
                return "; ".join(r_["failed"][:3]) + " - " + txt
    return None

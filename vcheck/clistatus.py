"""Exit-status model of the CLI read off the bin MIR: the output-thread closure (one iteration of its receive loop), the logger
closure registered in main (inlined at every `log!` site), and the atomics they touch. Shared by C13 and C19."""
import re, z3

from . import clihooks
from .common import Inconclusive
from .mirsym import Sym, Str, Agg, Lazy, Ref, RefV, UNIT
from .summaries import canon, deref_val, opt_some, opt_none

CELLS = {"Atomic<i32>": "EXIT_CODE", "Atomic<u32>": "UNFORMATTED"}
LEVELS = {"Error": 1, "Warn": 2, "Info": 3, "Debug": 4, "Trace": 5}


def find_logger(funcs):
    """the closure in main that is handed to env_logger::Builder::format: the only closure of main taking a &Record"""
    c = [f for n, l in funcs.items() for f in l if n.startswith("main::{closure") and any("Record<" in t for _, t in f.params)]
    if len(c) != 1:
        raise Inconclusive(f"cannot identify the logger closure in main ({len(c)} candidates)")
    return c[0]


def find_output_closure(funcs):
    """the closure of `format` that iterates the receiver"""
    c = []
    for n, l in funcs.items():
        if not re.fullmatch(r"format::\{closure#\d+\}", n):
            continue
        for f in l:
            if any(s[0] == "call" and "Receiver<" in s[2] and "into_iter" in s[2] for sts in f.blocks.values() for s in sts) or \
               any(s[0] == "call" and "crossbeam_channel::IntoIter" in s[2] for sts in f.blocks.values() for s in sts):
                c.append(f)
    if len(c) != 1:
        raise Inconclusive(f"cannot identify the output-thread closure in format ({len(c)} candidates)")
    return c[0]


def level_term(ex, st, v):
    v = deref_val(ex, st, v)
    v = deref_val(ex, st, v)
    if isinstance(v, Agg) and v.variant in LEVELS:
        return z3.BitVecVal(LEVELS[v.variant], 64)
    if isinstance(v, Agg) and v.variant == "Off":
        return z3.BitVecVal(0, 64)
    if isinstance(v, Lazy) and "STATIC_MAX_LEVEL" in v.label:
        return z3.BitVecVal(5, 64)
    if isinstance(v, Lazy) and v.tags.get("level") is not None:
        return v.tags["level"]
    if isinstance(v, Lazy):
        return ex.discr(st, v)
    if isinstance(v, Sym):
        return z3.ZeroExt(64 - v.t.size(), v.t) if v.t.size() < 64 else v.t
    raise Inconclusive(f"log level of {v!r}")


def make_hooks(funcs, items, logger, fresh_loads=False):
    """items: list of Result<FormatResult, anyhow::Error> values the receiver yields, then None"""
    def h(ex, st, callee, args, dty):
        c = canon(callee)
        if re.fullmatch(r"<crossbeam_channel::IntoIter<.*> as Iterator>::next", c) or re.fullmatch(r"<crossbeam_channel::Receiver<.*> as Iterator>::next", c):
            k = st.aux.get("recv", 0)
            st.aux["recv"] = k + 1
            if k < len(items):
                st.trace.append(("recv", k))
                return opt_some(dty, items[k])
            return opt_none(dty)
        if re.fullmatch(r"<log::Level as PartialOrd<(log::)?LevelFilter>>::le", c):
            a, b = level_term(ex, st, args[0]), level_term(ex, st, args[1])
            return Sym(z3.ULE(a, b), "bool")
        if c in ("max_level", "log::max_level"):
            v = ex.fresh_lazy("LevelFilter", "max_level")
            d = ex.discr(st, v)
            # main installs the logger with LevelFilter::Warn or ::Debug (checked separately): errors are never filtered
            st.pc.append(z3.And(z3.UGE(d, z3.BitVecVal(2, 64)), z3.ULE(d, z3.BitVecVal(5, 64))))
            return v
        if c in ("log::__private_api::log", "log::__private_api::log_impl"):
            lvl = None
            for a in args:
                try:
                    v = deref_val(ex, st, a)
                    if isinstance(v, Agg) and v.variant in LEVELS and "Level" in (v.ty or ""):
                        lvl = z3.BitVecVal(LEVELS[v.variant], 64)
                    elif isinstance(v, Lazy) and re.search(r"(^|::)Level$", v.ty):
                        lvl = ex.discr(st, v)
                except Exception:
                    pass
            if lvl is None:
                raise Inconclusive("log!() site without a recognisable level argument")
            st.trace.append(("log", lvl))
            rec = Lazy(next(ex.oid_counter), "Record<'_>", "record", 0, {"level": lvl})
            largs = []
            for p, t in logger.params:
                if "Record<" in t:
                    largs.append(RefV(rec))
                else:
                    largs.append(ex.fresh_lazy(t, "logger." + p))
            return ("inline-discard", logger, largs)
        if re.fullmatch(r"(log::)?Record(<.*>)?::level", c) or c == "Record::level":
            r = deref_val(ex, st, args[0])
            if isinstance(r, Lazy) and r.tags.get("level") is not None:
                return Sym(r.tags["level"], "usize")
            return NotImplemented
        return NotImplemented
    return [h, clihooks.atomic_hook(CELLS, fresh_loads), clihooks.context_passthrough]


def format_result(ex, kind):
    """a Result<FormatResult, anyhow::Error> value of the given concrete kind with symbolic payload"""
    if kind == "Err":
        return Agg("Result<FormatResult, anyhow::Error>", "Err", [ex.fresh_lazy("anyhow::Error", "err")])
    pay = [] if kind == "Complete" else [ex.fresh_lazy("Vec<u8>", kind.lower() + "-bytes")]
    return Agg("Result<FormatResult, anyhow::Error>", "Ok", [Agg("FormatResult", kind, pay)])


def no_block_inline(name, fn):
    """inline in-crate helpers reachable from the closures, but never library code"""
    return False

"""mirsym: forward symbolic execution of rustc MIR text into z3 terms.  See DESIGN.md section 3.1.

Values
  Sym(term, ty)        scalar (Bool / BitVec) with its Rust type
  Str(s)               &'static str constant
  Agg(ty, variant, fields)   struct / tuple / enum value with a known variant / closure / array (positional fields)
  Lazy(oid, ty, label) symbolic object: discriminant and fields are materialised on first access and memoised globally,
                       so the same access yields the same symbol on every path (inputs and havoc results)
  Ref(key, path)       pointer into the store (locals, heap cells, statics);  RefV(value) pointer to an immutable value
  FnItem(name)         function item / fn pointer
Unknown calls are havoc'd (fresh Lazy of the destination type; pure-function memo on the argument identity).
"""
import itertools, os, re, z3

from .common import Inconclusive
from .mirparse import Place, split_top
from .enums import enum_key

INT_BITS = {"u8": 8, "i8": 8, "u16": 16, "i16": 16, "u32": 32, "i32": 32, "u64": 64, "i64": 64, "usize": 64, "isize": 64,
            "u128": 128, "i128": 128, "char": 32}
SIGNED = {"i8", "i16", "i32", "i64", "isize", "i128"}


FLOAT_SORT = {"f32": z3.Float32, "f64": z3.Float64}


def is_scalar_ty(t):
    return t in INT_BITS or t == "bool" or t in FLOAT_SORT


def scalar_var(name, ty):
    if ty == "bool":
        return z3.Bool(name)
    if ty in FLOAT_SORT:
        return z3.FP(name, FLOAT_SORT[ty]())
    return z3.BitVec(name, INT_BITS[ty])


class Sym:
    __slots__ = ("t", "ty")

    def __init__(self, t, ty):
        self.t, self.ty = t, ty

    def __repr__(self):
        return f"Sym({self.t}:{self.ty})"


class Str:
    __slots__ = ("s",)

    def __init__(self, s):
        self.s = s

    def __repr__(self):
        return f"Str({self.s!r})"


class Agg:
    __slots__ = ("ty", "variant", "fields", "names")

    def __init__(self, ty, variant, fields, names=None):
        self.ty, self.variant, self.fields, self.names = ty, variant, list(fields), names

    def __repr__(self):
        v = f"::{self.variant}" if self.variant else ""
        return f"{enum_key(self.ty) if self.ty else ''}{v}({', '.join(map(repr, self.fields))})"


class Lazy:
    __slots__ = ("oid", "ty", "label", "depth", "tags")

    def __init__(self, oid, ty, label, depth=0, tags=None):
        self.oid, self.ty, self.label, self.depth, self.tags = oid, ty, label, depth, tags or {}

    def __repr__(self):
        return f"<{self.label}>"


class Ref:
    __slots__ = ("key", "path", "mut")

    def __init__(self, key, path=(), mut=False):
        self.key, self.path, self.mut = key, tuple(path), mut

    def __repr__(self):
        return f"Ref({self.key},{self.path})"


class RefV:
    """reference to an immutable value (symbolic inputs, constants)"""
    __slots__ = ("v",)

    def __init__(self, v):
        self.v = v

    def __repr__(self):
        return f"&{self.v!r}"


class FnItem:
    __slots__ = ("name",)

    def __init__(self, name):
        self.name = name

    def __repr__(self):
        return f"fn {self.name}"


UNIT = Agg("()", None, [])


def vkey(v):
    """hashable structural identity of a value (used for pure-call memoisation and rule de-duplication)"""
    if isinstance(v, Sym):
        return ("s", v.t.sexpr() if hasattr(v.t, "sexpr") else str(v.t))
    if isinstance(v, Str):
        return ("str", v.s)
    if isinstance(v, Agg):
        return ("a", enum_key(v.ty) if v.ty else None, v.variant, tuple(vkey(f) for f in v.fields))
    if isinstance(v, Lazy):
        return ("l", v.oid)
    if isinstance(v, RefV):
        return ("rv", vkey(v.v))
    if isinstance(v, Ref):
        return ("r", v.key, v.path)
    if isinstance(v, FnItem):
        return ("fn", v.name)
    return ("?", id(v))


def strip_ref(t):
    t = t.strip()
    m = re.match(r"^&(?:'[A-Za-z_]\w* )?(?:mut )?(.*)$", t)
    if m:
        return m.group(1).strip(), True
    m = re.match(r"^\*(?:const|mut) (.*)$", t)
    if m:
        return m.group(1).strip(), True
    m = re.match(r"^(?:std::boxed::|alloc::boxed::)?Box<(.*)>$", t)
    if m:
        return split_top(m.group(1))[0], True
    m = re.match(r"^(?:std::ptr::|core::ptr::)?(?:Unique|NonNull)<(.*)>$", t)
    if m:
        return m.group(1).strip(), True
    return t, False


def generic_args(t):
    i = t.find("<")
    if i == -1 or not t.endswith(">"):
        return []
    return split_top(t[i + 1:-1])


def decode_rust_str(lit):
    """lit is the text between the quotes of a MIR string constant"""
    out, i, n = [], 0, len(lit)
    while i < n:
        c = lit[i]
        if c == "\\":
            d = lit[i + 1]
            if d == "n": out.append("\n"); i += 2
            elif d == "r": out.append("\r"); i += 2
            elif d == "t": out.append("\t"); i += 2
            elif d == "0": out.append("\0"); i += 2
            elif d == "\\": out.append("\\"); i += 2
            elif d == '"': out.append('"'); i += 2
            elif d == "'": out.append("'"); i += 2
            elif d == "x": out.append(chr(int(lit[i + 2:i + 4], 16))); i += 4
            elif d == "u":
                e = lit.index("}", i)
                out.append(chr(int(lit[i + 3:e], 16))); i = e + 1
            else:
                raise Inconclusive("string escape " + lit[i:i + 4])
        else:
            out.append(c); i += 1
    return "".join(out)


class State:
    __slots__ = ("store", "pc", "stack", "trace", "over", "aux")

    def __init__(self):
        self.store, self.pc, self.stack, self.trace, self.over, self.aux = {}, [], [], [], {}, {}

    def fork(self):
        s = State()
        s.store = dict(self.store)
        s.pc = list(self.pc)
        s.stack = [Frame(f.fn, f.fid, f.bb, f.ip, f.dest, f.ret_bb, f.wrap) for f in self.stack]
        s.trace = list(self.trace)
        s.over = dict(self.over)
        s.aux = dict(self.aux)
        return s


class Frame:
    __slots__ = ("fn", "fid", "bb", "ip", "dest", "ret_bb", "wrap")

    def __init__(self, fn, fid, bb="bb0", ip=0, dest=None, ret_bb=None, wrap=None):
        self.fn, self.fid, self.bb, self.ip, self.dest, self.ret_bb = fn, fid, bb, ip, dest, ret_bb
        self.wrap = wrap          # applied to the value this frame returns (Option::map(f): Some(f(x)))


class Outcome:
    def __init__(self, kind, value, state, info=None):
        self.kind, self.value, self.state, self.info = kind, value, state, info
        self.pc = state.pc
        self.trace = state.trace

    def __repr__(self):
        return f"Outcome({self.kind}, {self.value!r}, pc={len(self.pc)})"


class Executor:
    def __init__(self, funcs, enums, hooks=None, inline=None, max_paths=20000, max_depth=6, max_steps=200000,
                 pure_havoc=True, report=None, lazy_depth=8, check_feasible=True):
        self.funcs = funcs            # name -> [Function]
        self.enums = enums
        self.hooks = hooks or []      # list of callables (ex, st, callee, args, dest_ty) -> NotImplemented | value | [(cond,value)] | ('panic',msg)
        self.inline = inline or (lambda name, fn: False)
        self.max_paths, self.max_depth, self.max_steps = max_paths, max_depth, max_steps
        self.pure_havoc = pure_havoc
        self.report = report
        self.lazy_depth = lazy_depth
        self.check_feasible = check_feasible
        self.solver = z3.Solver()
        self.fid_counter = itertools.count(1)
        self.oid_counter = itertools.count(1)
        self.lazy_tab = {}            # (oid, key) -> Value   (global across paths: inputs are immutable)
        self.parent = {}              # child oid -> (parent oid, key)
        self.max_block_visits = 0     # 0 = unbounded; otherwise paths revisiting a block more often are cut ("loopbound")
        self.havoc_memo = {}
        self._alone = {}
        self.havoc_calls = {}         # oid -> (callee, args)
        self.havoc_snap = {}          # oid -> argument values at call time
        self.havoc_raw = {}           # oid -> callee as spelled in the MIR (with generic arguments)
        self.n_checks = 0
        self.solver_s = 0.0
        self.byname = {}
        self.steps = 0
        self._index_functions()

    # ------------------------------------------------------------------ function index
    def _index_functions(self):
        """map call-site spellings to definitions: free functions by last path segment; methods through the impl header."""
        self.bylast = {}
        for name, lst in self.funcs.items():
            last = name.split("::")[-1] if "{closure" not in name and "promoted" not in name else None
            segs = re.sub(r"<impl at [^>]*>", "<impl>", name)
            self.byname.setdefault(segs, []).extend(lst)
            if last:
                self.bylast.setdefault(last, []).append(name)

    def resolve(self, callee):
        """-> Function or None. Handles `foo`, `module::foo`, `Type::method`, `<Type as Trait>::method`, closures."""
        c = re.sub(r"::<[^<>]*(?:<[^<>]*(?:<[^<>]*>[^<>]*)*>[^<>]*)*>", "", callee)   # drop turbofish generics
        if c in self.funcs and len(self.funcs[c]) == 1:
            return self.funcs[c][0]
        last = c.split("::")[-1]
        cands = self.bylast.get(last, [])
        if "::" not in c:
            exact = [n for n in cands if n == c]
            if len(exact) == 1 and len(self.funcs[exact[0]]) == 1:
                return self.funcs[exact[0]][0]
        # Type::method or module::func: match impl type through the `impl_types` table built lazily from sources
        m = re.match(r"^(?:<(.+?) as (.+?)>|(.+))::([A-Za-z_][A-Za-z0-9_]*)$", c)
        if not m:
            return None
        ty = (m.group(1) or m.group(3) or "").strip()
        trait = m.group(2)
        tyk = enum_key(re.sub(r"^&(mut )?", "", ty)) if ty else None
        good = []
        for n in cands:
            for f in self.funcs[n]:
                im = re.search(r"<impl at ([^:>]+):(\d+):\d+: \d+:\d+>::" + re.escape(last) + "$", n)
                if im:
                    hdr = self._impl_header(im.group(1), int(im.group(2)))
                    if hdr is None:
                        continue
                    itrait, ity = hdr
                    if enum_key(ity) == tyk and ((trait is None) or (itrait and enum_key(itrait) == enum_key(trait))):
                        if trait is None and itrait is not None and any(True for _ in ()):
                            continue
                        good.append(f)
                else:
                    # free function in a module path: accept when the qualified suffix matches
                    if n == c or n.endswith("::" + c) or c.endswith("::" + n):
                        good.append(f)
        if len(good) == 1:
            return good[0]
        return None

    _impl_cache = {}

    def _impl_header(self, path, line):
        key = (path, line)
        if key in self._impl_cache:
            return self._impl_cache[key]
        res = None
        try:
            import os
            p = path if os.path.isabs(path) else os.path.join(self.tree, path)
            lines = open(p).read().split("\n")
            txt = " ".join(lines[line - 1:line + 3])
            m = re.search(r"impl(?:<[^>]*>)?\s+(?:([A-Za-z_][\w:<>' ,]*?)\s+for\s+)?([A-Za-z_&][\w:<>' ,&]*?)\s*(?:where|\{)", txt)
            if m:
                res = (m.group(1), m.group(2))
            elif "derive" in lines[line - 1]:
                res = None
        except Exception:
            res = None
        self._impl_cache[key] = res
        return res

    tree = os.environ.get("VERIF_REPO", "/repo")

    # ------------------------------------------------------------------ fresh values
    def fresh_lazy(self, ty, label, depth=0, tags=None):
        ty = ty.strip()
        if is_scalar_ty(ty):
            return self.fresh_scalar(ty, label)
        if ty == "()":
            return UNIT
        return Lazy(next(self.oid_counter), ty, label, depth, tags)

    def fresh_scalar(self, ty, label):
        n = f"{label}#{next(self.oid_counter)}"
        return Sym(scalar_var(n, ty), ty)

    def lazy_child(self, st, lz, key, ty, labelsuffix):
        ov = st.over.get((lz.oid, key)) if st is not None else None
        if ov is not None:
            return ov
        k = (lz.oid, key)
        if k not in self.lazy_tab:
            if lz.depth + 1 > self.lazy_depth:
                raise DepthExceeded()
            self.lazy_tab[k] = self._mk_child(lz, key, ty, labelsuffix)
        return self.lazy_tab[k]

    def _mk_child(self, lz, key, ty, labelsuffix):
        label = f"{lz.label}{labelsuffix}"
        ty = (ty or "?").strip()
        if is_scalar_ty(ty):
            n = f"{label}@{lz.oid}"
            return Sym(scalar_var(n, ty), ty)
        if ty == "()":
            return UNIT
        ch = Lazy(next(self.oid_counter), ty, label, lz.depth + (1 if key[0] in ("deref", "field", "vfield") else 0), dict(lz.tags))
        self.parent[ch.oid] = (lz.oid, key)
        return ch

    def discr(self, st, v):
        """discriminant term (BitVec 64) of an enum value"""
        if isinstance(v, Agg):
            if v.variant is None:
                raise Inconclusive(f"discriminant of non-enum aggregate {v!r}")
            idx = self.enums.index(v.ty, v.variant)
            if idx is None:
                raise Inconclusive(f"unknown discriminant index of {v.ty}::{v.variant}")
            return z3.BitVecVal(idx, 64)
        if isinstance(v, Lazy):
            ov = st.over.get((v.oid, ("discr",))) if st is not None else None
            if ov is not None:
                return ov
            k = (v.oid, ("discr",))
            if k not in self.lazy_tab:
                d = z3.BitVec(f"d:{v.label}@{v.oid}", 64)
                self.lazy_tab[k] = d
            return self.lazy_tab[k]
        if isinstance(v, Sym):
            # C-like enum held as scalar
            if z3.is_bool(v.t):
                return z3.If(v.t, z3.BitVecVal(1, 64), z3.BitVecVal(0, 64))
            if v.t.size() < 64:
                return z3.SignExt(64 - v.t.size(), v.t) if v.ty in SIGNED else z3.ZeroExt(64 - v.t.size(), v.t)
            return v.t
        raise Inconclusive(f"discriminant of {v!r}")

    def all_discr_ranges(self):
        """range constraints for the discriminants of all lazily created enum objects whose type is in the enum table"""
        cs = []
        objs = {}
        for (oid, key), v in self.lazy_tab.items():
            if isinstance(v, Lazy):
                objs[v.oid] = v
        for (oid, key), d in self.lazy_tab.items():
            if key == ("discr",) and z3.is_expr(d):
                o = objs.get(oid)
                ty = o.ty if o is not None else None
                if ty is None:
                    for v in self.havoc_memo.values():
                        if isinstance(v, Lazy) and v.oid == oid:
                            ty = v.ty
                vs = self.enums.variants(ty) if ty else None
                if vs:
                    cs.append(z3.ULT(d, z3.BitVecVal(len(vs), 64)))
        return cs

    def discr_range(self, v):
        """constraint: discriminant of lazy enum v is a valid variant index (None if unknown enum)"""
        if isinstance(v, Lazy):
            vs = self.enums.variants(v.ty)
            if vs:
                return len(vs)
        return None

    # ------------------------------------------------------------------ places
    def local_ty(self, fr, local):
        return fr.fn.locals.get(local, "?")

    def read_place(self, st, fr, pl, want_ref=False):
        """value stored at place. If want_ref, returns a reference value pointing to the place."""
        key, path, val = self._walk(st, fr, pl)
        if want_ref:
            if key is None:
                return val if isinstance(val, Str) else RefV(val)
            return Ref(key, path)
        return val

    def _walk(self, st, fr, pl):
        """-> (store key or None, path within key, value). key None means the value lives in an immutable object."""
        key = (fr.fid, pl.local)
        if key not in st.store:
            lty = fr.fn.locals.get(pl.local, "")
            if lty.startswith(("{closure@", "{closure#")) or lty == "()" or re.match(r"^fn\(", lty) or lty.startswith("{fn item"):
                st.store[key] = Agg(lty, None, [])        # a zero-sized value (closure without captures, fn item) is never assigned in MIR
            else:
                raise Inconclusive(f"read of unset local {pl.local} in {fr.fn.name} {fr.bb}")
        val = st.store[key]
        path = ()
        variant = None
        for pr in pl.proj:
            k = pr[0]
            if k == "deref":
                if isinstance(val, Ref):
                    key, path = val.key, val.path
                    val = self._read_key(st, key, path)
                elif isinstance(val, RefV):
                    key, path, val = None, (), val.v
                elif isinstance(val, Lazy):
                    inner, isref = strip_ref(val.ty)
                    val = self.lazy_child(st, val, ("deref",), inner if isref else "?", "*")
                    if isinstance(val, Lazy) and (val.oid, ("whole",)) in st.over:
                        val = st.over[(val.oid, ("whole",))]
                    key, path = None, ()
                elif isinstance(val, Str):
                    key, path = None, ()        # &'static str: the constant stands for both the pointer and the data
                else:
                    raise Inconclusive(f"deref of {val!r} in {fr.fn.name}")
                variant = None
            elif k == "downcast":
                variant = pr[1]
                if isinstance(val, Agg) and val.variant is not None and val.variant != variant:
                    raise Infeasible()
            elif k == "field":
                idx, fty = pr[1], pr[2]
                if isinstance(val, RefV) and isinstance(val.v, (Agg, Lazy)) and not re.match(r"^(?:std::ptr::|core::ptr::)?(?:Unique|NonNull)<", fty) \
                        and not (isinstance(val.v, Lazy) and strip_ref(val.v.ty)[1]):
                    # an element handed out by value through a by-reference summary (array / vec iteration): project into the element
                    val, key, path = val.v, None, ()
                if isinstance(val, (Ref, RefV)) and re.match(r"^(?:std::ptr::|core::ptr::)?(?:Unique|NonNull)<", fty):
                    pass       # Box<T>.0 / Unique<T>.0: the same pointer
                elif isinstance(val, Lazy) and strip_ref(val.ty)[1] and re.match(r"^(?:std::ptr::|core::ptr::)?(?:Unique|NonNull)<", fty):
                    val = Lazy(val.oid, val.ty, val.label, val.depth, val.tags)
                elif isinstance(val, Agg):
                    if idx >= len(val.fields):
                        raise Inconclusive(f"field {idx} of {val!r}")
                    val = val.fields[idx]
                    path = path + (idx,)
                elif isinstance(val, Lazy):
                    ck = ("vfield", variant, idx) if variant else ("field", idx)
                    val = self.lazy_child(st, val, ck, fty, f".{variant + '.' if variant else ''}{idx}")
                    key = None
                else:
                    raise Inconclusive(f"field of {val!r} in {fr.fn.name}")
                variant = None
            elif k in ("index", "constindex"):
                if k == "index":
                    iv = st.store[(fr.fid, pr[1])]
                    if not (isinstance(iv, Sym) and z3.is_bv_value(z3.simplify(iv.t))):
                        raise Inconclusive("symbolic index")
                    idx = z3.simplify(iv.t).as_long()
                else:
                    idx = pr[1]
                    if pr[3]:
                        raise Inconclusive("from-end index")
                if isinstance(val, Agg):
                    if idx >= len(val.fields):
                        raise Infeasible()
                    val = val.fields[idx]; path = path + (idx,)
                elif isinstance(val, Lazy):
                    ety = "?"
                    m = re.match(r"^\[(.*?)(?:; .*)?\]$", val.ty)
                    if m: ety = m.group(1)
                    val = self.lazy_child(st, val, ("idx", idx), ety, f"[{idx}]"); key = None
                else:
                    raise Inconclusive(f"index of {val!r}")
            else:
                raise Inconclusive(f"projection {pr}")
        return key, path, val

    def _read_key(self, st, key, path):
        if key not in st.store:
            raise Inconclusive(f"dangling ref {key}")
        v = st.store[key]
        for p in path:
            if isinstance(v, Agg):
                v = v.fields[p]
            else:
                raise Inconclusive(f"path {path} into {v!r}")
        return v

    def write_place(self, st, fr, pl, value):
        key = (fr.fid, pl.local)
        if not pl.proj:
            st.store[key] = value
            return
        # walk to the parent, collecting (key, path)
        val = st.store.get(key)
        path = []
        variant = None
        for i, pr in enumerate(pl.proj):
            k = pr[0]
            if k == "deref":
                if isinstance(val, Ref):
                    key, path = val.key, list(val.path)
                    val = self._read_key(st, key, path)
                elif isinstance(val, Lazy) or isinstance(val, RefV):
                    # write through a pointer into a symbolic object: record as override on the (lazy) pointee
                    base = val.v if isinstance(val, RefV) else self.lazy_child(st, val, ("deref",), strip_ref(val.ty)[0], "*")
                    return self._write_lazy(st, base, pl.proj[i + 1:], value)
                else:
                    raise Inconclusive(f"write through {val!r}")
            elif k == "downcast":
                variant = pr[1]
            elif k == "field":
                if isinstance(val, Lazy):
                    return self._write_lazy(st, val, pl.proj[i:], value, variant)
                if isinstance(val, (Ref, RefV)):
                    continue
                if val is None:
                    # partial initialisation of an uninitialised aggregate
                    val = Agg(None, None, [])
                    self._set(st, key, path, val)
                path.append(pr[1])
                val = val.fields[pr[1]] if isinstance(val, Agg) and pr[1] < len(val.fields) else None
                variant = None
            elif k in ("index", "constindex"):
                idx = pr[1] if k == "constindex" else z3.simplify(st.store[(fr.fid, pr[1])].t).as_long()
                path.append(idx)
                val = val.fields[idx] if isinstance(val, Agg) and idx < len(val.fields) else None
            else:
                raise Inconclusive(f"write projection {pr}")
        self._set(st, key, path, value)

    def _write_lazy(self, st, base, proj, value, variant=None):
        cur = base
        for j, pr in enumerate(proj):
            last = j == len(proj) - 1
            if pr[0] == "downcast":
                variant = pr[1]; continue
            if pr[0] == "field":
                ck = ("vfield", variant, pr[1]) if variant else ("field", pr[1])
                if not isinstance(cur, Lazy):
                    raise Inconclusive("write into non-lazy through lazy pointer")
                if last:
                    st.over[(cur.oid, ck)] = value
                    return
                cur = self.lazy_child(st, cur, ck, pr[2], f".{pr[1]}")
                variant = None
            elif pr[0] == "deref":
                cur = self.lazy_child(st, cur, ("deref",), strip_ref(cur.ty)[0], "*")
            else:
                raise Inconclusive(f"lazy write projection {pr}")
        if isinstance(cur, Lazy):
            # whole-object overwrite through a pointer (e.g. `*pair.value_mut() = e`): later reads of the pointee see the value
            st.over[(cur.oid, ("whole",))] = value
            st.trace.append(("store-through", cur, value))

    def _set(self, st, key, path, value):
        if not path:
            st.store[key] = value
            return
        root = st.store.get(key)
        st.store[key] = self._upd(root, list(path), value)

    def _upd(self, agg, path, value):
        if not path:
            return value
        if agg is None:
            agg = Agg(None, None, [])
        if not isinstance(agg, Agg):
            raise Inconclusive(f"update inside {agg!r}")
        fields = list(agg.fields)
        while len(fields) <= path[0]:
            fields.append(None)
        fields[path[0]] = self._upd(fields[path[0]], path[1:], value)
        return Agg(agg.ty, agg.variant, fields, agg.names)

    # ------------------------------------------------------------------ operands / rvalues
    def const_value(self, st, fr, text, want_ty=None):
        t = text.strip()
        if t in ("true", "false"):
            return Sym(z3.BoolVal(t == "true"), "bool")
        m = re.fullmatch(r"(-?\d+)_(u8|u16|u32|u64|u128|usize|i8|i16|i32|i64|i128|isize)", t)
        if m:
            return Sym(z3.BitVecVal(int(m.group(1)), INT_BITS[m.group(2)]), m.group(2))
        m = re.fullmatch(r"(-?[0-9.]+(?:[eE][-+]?\d+)?)(f32|f64)", t)
        if m:
            return Sym(z3.FPVal(float(m.group(1)), FLOAT_SORT[m.group(2)]()), m.group(2))
        if t.startswith('"') and t.endswith('"'):
            return Str(decode_rust_str(t[1:-1]))
        if t.startswith("'") and t.endswith("'"):
            s = decode_rust_str(t[1:-1])
            return Sym(z3.BitVecVal(ord(s), 32), "char")
        if t == "()":
            return UNIT
        m = re.fullmatch(r"(?:core::num::|std::)?(?:<impl )?(u8|u16|u32|u64|usize|i8|i16|i32|i64|isize)>?::(MAX|MIN)", t)
        if m:
            bits, sg = INT_BITS[m.group(1)], m.group(1) in SIGNED
            val = (2 ** (bits - 1) - 1 if sg else 2 ** bits - 1) if m.group(2) == "MAX" else (-(2 ** (bits - 1)) if sg else 0)
            return Sym(z3.BitVecVal(val, bits), m.group(1))
        if t.startswith("ZeroSized: "):
            nm = t[len("ZeroSized: "):]
            if nm.startswith("{closure@"):
                return Agg(nm, None, [])
            return FnItem(nm)
        m = re.fullmatch(r"\{(alloc\d+): (.*)\}", t)
        if m:
            key = ("static", m.group(2))
            if key not in st.store:
                inner = strip_ref(m.group(2))[0]
                # an immutable static whose (unique) initialiser is in the dump: use its value (e.g. CONFIG_FILE_NAME)
                cands = [f for n_, l in self.funcs.items() for f in l if f.kind == "const" and f.ret.strip() == inner
                         and "promoted" not in n_ and "::{" not in n_] if "Atomic" not in inner and "Lazy<" not in inner else []
                val = None
                if len(cands) == 1:
                    try:
                        val = self.eval_const_fn(st, cands[0])
                    except Inconclusive:
                        val = None
                st.store[key] = val if val is not None else self.fresh_lazy(inner, "static:" + m.group(2))
            return Ref(key, ())
        if "promoted[" in t:
            pm = re.search(r"promoted\[(\d+)\]$", t)
            base = fr.fn.name
            base = re.sub(r"::promoted\[\d+\]$", "", base)
            cands = [n for n in self.funcs if n.endswith(f"::promoted[{pm.group(1)}]") and n.startswith(base + "::promoted")]
            if len(cands) == 1:
                return self.eval_const_fn(st, self.funcs[cands[0]][0])
            raise Inconclusive(f"promoted const {t} from {fr.fn.name}")
        # named const item / enum unit variant path
        last = t.split("::")[-1]
        f = self.resolve_const(t)
        if f is not None:
            return self.eval_const_fn(st, f)
        m = re.fullmatch(r"(.*)::([A-Z][A-Za-z0-9_]*)", re.sub(r"::<.*?>(?=::)", "", t))
        if m and self.enums.index(m.group(1), m.group(2)) is not None:
            return Agg(m.group(1), m.group(2), [])
        if t.startswith("b\""):
            return Str(t)      # byte-string template (format_args); opaque but comparable
        return self.fresh_lazy(want_ty or "?", "const:" + last)

    def resolve_const(self, t):
        c = re.sub(r"::<[^<>]*>", "", t)
        if c in self.funcs and self.funcs[c][0].kind == "const":
            return self.funcs[c][0]
        last = c.split("::")[-1]
        cands = [n for n in self.funcs if self.funcs[n][0].kind == "const" and n.split("::")[-1] == last and "promoted" not in n]
        if len(cands) == 1:
            return self.funcs[cands[0]][0]
        last2 = c.split("::")[-2:]
        cands = [n for n in cands if n.split("::")[-2:] == last2]
        if len(cands) == 1:
            return self.funcs[cands[0]][0]
        return None

    def eval_const_fn(self, st, f):
        """run a const/promoted body (straight-line) and return its value"""
        sub = Executor.__new__(Executor)
        sub.__dict__.update(self.__dict__)
        outs = self.run(f, [], inline=lambda n, fn: True, _nested=True)
        rets = [o for o in outs if o.kind == "return"]
        if len(rets) != 1:
            raise Inconclusive(f"const body {f.name} has {len(rets)} outcomes")
        # move the objects created by the const body into the caller's store
        for k, v in rets[0].state.store.items():
            st.store.setdefault(k, v)
        return rets[0].value

    def operand(self, st, fr, op, want_ty=None):
        k = op[0]
        if k in ("copy", "move"):
            return self.read_place(st, fr, op[1])
        if k == "const":
            return self.const_value(st, fr, op[1], want_ty)
        if k == "fnitem":
            return FnItem(op[1])
        raise Inconclusive(f"operand {op}")

    def as_bv(self, v, bits=None):
        if isinstance(v, Sym):
            if z3.is_bool(v.t):
                return z3.If(v.t, z3.BitVecVal(1, bits or 8), z3.BitVecVal(0, bits or 8))
            return v.t
        raise Inconclusive(f"expected scalar, got {v!r}")

    def rvalue(self, st, fr, rv, dest_ty):
        k = rv[0]
        if k == "use":
            return self.operand(st, fr, rv[1], dest_ty)
        if k == "ref":
            return self.read_place(st, fr, rv[2], want_ref=True)
        if k == "discriminant":
            v = self.read_place(st, fr, rv[1])
            d = self.discr(st, v)
            bits = INT_BITS.get(dest_ty, 64)
            if bits < 64:
                d = z3.Extract(bits - 1, 0, d)
            return Sym(d, dest_ty if dest_ty in INT_BITS else "isize")
        if k == "binop":
            return self.binop(st, rv[1], self.operand(st, fr, rv[2]), self.operand(st, fr, rv[3]), dest_ty)
        if k == "unop":
            a = self.operand(st, fr, rv[2])
            if rv[1] == "Not":
                if isinstance(a, Sym) and z3.is_bool(a.t):
                    return Sym(z3.Not(a.t), "bool")
                return Sym(~self.as_bv(a), a.ty)
            if rv[1] == "Neg":
                return Sym(-self.as_bv(a), a.ty)
            if rv[1] == "PtrMetadata":
                # length of a slice/str behind a pointer
                return self.len_of(st, a)
            raise Inconclusive("unop " + rv[1])
        if k == "cast":
            return self.cast(st, self.operand(st, fr, rv[1]), rv[2], rv[3])
        if k == "aggregate":
            return self.aggregate(st, fr, rv, dest_ty)
        if k == "len":
            return self.len_of(st, self.read_place(st, fr, rv[1], want_ref=True))
        if k == "repeat":
            v = self.operand(st, fr, rv[1])
            try:
                n = int(re.sub(r"_usize$", "", rv[2].replace("const ", "").strip()))
            except ValueError:
                raise Inconclusive("repeat length " + rv[2])
            return Agg(dest_ty, None, [v] * n)
        raise Inconclusive(f"rvalue {rv}")

    def len_of(self, st, ref):
        v = ref
        if isinstance(v, RefV):
            v = v.v
        elif isinstance(v, Ref):
            v = self._read_key(st, v.key, v.path)
        if isinstance(v, Str):
            return Sym(z3.BitVecVal(len(v.s.encode()), 64), "usize")
        if isinstance(v, Agg):
            return Sym(z3.BitVecVal(len(v.fields), 64), "usize")
        if isinstance(v, Lazy):
            k = (v.oid, ("len",))
            if k not in self.lazy_tab:
                self.lazy_tab[k] = Sym(z3.BitVec(f"len:{v.label}@{v.oid}", 64), "usize")
            return self.lazy_tab[k]
        raise Inconclusive(f"len of {v!r}")

    def binop(self, st, op, a, b, dest_ty):
        if op in ("Eq", "Ne") and isinstance(a, Sym) and isinstance(b, Sym) and z3.is_bool(a.t) and z3.is_bool(b.t):
            r = a.t == b.t
            return Sym(r if op == "Eq" else z3.Not(r), "bool")
        if op in ("BitAnd", "BitOr", "BitXor") and isinstance(a, Sym) and z3.is_bool(a.t):
            f = {"BitAnd": z3.And, "BitOr": z3.Or, "BitXor": z3.Xor}[op]
            return Sym(f(a.t, b.t), "bool")
        if not (isinstance(a, Sym) and isinstance(b, Sym)):
            if op in ("Eq", "Ne") and isinstance(a, (Ref, RefV)) and isinstance(b, (Ref, RefV)):
                same = vkey(a) == vkey(b)
                return Sym(z3.BoolVal(same if op == "Eq" else not same), "bool")
            raise Inconclusive(f"binop {op} on {a!r},{b!r}")
        x, y = a.t, b.t
        if a.ty in FLOAT_SORT and b.ty in FLOAT_SORT:
            # IEEE-754 semantics (round to nearest even), as rustc compiles f32/f64 arithmetic
            rm = z3.RNE()
            if op == "Eq": return Sym(z3.fpEQ(x, y), "bool")
            if op == "Ne": return Sym(z3.Not(z3.fpEQ(x, y)), "bool")
            if op == "Lt": return Sym(z3.fpLT(x, y), "bool")
            if op == "Le": return Sym(z3.fpLEQ(x, y), "bool")
            if op == "Gt": return Sym(z3.fpGT(x, y), "bool")
            if op == "Ge": return Sym(z3.fpGEQ(x, y), "bool")
            if op == "Add": return Sym(z3.fpAdd(rm, x, y), a.ty)
            if op == "Sub": return Sym(z3.fpSub(rm, x, y), a.ty)
            if op == "Mul": return Sym(z3.fpMul(rm, x, y), a.ty)
            if op == "Div": return Sym(z3.fpDiv(rm, x, y), a.ty)
            raise Inconclusive("float binop " + op)
        if x.size() != y.size():
            if op in ("Shl", "Shr", "ShlUnchecked", "ShrUnchecked"):
                y = z3.ZeroExt(x.size() - y.size(), y) if y.size() < x.size() else z3.Extract(x.size() - 1, 0, y)
            else:
                raise Inconclusive(f"width mismatch {op} {a} {b}")
        sg = a.ty in SIGNED
        if op == "Eq": return Sym(x == y, "bool")
        if op == "Ne": return Sym(x != y, "bool")
        if op == "Lt": return Sym(x < y if sg else z3.ULT(x, y), "bool")
        if op == "Le": return Sym(x <= y if sg else z3.ULE(x, y), "bool")
        if op == "Gt": return Sym(x > y if sg else z3.UGT(x, y), "bool")
        if op == "Ge": return Sym(x >= y if sg else z3.UGE(x, y), "bool")
        if op in ("Add", "AddUnchecked"): return Sym(x + y, a.ty)
        if op in ("Sub", "SubUnchecked"): return Sym(x - y, a.ty)
        if op in ("Mul", "MulUnchecked"): return Sym(x * y, a.ty)
        if op == "Div": return Sym(x / y if sg else z3.UDiv(x, y), a.ty)
        if op == "Rem": return Sym(z3.SRem(x, y) if sg else z3.URem(x, y), a.ty)
        if op == "BitAnd": return Sym(x & y, a.ty)
        if op == "BitOr": return Sym(x | y, a.ty)
        if op == "BitXor": return Sym(x ^ y, a.ty)
        if op in ("Shl", "ShlUnchecked"): return Sym(x << y, a.ty)
        if op in ("Shr", "ShrUnchecked"): return Sym(x >> y if sg else z3.LShR(x, y), a.ty)
        if op in ("AddWithOverflow", "SubWithOverflow", "MulWithOverflow"):
            n = x.size()
            if op == "AddWithOverflow":
                r = x + y
                ov = z3.Not(z3.BVAddNoOverflow(x, y, sg)) if not sg else z3.Or(z3.Not(z3.BVAddNoOverflow(x, y, True)), z3.Not(z3.BVAddNoUnderflow(x, y)))
            elif op == "SubWithOverflow":
                r = x - y
                ov = z3.ULT(x, y) if not sg else z3.Or(z3.Not(z3.BVSubNoOverflow(x, y)), z3.Not(z3.BVSubNoUnderflow(x, y, True)))
            else:
                r = x * y
                ov = z3.Not(z3.BVMulNoOverflow(x, y, sg)) if not sg else z3.Or(z3.Not(z3.BVMulNoOverflow(x, y, True)), z3.Not(z3.BVMulNoUnderflow(x, y)))
            return Agg("(T, bool)", None, [Sym(r, a.ty), Sym(ov, "bool")])
        if op == "Cmp":
            lt = x < y if sg else z3.ULT(x, y)
            return Sym(z3.If(lt, z3.BitVecVal(-1, 8), z3.If(x == y, z3.BitVecVal(0, 8), z3.BitVecVal(1, 8))), "i8")
        raise Inconclusive("binop " + op)

    def cast(self, st, v, ty, kind):
        ty = ty.strip()
        if kind.startswith("IntToInt") or (isinstance(v, Sym) and ty in INT_BITS and not kind.startswith("Pointer")):
            if isinstance(v, Sym):
                src = self.as_bv(v, 8)
                n, m = src.size(), INT_BITS.get(ty)
                if m is None:
                    raise Inconclusive("cast to " + ty)
                if m == n: r = src
                elif m < n: r = z3.Extract(m - 1, 0, src)
                else: r = z3.SignExt(m - n, src) if (v.ty in SIGNED) else z3.ZeroExt(m - n, src)
                return Sym(r, ty)
            if isinstance(v, (Agg, Lazy)):
                # C-like enum to integer
                d = self.discr(st, v)
                m = INT_BITS[ty]
                return Sym(z3.Extract(m - 1, 0, d) if m < 64 else d, ty)
        if kind.startswith(("Transmute", "PtrToPtr", "PointerCoercion", "PointerExposeProvenance", "PointerWithExposedProvenance", "FnPtrToPtr", "Subtype")):
            if isinstance(v, Lazy):
                return Lazy(v.oid, ty, v.label, v.depth, v.tags) if strip_ref(ty)[1] == strip_ref(v.ty)[1] else v
            return v
        raise Inconclusive(f"cast {kind} of {v!r} to {ty}")

    def aggregate(self, st, fr, rv, dest_ty):
        _, kind, path, style, items = rv
        if kind in ("tuple", "array"):
            return Agg(dest_ty, None, [self.operand(st, fr, o) for o in items])
        if kind == "closure":
            return Agg(path, None, [self.operand(st, fr, o) for _, o in items], [n for n, _ in items])
        # adt
        vals = [self.operand(st, fr, (o[1] if isinstance(o, tuple) and isinstance(o[0], str) and o[0] not in ("copy", "move", "const", "fnitem") else o))
                for o in items]
        names = [o[0] for o in items] if style == "named" else None
        p = re.sub(r"::<.*>(?=::[A-Za-z_][A-Za-z0-9_]*$)", "", path)      # Option::<T>::Some -> Option::Some
        p = re.sub(r"::<.*>$", "", p)
        last = p.split("::")[-1]
        # enum variant named by its last segment, the enum being the destination type (MIR trims paths)
        if dest_ty and dest_ty != "?" and self.enums.index(dest_ty, last) is not None and enum_key(dest_ty) != last:
            return Agg(dest_ty, last, vals, names)
        m = re.fullmatch(r"(.*)::([A-Za-z_][A-Za-z0-9_]*)", p)
        if m and self.enums.index(m.group(1), m.group(2)) is not None:
            return Agg(m.group(1) if "<" not in (dest_ty or "") else dest_ty, m.group(2), vals, names)
        return Agg(dest_ty if dest_ty and dest_ty != "?" else p, None, vals, names)

    # ------------------------------------------------------------------ feasibility
    def _vars(self, t, acc):
        todo = [t]
        seen = set()
        while todo:
            e = todo.pop()
            i = e.get_id()
            if i in seen:
                continue
            seen.add(i)
            if z3.is_const(e) and e.decl().kind() == z3.Z3_OP_UNINTERPRETED:
                acc.add(e.decl().name())
            else:
                todo.extend(e.children())
        return acc

    def _pc_vars(self, st):
        n, vs = st.aux.get("_pcv", (0, frozenset()))
        if n != len(st.pc):
            acc = set(vs) if n <= len(st.pc) else set()
            for p in st.pc[n if n <= len(st.pc) else 0:]:
                self._vars(p, acc)
            vs = frozenset(acc)
            st.aux["_pcv"] = (len(st.pc), vs)
        return vs

    def feasible(self, st, cond=None):
        if not self.check_feasible:
            return True
        import time
        if cond is not None:
            c = z3.simplify(cond)
            if z3.is_true(c): return True
            if z3.is_false(c): return False
            # a condition over symbols the path condition never mentions is independent of it: decide it alone
            cv = self._vars(c, set())
            if cv and cv.isdisjoint(self._pc_vars(st)):
                key = c.sexpr() if len(cv) <= 3 else None
                if key is not None and key in self._alone:
                    return self._alone[key]
                t0 = time.time()
                self.n_checks += 1
                s2 = z3.Solver()
                s2.add(c)
                r = s2.check()
                self.solver_s += time.time() - t0
                res = r != z3.unsat
                if key is not None:
                    self._alone[key] = res
                return res
        t0 = time.time()
        self.n_checks += 1
        self.solver.push()
        try:
            if st.pc:
                self.solver.add(z3.And(*st.pc) if len(st.pc) > 1 else st.pc[0])
            if cond is not None:
                self.solver.add(cond)
            r = self.solver.check()
        finally:
            self.solver.pop()
        self.solver_s += time.time() - t0
        if r == z3.unknown:
            return True
        return r == z3.sat

    # ------------------------------------------------------------------ main loop
    def run(self, fn, args, inline=None, st=None, _nested=False):
        if inline is not None:
            saved = self.inline
            self.inline = inline
        st = st or State()
        fid = next(self.fid_counter)
        fr = Frame(fn, fid)
        if len(fn.params) != len(args):
            raise Inconclusive(f"arity mismatch calling {fn.name}")
        for (p, _), v in zip(fn.params, args):
            st.store[(fid, p)] = v
        st.stack.append(fr)
        if self.report is not None and not _nested:
            self.report.fn(fn)
        base_depth = len(st.stack)
        work = [st]
        outs = []
        try:
            while work:
                s = work.pop()
                if isinstance(s, _Done):
                    outs.append(s.out)
                    continue
                try:
                    res = self.step_path(s, work, base_depth)
                except Infeasible:
                    continue
                except DepthExceeded:
                    outs.append(Outcome("depth", None, s))
                    continue
                if res is not None:
                    outs.append(res)
                if len(outs) + len(work) > self.max_paths:
                    raise Inconclusive(f"path budget exceeded in {fn.name} ({self.max_paths})")
        finally:
            if inline is not None:
                self.inline = saved
        return outs

    def step_path(self, st, work, base_depth):
        """advance one state until it returns from the base frame, panics or forks (forks go to `work`)."""
        while True:
            self.steps += 1
            if self.steps > self.max_steps:
                raise Inconclusive("step budget exceeded")
            fr = st.stack[-1]
            blk = fr.fn.blocks.get(fr.bb)
            if blk is None:
                raise Inconclusive(f"no block {fr.bb} in {fr.fn.name}")
            if fr.ip >= len(blk):
                raise Inconclusive(f"fell off {fr.bb} in {fr.fn.name}")
            s = blk[fr.ip]
            k = s[0]
            if k == "nop":
                fr.ip += 1
            elif k == "assign":
                dty = self.place_ty(fr, s[1])
                v = self.rvalue(st, fr, s[2], dty)
                self.write_place(st, fr, s[1], v)
                fr.ip += 1
            elif k == "setdiscr":
                raise Inconclusive("SetDiscriminant")
            elif k == "goto":
                fr.bb, fr.ip = s[1], 0
                if self.max_block_visits:
                    vk = ("visits", fr.fid, s[1])
                    st.aux[vk] = st.aux.get(vk, 0) + 1
                    if st.aux[vk] > self.max_block_visits:
                        return Outcome("loopbound", None, st, info=(fr.fn.name, s[1]))
            elif k == "drop":
                fr.bb, fr.ip = s[2]["return"], 0
            elif k == "return":
                rv = st.store.get((fr.fid, "_0"), UNIT)
                if fr.wrap is not None:
                    rv = fr.wrap(rv)
                st.stack.pop()
                if len(st.stack) < base_depth:
                    return Outcome("return", rv, st)
                caller = st.stack[-1]
                if fr.dest is not None:
                    self.write_place(st, caller, fr.dest, rv)
                caller.bb, caller.ip = fr.ret_bb, 0
            elif k == "unreachable":
                raise Infeasible()
            elif k == "resume":
                return Outcome("panic", "unwind", st)
            elif k == "assert":
                c = self.operand(st, fr, s[1])
                cond = c.t if s[2] else z3.Not(c.t)
                ok_f = self.feasible(st, cond)
                bad_f = self.feasible(st, z3.Not(cond))
                if bad_f:
                    s2 = st.fork() if ok_f else st
                    s2.pc.append(z3.Not(cond))
                    out = Outcome("panic", "assert: " + s[3], s2, info=(fr.fn.name, fr.bb))
                    if not ok_f:
                        return out
                    work.append(_Done(out))
                if not ok_f:
                    raise Infeasible()
                if bad_f:
                    st.pc.append(cond)
                fr.bb, fr.ip = s[4]["success"], 0
            elif k == "switch":
                v = self.operand(st, fr, s[1])
                if not isinstance(v, Sym):
                    raise Inconclusive(f"switch on {v!r}")
                t = v.t
                ts = z3.simplify(t)
                arms = s[2]
                if z3.is_bool(t):
                    conds = []
                    for key, tgt in arms:
                        if key == "otherwise":
                            conds.append((z3.And([z3.Not(c) for c, _ in conds]) if conds else z3.BoolVal(True), tgt))
                        else:
                            conds.append(((t if key != 0 else z3.Not(t)), tgt))
                else:
                    conds = []
                    for key, tgt in arms:
                        if key == "otherwise":
                            conds.append((z3.And([t != z3.BitVecVal(k2, t.size()) for k2, _ in arms if k2 != "otherwise"]), tgt))
                        else:
                            conds.append((t == z3.BitVecVal(key, t.size()), tgt))
                live = []
                if z3.is_bv_value(ts) or z3.is_true(ts) or z3.is_false(ts):
                    for c, tgt in conds:
                        if z3.is_true(z3.simplify(c)):
                            live = [(None, tgt)]; break
                else:
                    for c, tgt in conds:
                        if self.feasible(st, c):
                            live.append((c, tgt))
                if not live:
                    raise Infeasible()
                for c, tgt in live[1:]:
                    s2 = st.fork()
                    s2.pc.append(c)
                    f2 = s2.stack[-1]; f2.bb, f2.ip = tgt, 0
                    work.append(s2)
                c, tgt = live[0]
                if c is not None and len(live) > 1:
                    st.pc.append(c)
                # a single feasible arm is implied by the path condition: nothing to record
                fr.bb, fr.ip = tgt, 0
            elif k == "call":
                r = self.call(st, fr, s, work)
                if isinstance(r, Outcome):
                    return r
            elif k == "unknown":
                raise Inconclusive(f"unparsed MIR statement reached in {fr.fn.name} {fr.bb}: {s[1][:120]}")
            else:
                raise Inconclusive(f"statement kind {k}")
            if work and isinstance(work[-1], _Done):
                pass

    def place_ty(self, fr, pl):
        if not pl.proj:
            return fr.fn.locals.get(pl.local, "?")
        last = pl.proj[-1]
        if last[0] == "field":
            return last[2]
        if last[0] == "deref":
            base = fr.fn.locals.get(pl.local, "?") if len(pl.proj) == 1 else "?"
            return strip_ref(base)[0]
        return "?"

    # ------------------------------------------------------------------ calls
    def call(self, st, fr, s, work):
        _, dest, callee, argops, targets = s
        args = [self.operand(st, fr, a) for a in argops]
        dty = self.place_ty(fr, dest) if dest is not None else "!"
        ret_bb = targets.get("return")
        # 1 hooks, 2 builtin summaries
        res = NotImplemented
        for h in self.hooks:
            res = h(self, st, callee, args, dty)
            if res is not NotImplemented:
                break
        if res is NotImplemented and self.inline_closure_calls:
            res = self._closure_call(st, callee, args)
        if res is NotImplemented and self.inline_closure_calls:
            res = self._option_map(st, fr, callee, args, dty, dest, ret_bb, work)
        if res is NotImplemented:
            from . import summaries
            res = summaries.builtin(self, st, callee, args, dty, fr)
            if res is not NotImplemented and self.report is not None:
                self.report.summaries.add(summaries.canon(callee))
        if res is NotImplemented:
            # 3 inline
            fn = self.resolve(callee)
            if fn is not None and self.inline(callee, fn) and fn.blocks:
                if len(st.stack) > self.max_depth + 40:
                    raise Inconclusive("call depth")
                nf = Frame(fn, next(self.fid_counter), dest=dest, ret_bb=ret_bb)
                if len(fn.params) != len(args):
                    raise Inconclusive(f"arity {callee}")
                for (p, _), v in zip(fn.params, args):
                    st.store[(nf.fid, p)] = v
                st.stack.append(nf)
                if self.report is not None:
                    self.report.fn(fn)
                return None
            # 3b second attempt of a check (vcheck/main.py): small helper predicates no kernel knows by name are followed instead of havoc'd
            if fn is not None and AUTO_INLINE and (not AUTO_INLINE_ONLY or st.stack[0].fn.name.split("::{closure")[0] in AUTO_INLINE_ONLY) \
                    and self._auto_inlinable(callee, fn) and len(st.stack) < self.max_depth + 40:
                nf = Frame(fn, next(self.fid_counter), dest=dest, ret_bb=ret_bb)
                if len(fn.params) == len(args):
                    for (p, _), v in zip(fn.params, args):
                        st.store[(nf.fid, p)] = v
                    st.stack.append(nf)
                    AUTO_INLINED.add(fn.name)
                    if self.report is not None:
                        self.report.fn(fn)
                    return None
            # 4 havoc
            res = self.havoc(st, callee, args, dty)
        if isinstance(res, tuple) and res and res[0] == "inline-wrap":
            _, fn2, args2, wrap = res
            nf = Frame(fn2, next(self.fid_counter), dest=dest, ret_bb=ret_bb, wrap=wrap)
            for (p, _), v in zip(fn2.params, args2):
                st.store[(nf.fid, p)] = v
            st.stack.append(nf)
            if self.report is not None:
                self.report.fn(fn2)
            return None
        if isinstance(res, tuple) and res and res[0] in ("inline", "inline-discard"):
            # a hook redirects the call to another MIR body (e.g. log!() -> the registered logger closure, Into::into -> From::from)
            kind_, fn2, args2 = res
            keep = kind_ == "inline"
            nf = Frame(fn2, next(self.fid_counter), dest=dest if keep else None, ret_bb=ret_bb)
            for (p, _), v in zip(fn2.params, args2):
                st.store[(nf.fid, p)] = v
            if dest is not None and not keep:
                self.write_place(st, fr, dest, UNIT)
            st.stack.append(nf)
            if self.report is not None:
                self.report.fn(fn2)
            return None
        if isinstance(res, tuple) and res and res[0] == "panic":
            return Outcome("panic", res[1], st, info=(fr.fn.name, fr.bb))
        if ret_bb is None:
            return Outcome("panic", "diverging call " + callee, st, info=(fr.fn.name, fr.bb))
        if isinstance(res, list):
            # forks: [(cond, value)]
            live = [(c, v) for c, v in res if self.feasible(st, c)]
            if not live:
                raise Infeasible()
            for c, v in live[1:]:
                s2 = st.fork()
                s2.pc.append(c)
                f2 = s2.stack[-1]
                self.write_place(s2, f2, dest, v)
                f2.bb, f2.ip = ret_bb, 0
                work.append(s2)
            c, v = live[0]
            st.pc.append(c)
            res = v
        if dest is not None:
            self.write_place(st, fr, dest, res)
        fr.bb, fr.ip = ret_bb, 0
        if self.max_block_visits:
            vk = ("visits", fr.fid, ret_bb)
            st.aux[vk] = st.aux.get(vk, 0) + 1
            if st.aux[vk] > self.max_block_visits:
                return Outcome("loopbound", None, st, info=(fr.fn.name, ret_bb))
        return None

    inline_closure_calls = False
    stateful_next = False

    def _auto_inlinable(self, callee, fn):
        """an in-crate, non-recursive, small function that returns a Boolean or a field-less enum and whose name appears nowhere in the
        checker's own sources (so no kernel hooks it, lists it as a guard or relies on its result being opaque)"""
        if fn.kind != "fn" or "{closure" in fn.name or "<impl" in fn.name or len(fn.blocks) > 40 or not fn.ret:
            return False
        last = fn.name.split("::")[-1]
        if last in _known_names():
            return False
        ret = fn.ret.strip()
        if ret != "bool":
            vs = self.enums.variants(ret) if hasattr(self.enums, "variants") else None
            if not vs or any(v[1] != "unit" for v in vs):
                return False
        # not (directly) recursive
        if any(s_[0] == "call" and re.sub(r"::<.*$", "", s_[2]).split("::")[-1] == last for sts in fn.blocks.values() for s_ in sts):
            return False
        return True

    def _closure_call(self, st, callee, args):
        """`<{closure@span} as Fn*<(A, B)>>::call*(closure, (a, b))` -> the closure's own MIR body with the argument tuple spread"""
        m = re.match(r"^<&?(?:mut )?(\{closure@[^}]*\}) as Fn(?:Mut|Once)?<.*>>::call(?:_mut|_once)?$", callee)
        if not m and len(args) == 2 and re.match(r"^<&?(?:mut )?(impl .*?|[A-Z]\w*) as Fn(?:Mut|Once)?<.*>>::call(?:_mut|_once)?$", callee):
            # a closure received through a generic / `impl Fn` parameter: its concrete type is carried by the value
            from .summaries import deref_val
            v = args[0]
            for _ in range(4):
                v = deref_val(self, st, v)
                if isinstance(v, Agg) and len(v.fields) == 1 and not (v.ty or "").startswith("{closure"):
                    v = v.fields[0]          # captured by the enclosing closure
                else:
                    break
            ty = getattr(v, "ty", "") or ""
            m = re.match(r"^&?(?:mut )?(\{closure@[^}]*\})$", ty.strip())
        if not m or len(args) != 2:
            return NotImplemented
        cands = [g for n_, l in self.funcs.items() if "{closure" in n_ for g in l if g.params and m.group(1) in g.params[0][1]]
        if len(cands) != 1:
            return NotImplemented
        g = cands[0]
        tup = args[1]
        if isinstance(tup, (Ref, RefV)):
            from .summaries import deref_val
            tup = deref_val(self, st, tup)
        if not isinstance(tup, Agg) or len(tup.fields) != len(g.params) - 1 or len(g.blocks) > 60:
            return NotImplemented
        env = args[0]
        if not g.params[0][1].startswith("&") and isinstance(env, (Ref, RefV)):
            from .summaries import deref_val
            env = deref_val(self, st, env)
        return ("inline", g, [env] + list(tup.fields))

    def _option_map(self, st, fr, callee, args, dty, dest, ret_bb, work):
        """Option::map(opt, closure): None stays None; for Some(x) the closure's own MIR is run on x and its result wrapped in Some"""
        m = re.match(r"^(?:std::option::|core::option::)?Option::<.*>::map::<.*(\{closure@[^}]*\})>$", callee)
        if not m or len(args) != 2 or dest is None or ret_bb is None:
            return NotImplemented
        cands = [g for n_, l in self.funcs.items() if "{closure" in n_ for g in l if g.params and m.group(1) in g.params[0][1]]
        if len(cands) != 1 or len(cands[0].blocks) > 60 or len(cands[0].params) != 2:
            return NotImplemented
        g = cands[0]
        from .summaries import deref_val, opt_none, opt_some
        opt = deref_val(self, st, args[0])
        env = args[1]
        if g.params[0][1].startswith("&") and not isinstance(env, (Ref, RefV)):
            env = RefV(env)
        wrap = lambda rv, dty=dty: opt_some(dty, rv)
        if isinstance(opt, Agg) and opt.variant == "None":
            return opt_none(dty)
        if isinstance(opt, Agg) and opt.variant == "Some":
            return ("inline-wrap", g, [env, opt.fields[0]], wrap)
        if isinstance(opt, Lazy) and re.match(r"^(std::option::|core::option::)?Option<", opt.ty.strip()):
            d = self.discr(st, opt)
            none_c, some_c = d == z3.BitVecVal(0, 64), d == z3.BitVecVal(1, 64)
            inner_ty = re.sub(r"^(std::option::|core::option::)?Option<(.*)>$", r"\2", opt.ty.strip())
            if self.feasible(st, none_c):
                s2 = st.fork()
                s2.pc.append(none_c)
                f2 = s2.stack[-1]
                self.write_place(s2, f2, dest, opt_none(dty))
                f2.bb, f2.ip = ret_bb, 0
                work.append(s2)
            if not self.feasible(st, some_c):
                raise Infeasible()
            st.pc.append(some_c)
            payload = self.lazy_child(st, opt, ("vfield", "Some", 0), inner_ty, ".Some.0")
            return ("inline-wrap", g, [env, payload], wrap)
        return NotImplemented

    def havoc(self, st, callee, args, dty):
        from . import summaries
        name = summaries.canon(callee)
        if self.report is not None:
            self.report.havoc.add(name)
        mutable = any(isinstance(a, Ref) and a.mut for a in args)
        key = None
        # an iterator advances: two calls, two results (opt-in: kernels written against the memoised behaviour model their iterators themselves)
        stateful = self.stateful_next and name.split("::")[-1] in ("next", "next_back") and bool(args) and isinstance(args[0], Ref)
        if self.pure_havoc and args and not stateful:          # a call without arguments is an allocation or an environment read, not a function of the inputs
            try:
                key = (name, dty, tuple(vkey(a) for a in args))
            except Exception:
                key = None
        # the values behind reference arguments AT CALL TIME (locals are overwritten later on the path)
        snap = []
        for a in args:
            if isinstance(a, Ref):
                try:
                    snap.append(self._read_key(st, a.key, a.path))
                    continue
                except Exception:
                    pass
            snap.append(a)
        if key is not None and key in self.havoc_memo:
            v = self.havoc_memo[key]
        else:
            v = self.fresh_lazy(dty, f"ret:{name}")
            if key is not None:
                self.havoc_memo[key] = v
            if isinstance(v, Lazy):
                self.havoc_calls[v.oid] = (name, args)
                self.havoc_snap[v.oid] = snap
                self.havoc_raw[v.oid] = callee
        st.trace.append(("havoc", name, args, v, snap))
        return v


class _Done:
    """wrapper to carry a finished outcome through the work list"""
    def __init__(self, out):
        self.out = out


def derives_from(ex, v, oid, depth=0, st=None):
    """does value v structurally contain the lazy object `oid` or one of its (transitive) children?"""
    if depth > 12:
        return False
    if isinstance(v, Ref) and st is not None:
        try:
            return derives_from(ex, ex._read_key(st, v.key, v.path), oid, depth + 1, st)
        except Exception:
            return False
    if isinstance(v, Lazy):
        o = v.oid
        while o is not None:
            if o == oid:
                return True
            o = ex.parent.get(o, (None,))[0]
        return False
    if isinstance(v, Agg):
        return any(derives_from(ex, f, oid, depth + 1, st) for f in v.fields if f is not None)
    if isinstance(v, RefV):
        return derives_from(ex, v.v, oid, depth + 1, st)
    return False


AUTO_INLINE = False
AUTO_INLINE_ONLY = set()       # when not empty: only while one of these functions is the one under analysis
AUTO_INLINED = set()
_KNOWN = None


def _known_names():
    """identifiers that occur in the checker's sources"""
    global _KNOWN
    if _KNOWN is None:
        import glob
        txt = ""
        here = os.path.dirname(os.path.abspath(__file__))
        for p in glob.glob(os.path.join(here, "*.py")) + glob.glob(os.path.join(here, "props", "*.py")):
            txt += open(p).read()
        _KNOWN = set(re.findall(r"[A-Za-z_][A-Za-z0-9_]*", txt))
    return _KNOWN


class Infeasible(Exception):
    pass


class DepthExceeded(Exception):
    pass



"""Compositional model of StyLua's expression formatter, extracted from MIR (DESIGN.md section 3.1 "compositional mode").

Stage 1 (ExprRules): every function of the encoded set is executed once by mirsym on a fully symbolic node; recursive calls and
calls to other members of the set are recorded, leaves are identity-summarised, width/comment predicates are havoc'd.  Each path
becomes a rule (guard, output shape, recorded calls).
Stage 2 (Composer): for a concrete tree *shape* with symbolic operators / leaf kinds, every (function, node, context) instance
gets a result constant constrained to be the output of one of the rules whose guard holds; the oracle is asserted on the root.
"""
import itertools, re, z3

from . import mirsym
from .common import Inconclusive
from .mirsym import Sym, Str, Agg, Lazy, Ref, RefV, FnItem, UNIT
from .summaries import canon, deref_val

BV = lambda v: z3.BitVecVal(v, 64)

ENCODED = ["format_expression", "format_expression_internal", "format_hanging_expression_", "hang_binop_expression", "hang_expression"]
IDENTITY_FIRST_ARG = re.compile(
    r"(<.* as (UpdateLeadingTrivia|UpdateTrailingTrivia|UpdateTrivia)>::(update_leading_trivia|update_trailing_trivia|update_trivia)"
    r"|strip_trivia|strip_leading_trivia|strip_trailing_trivia|(formatters::)?(trivia_util::)?(expression_)?remove_leading_newlines?)$")
IDENTITY_OP = {"format_binop": 1, "format_unop": 1, "hang_binop": 1}     # callee -> index of the operator argument


class Node:
    """concrete tree shape; operators and leaf kinds are symbolic"""
    _ids = itertools.count()

    def __init__(self, kind, kids=()):
        self.kind, self.kids = kind, list(kids)
        self.id = next(Node._ids)
        self.op = z3.BitVec(f"op{self.id}", 64) if kind in ("Bin", "Un") else None
        self.var = z3.BitVec(f"leafvar{self.id}", 64) if kind == "Leaf" else None
        self.sym = z3.BitVec(f"leafsym{self.id}", 64) if kind == "Leaf" else None

    def nodes(self):
        yield self
        for k in self.kids:
            yield from k.nodes()

    def depth(self):
        return 1 + max([k.depth() for k in self.kids], default=0)

    def show(self):
        if self.kind == "Leaf": return "x"
        if self.kind == "Par": return "(" + self.kids[0].show() + ")"
        if self.kind == "Un": return "u" + self.kids[0].show()
        if self.kind == "TA": return self.kids[0].show() + "::T"
        return "[" + self.kids[0].show() + " o " + self.kids[1].show() + "]"


class Rule:
    __slots__ = ("fn", "pc", "out", "calls", "kind", "roots", "idx", "info", "sigs", "members", "fv")


class ExprRules:
    """stage 1"""

    def __init__(self, ses, featureset, extra_encoded=()):
        self.ses, self.fs = ses, featureset
        self.et = ses.enums(featureset)
        self.encoded = list(ENCODED) + list(extra_encoded)
        self.inline_names = {"check_excess_parentheses"}
        self.ex = ses.executor("lib", featureset, hooks=[self.hook], lazy_depth=7,
                               inline=lambda n, f: canon(n).split("::")[-1] in self.inline_names, max_paths=8000)
        self.rules = {}
        self.sym_owner = None
        E = lambda v: self.et.index("Expression", v)
        self.idx = {v[0]: i for i, v in enumerate(self.et.variants("Expression"))}
        self.ctxidx = {v[0]: i for i, v in enumerate(self.et.variants("ExpressionContext"))}
        self.bop = {v[0]: i for i, v in enumerate(self.et.variants("BinOp"))}
        self.uop = {v[0]: i for i, v in enumerate(self.et.variants("UnOp"))}
        self.symidx = {v[0]: i for i, v in enumerate(self.et.variants("Symbol"))}
        self.ttidx = {v[0]: i for i, v in enumerate(self.et.variants("TokenType"))}
        self.prec = {v[0]: int(v[3]) for v in self.et.variants("BinOp")}
        self.fidx = {}
        for vn, kind, fields, _ in self.et.variants("Expression"):
            for i, (fname, _) in enumerate(fields):
                self.fidx[(vn, fname)] = i
                self.fidx[(vn, i)] = fname

    # ---------------------------------------------------------------- leaf summaries
    def hook(self, ex, st, callee, args, dty):
        c = canon(callee)
        last = c.split("::")[-1]
        if IDENTITY_FIRST_ARG.search(c):
            return deref_val(ex, st, args[0])
        if last in IDENTITY_OP and len(args) > IDENTITY_OP[last]:
            return deref_val(ex, st, args[IDENTITY_OP[last]])
        if last == "take_trailing_comments" or last == "take_leading_comments":
            return Agg(dty, None, [deref_val(ex, st, args[0]), ex.fresh_lazy("Vec<Token>", "comments")])
        if c in ("Token::token_type", "full_moon::tokenizer::Token::token_type"):
            tok = deref_val(ex, st, args[0])
            if isinstance(tok, Lazy):
                return RefV(ex.lazy_child(st, tok, ("get", "token_type"), "full_moon::tokenizer::TokenType", ".token_type"))
        if c in ("BinOp::precedence", "full_moon::ast::BinOp::precedence"):
            b = deref_val(ex, st, args[0])
            d = ex.discr(st, b)
            t = z3.BitVecVal(0, 8)
            for name, i in self.bop.items():
                t = z3.If(d == BV(i), z3.BitVecVal(self.prec[name], 8), t)
            return Sym(t, "u8")
        if c in ("BinOp::is_right_associative", "full_moon::ast::BinOp::is_right_associative"):
            b = deref_val(ex, st, args[0])
            d = ex.discr(st, b)
            return Sym(z3.Or(d == BV(self.bop["Caret"]), d == BV(self.bop["TwoDots"])), "bool")
        return NotImplemented

    # ---------------------------------------------------------------- extraction
    def extract(self, fname, report=None):
        """stage 1 for one function. Helpers of the crate whose result ends up (opaquely) in the output are inlined on demand,
        so that extracting a helper function out of an encoded function does not blind the check."""
        for _round in range(5):
            rules = self.extract_once(fname)
            need = set()
            for r in self.raw_rules[fname]:
                for m in re.finditer(r"\('opaque', 'ret:([A-Za-z0-9_:<> ]+?)'\)", repr(r.out)):
                    nm = m.group(1).split("::")[-1]
                    if nm not in self.inline_names and nm not in self.encoded and self.ex.resolve(m.group(1)) is not None:
                        need.add(nm)
            if not need:
                return rules
            self.inline_names |= need
        return rules

    def extract_once(self, fname):
        ex = self.ex
        fn = self.ses.need(ex, fname)
        args, roots = [], {}
        for p, t in fn.params:
            bare = t.lstrip("&").strip()
            v = ex.fresh_lazy(bare, p)
            role = None
            if re.search(r"(^|::)Expression$", bare): role = "e"
            elif re.search(r"(^|::)ExpressionContext$", bare): role = "ctx"
            elif re.search(r"(^|::)BinOp$", bare): role = "topop"
            elif re.search(r"(^|::)Prefix$", bare): role = "prefix"
            if role and isinstance(v, Lazy):
                roots[v.oid] = role
            args.append(RefV(v) if t.startswith("&") else v)
        outs = ex.run(fn, args)
        rules = []
        for o in outs:
            if o.kind == "depth":
                continue
            r = Rule()
            r.fn, r.pc, r.roots, r.kind = fname, list(o.pc), roots, o.kind
            r.info = o.info
            r.calls = {}
            if o.kind == "return":
                r.out = self.to_ir(o.state, o.value, r)
            elif o.kind == "panic":
                r.out = ("panic", str(o.value))
            else:
                continue
            r.idx = len(rules)
            rules.append(r)
        self.rules[fname] = self.group(rules)
        self.raw_rules = getattr(self, "raw_rules", {})
        self.raw_rules[fname] = rules
        return self.rules[fname]

    def group(self, rules):
        """merge paths with the same output shape and the same recorded calls: their guards are disjoined. Calls are keyed by
        signature (callee, argument node path, context) instead of by the identity of the result object."""
        from .props.c19 import free_vars
        groups = {}
        for r in rules:
            oid2sig = {}
            sigs = {}
            for oid, c in r.calls.items():
                sg = (c["fn"], repr(c["e"]), repr(c["ctx"]))
                oid2sig[oid] = sg
                sigs[sg] = c
            out = self.rewrite_calls(r.out, oid2sig)
            key = (r.kind, repr(out), tuple(sorted(sigs)))
            g = groups.get(key)
            if g is None:
                g = Rule()
                g.fn, g.kind, g.out, g.roots, g.info = r.fn, r.kind, out, r.roots, r.info
                g.calls, g.pc, g.idx = {}, [], len(groups)
                g.sigs, g.members = {}, []
                groups[key] = g
            g.calls.update(oid2sig)          # result oid -> signature
            g.sigs.update(sigs)
            g.members.append(z3.And(r.pc) if r.pc else z3.BoolVal(True))
        for g in groups.values():
            g.pc = [z3.Or(g.members) if len(g.members) > 1 else g.members[0]]
            g.fv = free_vars(g.pc[0], {})
        return list(groups.values())

    def rewrite_calls(self, ir, oid2sig):
        if isinstance(ir, tuple):
            if ir and ir[0] == "call":
                return ("call", oid2sig[ir[1]])
            return tuple(self.rewrite_calls(x, oid2sig) for x in ir)
        if isinstance(ir, list):
            return [self.rewrite_calls(x, oid2sig) for x in ir]
        return ir

    def path_of(self, lz, roots, extra_roots=None):
        """access path of a lazy object: (root role or ('res', oid), [keys])"""
        keys = []
        o = lz.oid
        while True:
            if o in roots:
                return roots[o], list(reversed(keys))
            if extra_roots is not None and o in extra_roots:
                return ("res", o), list(reversed(keys))
            par = self.ex.parent.get(o)
            if par is None:
                return None, list(reversed(keys))
            keys.append(par[1])
            o = par[0]

    def to_ir(self, st, v, rule, depth=0):
        ex = self.ex
        if depth > 12:
            return ("opaque", "deep")
        if isinstance(v, (Ref, RefV)):
            return self.to_ir(st, deref_val(ex, st, v), rule, depth + 1)
        if isinstance(v, Agg) and v.variant is not None and re.search(r"(^|::)Expression$", v.ty or ""):
            f = v.fields
            vn = v.variant
            if vn == "BinaryOperator":
                return ("bin", self.op_ir(st, f[self.fidx[(vn, "binop")]], rule), self.to_ir(st, f[self.fidx[(vn, "lhs")]], rule, depth + 1),
                        self.to_ir(st, f[self.fidx[(vn, "rhs")]], rule, depth + 1))
            if vn == "UnaryOperator":
                return ("un", self.op_ir(st, f[self.fidx[(vn, "unop")]], rule), self.to_ir(st, f[self.fidx[(vn, "expression")]], rule, depth + 1))
            if vn == "Parentheses":
                return ("par", self.to_ir(st, f[self.fidx[(vn, "expression")]], rule, depth + 1))
            if vn == "TypeAssertion":
                return ("ta", self.to_ir(st, f[self.fidx[(vn, "expression")]], rule, depth + 1))
            # leaf variant wrapping a formatted payload: identify the input leaf the payload came from
            src = None
            for a in f:
                src = src or self.source_node(st, a, rule)
            return ("leafc", vn, src)
        if isinstance(v, Agg) and v.variant is not None and re.search(r"(^|::)Prefix$", v.ty or ""):
            if v.variant == "Expression":
                return ("prefix-expr", self.to_ir(st, v.fields[0], rule, depth + 1))
            return ("prefix-name",)
        if isinstance(v, Lazy):
            hc = ex.havoc_calls.get(v.oid)
            if hc is not None and hc[0].split("::")[-1] in self.encoded:
                rule.calls[v.oid] = self.call_ir(st, hc, rule)
                return ("call", v.oid)
            root, keys = self.path_of(v, rule.roots)
            if root == "e":
                return ("in", keys)
            return ("opaque", v.label)
        return ("opaque", repr(v)[:60])

    def source_node(self, st, a, rule):
        """input-rooted path of the node a leaf payload was computed from (argument of the havoc'd leaf formatter)"""
        ex = self.ex
        a = deref_val(ex, st, a) if isinstance(a, (Ref, RefV)) else a
        if isinstance(a, Lazy):
            root, keys = self.path_of(a, rule.roots)
            if root == "e":
                return keys
            hc = ex.havoc_calls.get(a.oid)
            if hc is not None:
                for arg in hc[1]:
                    s = self.source_node(st, arg, rule)
                    if s is not None:
                        return s
        return None

    def op_ir(self, st, v, rule):
        ex = self.ex
        v = deref_val(ex, st, v) if isinstance(v, (Ref, RefV)) else v
        if isinstance(v, Lazy):
            root, keys = self.path_of(v, rule.roots)
            if root in ("e", "topop"):
                return ("in", root, keys)
            return ("opaque", v.label)
        if isinstance(v, Agg) and v.variant:
            return ("const", v.variant)
        return ("opaque", repr(v)[:40])

    def call_ir(self, st, hc, rule):
        ex = self.ex
        name, cargs = hc
        d = {"fn": name.split("::")[-1], "e": None, "ctx": None}
        for a in cargs:
            av = deref_val(ex, st, a) if isinstance(a, (Ref, RefV)) else a
            ty = av.ty if isinstance(av, (Lazy, Agg)) else ""
            if isinstance(av, Lazy) and re.search(r"(^|::)Expression$", ty or ""):
                root, keys = self.path_of(av, rule.roots)
                d["e"] = ("in", keys) if root == "e" else ("opaque", av.label)
            elif re.search(r"(^|::)ExpressionContext$", ty or ""):
                if isinstance(av, Agg):
                    d["ctx"] = ("const", av.variant)
                else:
                    root, keys = self.path_of(av, rule.roots)
                    d["ctx"] = ("param",) if root == "ctx" and not keys else ("opaque", av.label)
        return d

    def describe(self, r):
        return {"fn": r.fn, "kind": r.kind, "out": repr(r.out)[:200], "calls": {str(k): v for k, v in r.calls.items()}, "guards": len(r.pc)}


# ---------------------------------------------------------------------------------------------- stage 2
# Python trees ("PT") with z3 terms at the symbolic positions:
#   ("Bin", op, l, r) | ("Un", op, e) | ("Par", e) | ("TA", e) | ("Leaf", var, sym, id)
def pt_key(t):
    k = t[0]
    if k == "Bin": return ("B", t[1].sexpr(), pt_key(t[2]), pt_key(t[3]))
    if k == "Un": return ("U", t[1].sexpr(), pt_key(t[2]))
    if k in ("Par", "TA"): return (k, pt_key(t[1]))
    return ("L", t[1].sexpr(), t[2].sexpr(), t[3])


def pt_show(t, m=None, names=None):
    k = t[0]
    ev = (lambda x: m.eval(x, model_completion=True).as_long()) if m is not None else (lambda x: x)
    if k == "Bin": return f"[{pt_show(t[2], m, names)} <{names['b'].get(ev(t[1]), ev(t[1])) if names else ev(t[1])}> {pt_show(t[3], m, names)}]"
    if k == "Un": return f"<{names['u'].get(ev(t[1]), ev(t[1])) if names else ev(t[1])}>{pt_show(t[2], m, names)}"
    if k == "Par": return "(" + pt_show(t[1], m, names) + ")"
    if k == "TA": return pt_show(t[1], m, names) + "::T"
    return f"leaf{t[3]}" + (f":{names['e'].get(ev(t[1]), ev(t[1]))}" if names else "")


class Composer:
    def __init__(self, R, root):
        self.R, self.root = R, root
        self.memo = {}
        self.fresh = itertools.count()
        self.panics = []
        self.inconclusive = []
        self.instances = 0
        if R.sym_owner is None:
            R.sym_owner = {}
            for (oid, key), v in R.ex.lazy_tab.items():
                t = v.t if isinstance(v, Sym) else v if z3.is_expr(v) else None
                if t is not None and z3.is_const(t):
                    R.sym_owner[t.decl().name()] = (oid, key)

    def in_pt(self, n):
        if n.kind == "Bin": return ("Bin", n.op, self.in_pt(n.kids[0]), self.in_pt(n.kids[1]))
        if n.kind == "Un": return ("Un", n.op, self.in_pt(n.kids[0]))
        if n.kind in ("Par", "TA"): return (n.kind, self.in_pt(n.kids[0]))
        return ("Leaf", n.var, n.sym, n.id)

    # -------------------------------------------------------------- navigation on PT
    def discr_of(self, obj):
        kind, t = obj
        R = self.R
        if kind == "expr":
            I = R.idx
            return {"Bin": BV(I["BinaryOperator"]), "Un": BV(I["UnaryOperator"]), "Par": BV(I["Parentheses"]),
                    "TA": BV(I.get("TypeAssertion", 99))}.get(t[0], t[1] if t[0] == "Leaf" else None)
        if kind in ("binop", "unop", "sym", "ctx"):
            return t
        if kind == "tt":
            return BV(R.ttidx["Symbol"])
        return None

    def nav(self, obj, key):
        kind, t = obj
        R = self.R
        if key == ("deref",):
            return obj
        if kind == "expr" and key[0] == "vfield":
            vn, i = key[1], key[2]
            fname = R.fidx.get((vn, i))
            want = {"BinaryOperator": "Bin", "UnaryOperator": "Un", "Parentheses": "Par", "TypeAssertion": "TA"}.get(vn)
            if want is not None:
                if t[0] != want:
                    return "mismatch"
                if want == "Bin":
                    return {"lhs": ("expr", t[2]), "binop": ("binop", t[1]), "rhs": ("expr", t[3])}.get(fname)
                if want == "Un":
                    return {"unop": ("unop", t[1]), "expression": ("expr", t[2])}.get(fname)
                return {"expression": ("expr", t[1])}.get(fname)
            if t[0] != "Leaf":
                return "mismatch"
            if vn == "Symbol":
                return ("tokref", t)
            return None
        if kind == "tokref" and key[0] == "derefto":
            return ("token", t)
        if kind == "token" and key == ("get", "token_type"):
            return ("tt", t)
        if kind == "tt" and key[0] == "vfield" and key[1] == "Symbol":
            return ("sym", t[2])
        return None

    def owner_root(self, oid, rule):
        keys = []
        o = oid
        while True:
            if o in rule.roots:
                return rule.roots[o], list(reversed(keys))
            if o in rule.calls:
                return ("res", o), list(reversed(keys))
            par = self.R.ex.parent.get(o)
            if par is None:
                return None, []
            keys.append(par[1]); o = par[0]

    def resolve(self, name, rule, node_pt, ctx, results):
        """-> z3 term | None (unconstrained) | 'pending' (needs a call result not chosen yet) | 'false' (variant mismatch)"""
        own = self.R.sym_owner.get(name)
        if own is None:
            return None
        oid, key = own
        root, keys = self.owner_root(oid, rule)
        if root is None or root == "topop" or root == "prefix":
            return None
        if root == "e":
            obj = ("expr", node_pt)
        elif root == "ctx":
            obj = ("ctx", BV(self.R.ctxidx[ctx]))
        else:
            sg = rule.calls[root[1]]
            if results is None or sg not in results:
                return "pending"
            obj = ("expr", results[sg])
        for k in keys:
            obj = self.nav(obj, k)
            if obj is None:
                return None
            if isinstance(obj, str):
                return "false"
        if key == ("discr",):
            return self.discr_of(obj)
        return None

    def subst(self, terms, rule, node_pt, ctx, results, iid):
        """substitute stage-1 symbols. returns (list of terms, pending?) ; a term that reads a field of a variant the node does
        not have makes the whole guard false (the path's own discriminant test fails first)"""
        fv = rule.fv
        sub, pending = [], False
        for n, v in fv.items():
            r = self.resolve(n, rule, node_pt, ctx, results)
            if isinstance(r, str):
                if r == "pending":
                    pending = True
                    continue
                r = None          # field of another variant: value irrelevant, leave free
            if r is None:
                r = z3.Const(f"{n}!{iid}", v.sort())
            elif r.sort() != v.sort():
                if z3.is_bv_sort(v.sort()) and z3.is_bv_sort(r.sort()):
                    r = z3.Extract(v.sort().size() - 1, 0, r) if r.sort().size() > v.sort().size() else z3.ZeroExt(v.sort().size() - r.sort().size(), r)
                else:
                    r = z3.Const(f"{n}!{iid}", v.sort())
            sub.append((v, r))
        return [z3.substitute(t, *sub) if sub else t for t in terms], pending

    def py_nav(self, node, keys):
        R = self.R
        for k in keys:
            if k == ("deref",):
                continue
            if k[0] == "vfield":
                vn, i = k[1], k[2]
                fname = R.fidx.get((vn, i))
                want = {"BinaryOperator": "Bin", "UnaryOperator": "Un", "Parentheses": "Par", "TypeAssertion": "TA"}.get(vn)
                if want is None:
                    continue          # payload of a leaf variant
                if node.kind != want:
                    return None
                if want == "Bin":
                    if fname == "lhs": node = node.kids[0]
                    elif fname == "rhs": node = node.kids[1]
                    else: return None
                else:
                    if fname == "expression": node = node.kids[0]
                    else: return None
            else:
                return None
        return node

    def call_sig(self, c, node, ctx):
        if not (c["e"] and c["e"][0] == "in"):
            return None
        n2 = self.py_nav(node, c["e"][1])
        if n2 is None:
            return "mismatch"
        if c["ctx"] is None:
            cx = "Standard" if c["fn"] in ("format_expression", "hang_expression") else None
        elif c["ctx"][0] == "const":
            cx = c["ctx"][1]
        elif c["ctx"][0] == "param":
            cx = ctx
        else:
            cx = None
        if cx is None:
            return None
        return (c["fn"], n2, cx)

    # -------------------------------------------------------------- evaluation
    def eval(self, fn, node, ctx):
        """-> list of (guard, PT) alternatives (de-duplicated by tree)"""
        key = (fn, node.id, ctx)
        if key in self.memo:
            return self.memo[key]
        rules = self.R.rules.get(fn)
        if rules is None:
            raise Inconclusive(f"no rules for {fn}")
        node_pt = self.in_pt(node)
        alts = {}
        for rule in rules:
            self.instances += 1
            iid = next(self.fresh)
            g0, pending = self.subst(rule.pc, rule, node_pt, ctx, None, iid)
            g0s = z3.simplify(g0[0])
            if z3.is_false(g0s):
                continue
            if rule.kind == "panic":
                self.panics.append((fn, node.id, ctx, rule, g0s))
                continue
            sigs = {}
            bad = None
            for sg, c in rule.sigs.items():
                cs = self.call_sig(c, node, ctx)
                if cs is None or cs == "mismatch":
                    bad = cs or "unmodelled"
                    break
                sigs[sg] = cs
            if bad == "mismatch":
                continue             # the rule destructures a variant this node does not have
            if bad:
                self.inconclusive.append(f"{fn}: rule {rule.idx}: call not modelled {rule.sigs}")
                continue
            child = {sg: self.eval(*cs) for sg, cs in sigs.items()}
            keys_ = list(child)
            for combo in itertools.product(*[child[k] for k in keys_]):
                results = {k: c[1] for k, c in zip(keys_, combo)}
                gchild = [c[0] for c in combo]
                out = self.out_pt(rule.out, node, results)
                if out is None:
                    self.inconclusive.append(f"{fn}: rule {rule.idx} output {rule.out!r} not modelled")
                    continue
                if pending:
                    g1, _ = self.subst(rule.pc, rule, node_pt, ctx, results, iid)
                    g = z3.simplify(z3.And(g1 + gchild))
                else:
                    g = z3.simplify(z3.And([g0s] + gchild))
                if z3.is_false(g):
                    continue
                k = pt_key(out)
                if k in alts:
                    alts[k] = (z3.Or(alts[k][0], g), out)
                else:
                    alts[k] = (g, out)
        res = self.merge_leaves(list(alts.values()), node)
        self.memo[key] = res
        return res

    def merge_leaves(self, alts, node):
        """leaf alternatives that differ only in the (constant) variant written under pairwise disjoint guards -> one alternative
        whose variant is an if-then-else over the guards"""
        if len(alts) < 2 or any(t[0] != "Leaf" for _, t in alts):
            return alts
        for (g1, _), (g2, _) in itertools.combinations(alts, 2):
            if not z3.is_false(z3.simplify(z3.And(g1, g2))):
                s_ = z3.Solver(); s_.add(g1, g2)
                if s_.check() != z3.unsat:
                    return alts
        var = alts[-1][1][1]
        sym = alts[-1][1][2]
        if any(t[3] != alts[0][1][3] or t[2].sexpr() != sym.sexpr() for _, t in alts):
            return alts
        for g, t in alts[:-1]:
            var = z3.If(g, t[1], var)
        return [(z3.Or([g for g, _ in alts]), ("Leaf", var, sym, alts[0][1][3]))]

    def ir_key(self, ir, sigs):
        if ir[0] == "call":
            s_ = sigs.get(ir[1])
            return ("call", s_[0], s_[1].id, s_[2]) if s_ else ("call?",)
        return tuple(self.ir_key(x, sigs) if isinstance(x, tuple) and x and isinstance(x[0], str) and x[0] in ("bin", "un", "par", "ta", "call", "in", "leafc", "opaque", "const") else repr(x) for x in ir)

    def out_pt(self, ir, node, results):
        k = ir[0]
        if k == "bin":
            op = self.op_term(ir[1], node)
            l, r = self.out_pt(ir[2], node, results), self.out_pt(ir[3], node, results)
            return None if op is None or l is None or r is None else ("Bin", op, l, r)
        if k == "un":
            op = self.op_term(ir[1], node)
            e = self.out_pt(ir[2], node, results)
            return None if op is None or e is None else ("Un", op, e)
        if k in ("par", "ta"):
            e = self.out_pt(ir[1], node, results)
            return None if e is None else ("Par" if k == "par" else "TA", e)
        if k == "call":
            return results.get(ir[1])
        if k == "in":
            n = self.py_nav(node, ir[1])
            return None if n is None else self.in_pt(n)
        if k == "leafc":
            n = self.py_nav(node, ir[2]) if ir[2] is not None else None
            if n is None or n.kind != "Leaf":
                return None
            return ("Leaf", BV(self.R.idx[ir[1]]), n.sym, n.id)
        return None

    def op_term(self, ir, node):
        if ir[0] == "in" and ir[1] == "e":
            obj = ("expr", self.in_pt(node))
            for k in ir[2]:
                obj = self.nav(obj, k)
                if obj is None or isinstance(obj, str):
                    return None
            return obj[1] if obj[0] in ("binop", "unop") else None
        if ir[0] == "const":
            i = self.R.bop.get(ir[1], self.R.uop.get(ir[1]))
            return None if i is None else BV(i)
        return None


# ---------------------------------------------------------------------------------------------- oracle (Lua/Luau grammar)
class Oracle:
    """written from the Lua 5.1-5.4 / Luau reference manuals, not from StyLua; evaluated structurally on PT trees, producing
    z3 formulas over the symbolic operators / leaf kinds."""
    PREC = {"Or": 1, "And": 2, "LessThan": 3, "GreaterThan": 3, "LessThanEqual": 3, "GreaterThanEqual": 3, "TildeEqual": 3, "TwoEqual": 3,
            "Pipe": 4, "Tilde": 5, "Ampersand": 6, "DoubleLessThan": 7, "DoubleGreaterThan": 7, "TwoDots": 9, "Plus": 10, "Minus": 10,
            "Star": 11, "Slash": 11, "DoubleSlash": 11, "Percent": 11, "Caret": 14}
    UNARY = 12
    RIGHT = {"TwoDots", "Caret"}

    def __init__(self, R):
        self.R = R
        self.bops = R.bop
        self.minus = BV(R.uop["Minus"])

    def prec(self, op):
        t = z3.IntVal(0)
        for n, i in self.bops.items():
            t = z3.If(op == BV(i), z3.IntVal(self.PREC[n]), t)
        return t

    def right(self, op):
        return z3.Or([op == BV(self.bops[n]) for n in self.RIGHT if n in self.bops])

    def valid_ops(self, root):
        cs = []
        for n in root.nodes():
            if n.kind == "Bin":
                cs.append(z3.ULT(n.op, BV(len(self.bops))))
            elif n.kind == "Un":
                cs.append(z3.ULT(n.op, BV(len(self.R.uop))))
            elif n.kind == "Leaf":
                leafs = [self.R.idx[v] for v in ("Var", "Number", "String", "FunctionCall", "TableConstructor", "Function", "Symbol") if v in self.R.idx]
                if "IfExpression" in self.R.idx:
                    leafs += [self.R.idx["IfExpression"], self.R.idx["InterpolatedString"]]
                cs.append(z3.Or([n.var == BV(i) for i in leafs]))
                S = self.R.symidx
                cs.append(z3.Or([n.sym == BV(S[x]) for x in ("Ellipsis", "Nil", "True", "False")]))
        # no single dialect accepts Luau-only and Lua 5.3-only constructs together
        luau, l53 = [], []
        for n in root.nodes():
            if n.kind == "TA":
                luau.append(z3.BoolVal(True))
            elif n.kind == "Leaf":
                luau += [n.var == BV(self.R.idx[v]) for v in ("IfExpression", "InterpolatedString") if v in self.R.idx]
            elif n.kind == "Bin":
                l53 += [n.op == BV(self.bops[v]) for v in ("DoubleLessThan", "DoubleGreaterThan", "Ampersand", "Tilde", "Pipe") if v in self.bops]
            elif n.kind == "Un" and "Tilde" in self.R.uop:
                l53.append(n.op == BV(self.R.uop["Tilde"]))
        if luau and l53:
            cs.append(z3.Not(z3.And(z3.Or(luau), z3.Or(l53))))
        return cs

    def is_multi(self, t):
        I, S = self.R.idx, self.R.symidx
        if t[0] != "Leaf":
            return z3.BoolVal(False)
        return z3.Or(t[1] == BV(I["FunctionCall"]), z3.And(t[1] == BV(I["Symbol"]), t[2] == BV(S["Ellipsis"])))

    def open_if(self, t):
        """the printed form ends with an unparenthesised Luau if-expression (which swallows whatever follows)"""
        I = self.R.idx
        if "IfExpression" not in I:
            return z3.BoolVal(False)
        if t[0] == "Leaf": return t[1] == BV(I["IfExpression"])
        if t[0] == "Bin": return self.open_if(t[3])
        if t[0] == "Un": return self.open_if(t[2])
        return z3.BoolVal(False)

    def wf(self, t, source=False):
        """print(t) parses back to t: every operand sits where the grammar allows it without parentheses.
        source=True: t is the INPUT as written - there `- -x` (with a blank) is legal; the printer never emits that blank, so for an
        output tree a minus directly over a minus is `--x`, a comment"""
        k = t[0]
        if k == "Bin":
            op, l, r = t[1], t[2], t[3]
            p = self.prec(op)
            cs = [self.wf(l, source), self.wf(r, source), z3.Not(self.open_if(l))]
            if l[0] == "Bin":
                cs.append(z3.Or(self.prec(l[1]) > p, z3.And(self.prec(l[1]) == p, z3.Not(self.right(op)))))
            elif l[0] == "Un":
                cs.append(z3.IntVal(self.UNARY) > p)
            elif l[0] == "TA":
                # `x :: T op y` parses as `(x :: T) op y` for every operator except `<`, which the type parser takes for the start of a generic
                # argument list (checked against full_moon: `a :: T < b` is a parse error, all other operators are accepted)
                cs.append(op != BV(self.bops["LessThan"]) if "LessThan" in self.bops else z3.BoolVal(True))
            if r[0] == "Bin":
                cs.append(z3.Or(self.prec(r[1]) > p, z3.And(self.prec(r[1]) == p, self.right(op))))
            return z3.And(cs)
        if k == "Un":
            e = t[2]
            cs = [self.wf(e, source)]
            if e[0] == "Bin":
                cs.append(self.prec(e[1]) > z3.IntVal(self.UNARY))
            if e[0] == "Un" and not source:
                cs.append(z3.Not(z3.And(t[1] == self.minus, e[1] == self.minus)))
            return z3.And(cs)
        if k == "Par":
            return self.wf(t[1], source)
        if k == "TA":
            e = t[1]
            if e[0] == "Par": return self.wf(e, source)
            if e[0] == "Leaf": return z3.Not(self.open_if(e))
            return z3.BoolVal(False)
        return z3.BoolVal(True)

    def core(self, t):
        k = t[0]
        if k == "Bin": return ("Bin", t[1], self.core(t[2]), self.core(t[3]))
        if k == "Un": return ("Un", t[1], self.core(t[2]))
        if k == "Par": return self.core(t[1])
        if k == "TA": return ("TA", self.core(t[1]))
        return t

    def same(self, a, b):
        if a[0] != b[0]:
            return z3.BoolVal(False)
        k = a[0]
        if k == "Bin": return z3.And(a[1] == b[1], self.same(a[2], b[2]), self.same(a[3], b[3]))
        if k == "Un": return z3.And(a[1] == b[1], self.same(a[2], b[2]))
        if k in ("Par", "TA"): return self.same(a[1], b[1])
        if a[3] != b[3]: return z3.BoolVal(False)
        return z3.And(a[1] == b[1], a[2] == b[2])

    def truncates(self, t):
        if t[0] != "Par":
            return z3.BoolVal(False)
        return z3.Or(self.is_multi(t[1]), self.truncates(t[1]))

    def good(self, tin, tout, prefix=False):
        ok = [self.wf(tout), self.same(self.core(tout), self.core(tin)), self.truncates(tout) == self.truncates(tin)]
        if prefix:
            I = self.R.idx
            c = self.core(tin)
            if c[0] == "Leaf":
                needs = z3.Not(z3.Or(c[1] == BV(I["Var"]), c[1] == BV(I["FunctionCall"])))
            else:
                needs = z3.BoolVal(True)
            ok.append(z3.Implies(needs, z3.BoolVal(tout[0] == "Par")))
        return z3.And(ok)


# ---------------------------------------------------------------------------------------------- shapes
def shapes(max_ops, max_par=1, with_ta=False):
    """all tree shapes with at most max_ops operator nodes; every edge (and the root) optionally wrapped in up to max_par parens"""
    def wrap(mk):
        for k in range(max_par + 1):
            yield (lambda mk=mk, k=k: _wrapn(mk(), k))

    def gen(n):
        # yields constructors (thunks) of shapes with exactly n operator nodes, unwrapped at the top
        if n == 0:
            yield lambda: Node("Leaf")
            return
        for sub in gen(n - 1):
            for w in wrap(sub):
                yield (lambda w=w: Node("Un", [w()]))
                if with_ta:
                    yield (lambda w=w: Node("TA", [w()]))
        for a in range(0, n):
            b = n - 1 - a
            for sa in gen(a):
                for sb in gen(b):
                    for wa in wrap(sa):
                        for wb in wrap(sb):
                            yield (lambda wa=wa, wb=wb: Node("Bin", [wa(), wb()]))
    for n in range(0, max_ops + 1):
        for g in gen(n):
            for w in wrap(g):
                yield w


def _wrapn(node, k):
    for _ in range(k):
        node = Node("Par", [node])
    return node

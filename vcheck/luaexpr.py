"""A small, independent Lua/Luau *expression* reader and printer used only by the replay oracles (never StyLua's own
verify_ast).  Grammar and precedences from the Lua 5.4 reference manual section 3.4.8 and the Luau grammar."""
import re

BIN_PREC = {"or": (1, 1), "and": (2, 2), "<": (3, 3), ">": (3, 3), "<=": (3, 3), ">=": (3, 3), "~=": (3, 3), "==": (3, 3),
            "|": (4, 4), "~": (5, 5), "&": (6, 6), "<<": (7, 7), ">>": (7, 7), "..": (9, 8), "+": (10, 10), "-": (10, 10),
            "*": (11, 11), "/": (11, 11), "//": (11, 11), "%": (11, 11), "^": (14, 13)}   # (left, right) priorities
UNARY_PRIORITY = 12
UNOPS = {"not", "-", "#", "~"}

TOKEN = re.compile(r"""
    (?P<ws>\s+) |
    (?P<lcomment>--\[(?P<ceq>=*)\[) |
    (?P<comment>--[^\n]*) |
    (?P<lstr>\[(?P<seq>=*)\[) |
    (?P<name>[A-Za-z_][A-Za-z0-9_]*) |
    (?P<num>0[xX][0-9a-fA-F_.pP+-]+|\d[\d_]*\.?[\d_]*(?:[eE][+-]?\d+)?|\.\d[\d_]*(?:[eE][+-]?\d+)?) |
    (?P<str>"(?:\\\r\n|\\.|[^"\\\n\r])*"|'(?:\\\r\n|\\.|[^'\\\n\r])*'|`(?:\\.|[^`\\])*`) |
    (?P<op>\.\.\.|\.\.=?|::|->|==|~=|<=|>=|<<|>>|//=?|\+=|-=|\*=|/=|%=|\^=|[-+*/%^\#&~|<>=(){}\[\];:,.?])
""", re.X | re.S)


class LuaSyntaxError(Exception):
    pass


def tokenize(src):
    toks, i, n = [], 0, len(src)
    while i < n:
        m = TOKEN.match(src, i)
        if not m:
            raise LuaSyntaxError(f"bad character at {i}: {src[i:i+10]!r}")
        k = m.lastgroup
        if k in ("ceq", "seq"):
            k = "lcomment" if m.group("lcomment") else "lstr"
        if m.group("lcomment") is not None:
            close = "]" + m.group("ceq") + "]"
            j = src.find(close, m.end())
            if j == -1:
                raise LuaSyntaxError("unterminated long comment")
            toks.append(("comment", src[i:j + len(close)]))
            i = j + len(close)
            continue
        if m.group("lstr") is not None:
            close = "]" + m.group("seq") + "]"
            j = src.find(close, m.end())
            if j == -1:
                raise LuaSyntaxError("unterminated long string")
            toks.append(("str", src[i:j + len(close)]))
            i = j + len(close)
            continue
        if m.group("ws") is not None:
            i = m.end(); continue
        if m.group("comment") is not None:
            toks.append(("comment", m.group("comment"))); i = m.end(); continue
        for g in ("name", "num", "str", "op"):
            if m.group(g) is not None:
                toks.append((g, m.group(g)))
                break
        i = m.end()
    return toks


KEYWORDS = {"and", "break", "do", "else", "elseif", "end", "false", "for", "function", "goto", "if", "in", "local", "nil", "not", "or",
            "repeat", "return", "then", "true", "until", "while"}


class Parser:
    def __init__(self, src):
        self.all = tokenize(src)
        self.comments = [t[1] for t in self.all if t[0] == "comment"]
        self.t = [t for t in self.all if t[0] != "comment"]
        self.i = 0

    def peek(self, k=0):
        return self.t[self.i + k] if self.i + k < len(self.t) else ("eof", "")

    def next(self):
        t = self.peek(); self.i += 1; return t

    def accept(self, v):
        if self.peek()[1] == v and self.peek()[0] in ("op", "name"):
            self.i += 1; return True
        return False

    def expect(self, v):
        if not self.accept(v):
            raise LuaSyntaxError(f"expected {v!r} got {self.peek()!r}")

    # expression := subexpr(0)
    def expr(self, limit=0):
        tk, tv = self.peek()
        if tv in UNOPS and (tk == "op" or tv == "not"):
            self.next()
            e = ("Un", tv, self.expr(UNARY_PRIORITY))
        else:
            e = self.simple()
        while True:
            tk, tv = self.peek()
            if (tk == "op" or tv in ("and", "or")) and tv in BIN_PREC and BIN_PREC[tv][0] > limit:
                self.next()
                r = self.expr(BIN_PREC[tv][1])
                e = ("Bin", tv, e, r)
            else:
                return e

    def simple(self):
        tk, tv = self.peek()
        if tk == "num":
            self.next(); e = ("Leaf", "Number", tv)
        elif tk == "str":
            self.next(); e = ("Leaf", "String", tv)
        elif tv in ("nil", "true", "false") and tk == "name":
            self.next(); e = ("Leaf", "Symbol", tv)
        elif tv == "..." and tk == "op":
            self.next(); e = ("Leaf", "Symbol", "...")
        elif tv == "{" and tk == "op":
            e = ("Leaf", "TableConstructor", self.table())
        elif tv == "function" and tk == "name":
            self.next(); e = ("Leaf", "Function", self.funcbody())
        elif tv == "if" and tk == "name":
            self.next()
            c = self.expr(); self.expect("then"); a = self.expr()
            parts = [("if", c, a)]
            while self.accept("elseif"):
                c2 = self.expr(); self.expect("then"); a2 = self.expr()
                parts.append(("elseif", c2, a2))
            self.expect("else")
            b = self.expr()
            e = ("Leaf", "IfExpression", repr((parts, b)))
        else:
            e = self.suffixed()
        if self.peek() == ("op", "::"):
            self.next()
            ty = self.type_()
            e = ("TA", e, ty)
        return e

    def type_(self):
        tk, tv = self.next()
        if tk != "name":
            raise LuaSyntaxError("type name expected")
        s = tv
        if self.peek() == ("op", "<"):
            # Luau reads `<` after a type name as the start of generic arguments: `x :: T < y` is not `(x :: T) < y` but a parse error
            raise LuaSyntaxError("`<` directly after a type name (read as a generic argument list)")
        if self.peek() == ("op", "?"):
            self.next(); s += "?"
        return s

    def primary(self):
        tk, tv = self.peek()
        if tk == "name" and tv not in KEYWORDS:
            self.next(); return ("Leaf", "Var", tv)
        if tv == "(" and tk == "op":
            self.next(); e = self.expr(); self.expect(")")
            return ("Par", e)
        raise LuaSyntaxError(f"unexpected {self.peek()!r}")

    def suffixed(self):
        e = self.primary()
        while True:
            tk, tv = self.peek()
            if tk == "op" and tv == ".":
                self.next(); nm = self.next()[1]; e = ("Leaf", "Var", ("index", e, nm))
            elif tk == "op" and tv == "[":
                self.next(); k = self.expr(); self.expect("]"); e = ("Leaf", "Var", ("index", e, k))
            elif tk == "op" and tv == ":":
                self.next(); nm = self.next()[1]; args = self.args(); e = ("Leaf", "FunctionCall", ("method", e, nm, args))
            elif (tk == "op" and tv in ("(", "{")) or tk == "str":
                args = self.args(); e = ("Leaf", "FunctionCall", ("call", e, args))
            else:
                return e

    def args(self):
        tk, tv = self.peek()
        if tk == "str":
            self.next(); return ("str", tv)
        if tv == "{":
            return ("table", self.table())
        self.expect("(")
        out = []
        if not self.accept(")"):
            out.append(self.expr())
            while self.accept(","):
                out.append(self.expr())
            self.expect(")")
        return tuple(out)

    def table(self):
        self.expect("{")
        fields = []
        while not self.accept("}"):
            tk, tv = self.peek()
            if tv == "[" and tk == "op":
                self.next(); k = self.expr(); self.expect("]"); self.expect("="); v = self.expr(); fields.append(("k", k, v))
            elif tk == "name" and self.peek(1) == ("op", "="):
                self.next(); self.next(); fields.append(("n", tv, self.expr()))
            else:
                fields.append(("v", self.expr()))
            if not (self.accept(",") or self.accept(";")):
                self.expect("}")
                break
        return tuple(fields)

    def funcbody(self):
        # only `function(...) end` bodies with balanced block keywords are needed
        depth, start = 1, self.i
        while depth:
            tk, tv = self.next()
            if tk == "eof":
                raise LuaSyntaxError("unterminated function")
            if tk == "name" and tv in ("function", "do", "then", "repeat"):
                if tv == "then":
                    continue
                depth += 1
            elif tk == "name" and tv == "if":
                depth += 1
            elif tk == "name" and tv in ("end", "until"):
                depth -= 1
        return tuple(t[1] for t in self.t[start:self.i])


def parse_local_expr(src, prefix="local x ="):
    """parse `local x = <expr>` (or `return <expr>`), return the expression tree; raises LuaSyntaxError"""
    p = Parser(src)
    for w in prefix.split():
        tk, tv = p.next()
        if tv != w:
            raise LuaSyntaxError(f"expected {w!r} got {tv!r}")
    e = p.expr()
    if p.peek()[0] != "eof":
        raise LuaSyntaxError(f"trailing tokens {p.peek()!r}")
    return e, p.comments


def strip(e, root=True):
    """semantic normal form: parentheses removed (grouping is in the tree), except a root-level truncation `(f())`/`(...)`"""
    k = e[0]
    if k == "Par":
        inner = e[1]
        core = inner
        while core[0] == "Par":
            core = core[1]
        if root and core[0] == "Leaf" and (core[1] == "FunctionCall" or (core[1] == "Symbol" and core[2] == "...")):
            return ("Trunc", strip(core, False))
        return strip(inner, root)
    if k == "Bin":
        return ("Bin", e[1], strip(e[2], False), strip(e[3], False))
    if k == "Un":
        return ("Un", e[1], strip(e[2], False))
    if k == "TA":
        return ("TA", strip(e[1], False), e[2])
    if k == "Leaf" and isinstance(e[2], tuple):
        return ("Leaf", e[1], _strip_deep(e[2]))
    return e


def _strip_deep(x):
    if isinstance(x, tuple):
        if x and x[0] in ("Bin", "Un", "Par", "TA", "Leaf") and len(x) >= 2 and isinstance(x[0], str):
            try:
                return strip(x, True)
            except Exception:
                pass
        return tuple(_strip_deep(y) for y in x)
    return x


def to_src(e):
    k = e[0]
    if k == "Bin": return f"{to_src(e[2])} {e[1]} {to_src(e[3])}"
    if k == "Un": return (e[1] + " " if e[1] == "not" else e[1]) + to_src(e[2])
    if k == "Par": return "(" + to_src(e[1]) + ")"
    if k == "TA": return f"{to_src(e[1])} :: {e[2]}"
    return e[2] if isinstance(e[2], str) else "?"

"""C09 — range formatting touches only statements inside the range (shares its encoding with C08: vcheck/ignoremodel.py)."""
from .. import ignoremodel
from . import c08


def run(ses, rep):
    if rep.tier != "quick":
        ignoremodel.K_TOKENS, ignoremodel.K_LINES, ignoremodel.VISITS = 3, 3, 14
    rep.assumptions += ["node positions are byte offsets with end = offset after the last byte (full_moon); the range is inclusive (Range doc comment)",
                        "to_owned()/clone() of a full_moon node is lossless (full_moon contract)"]
    rep.outside += ["statements wholly inside the range come out as in whole-file formatting (needs the whole formatter; replay scenarios only)",
                    "the block-only visitors format_stmt_block / format_last_stmt_block are not encoded: a NotInRange statement is only "
                    "checked to be handed to them"]
    flagged = c08.analyses(ses, rep)
    rep.samples.append({"flagged": [(f[0], f[1]) for f in flagged][:5]})
    c08.confirm(rep, flagged, c08.RANGE_BATTERY, "C09", ("range", "both"))


replay = c08.replay

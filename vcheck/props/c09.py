"""C09 — range formatting touches only statements inside the range (shares its encoding with C08: vcheck/ignoremodel.py)."""
from .. import ignoremodel
from . import c08


def context_keeps_range(ses, rep):
    """Context::new stores the range it is given, bounds untouched (an inverted or empty range selects nothing - it is not "repaired")"""
    import z3
    from ..mirsym import Agg, Lazy, RefV
    from ..summaries import deref_val
    flagged = []
    ex = ses.executor("lib", "default", inline=lambda n, f: False)
    cands = [g for n, l in ex.funcs.items() for g in l if g.name.endswith("::new") and "context.rs" in g.name and g.ret.strip().endswith("Context")]
    if len(cands) != 1:
        raise ignoremodel.Inconclusive("Context::new not found") if hasattr(ignoremodel, "Inconclusive") else Exception("Context::new not found")
    f = cands[0]
    args = [ex.fresh_lazy(t, p) for p, t in f.params]
    ri = [i for i, (p, t) in enumerate(f.params) if "Range" in t]
    outs = [o for o in ex.run(f, args) if o.kind == "return"]
    T = ex.enums
    fi = T.field_index("Context", "range")
    for pi, o in enumerate(outs):
        v = deref_val(ex, o.state, o.value)
        got = deref_val(ex, o.state, v.fields[fi]) if isinstance(v, Agg) and fi is not None and fi < len(v.fields) else None
        ok = bool(ri) and got is args[ri[0]]
        r, m = ses.obligation(f"context-new/path{pi}/range-stored-as-given", list(o.pc), z3.BoolVal(not ok), "Context.range is the caller's range, unmodified")
        if r == "sat":
            flagged.append((f"context-new/path{pi}/range-stored-as-given", "Context::new rewrites the range it is given (an inverted range starts to select statements)", "range", {}))
    if not outs:
        flagged.append(("context-new/no-path", "Context::new has no returning path", "range", {}))
    return flagged


def run(ses, rep):
    if rep.tier != "quick":
        ignoremodel.K_TOKENS, ignoremodel.K_LINES, ignoremodel.VISITS = 3, 3, 14
    rep.assumptions += ["node positions are byte offsets with end = offset after the last byte (full_moon); the range is inclusive (Range doc comment)",
                        "to_owned()/clone() of a full_moon node is lossless (full_moon contract)"]
    rep.outside += ["statements wholly inside the range come out as in whole-file formatting: only the indentation the block-only visitors hand to nested "
                    "blocks is decided (visitor-shape kernel); the layout of the statements themselves needs the whole formatter (replay scenarios only)"]
    flagged = c08.analyses(ses, rep) + context_keeps_range(ses, rep)
    try:
        flagged += ignoremodel.analyse_visitor_shapes(ignoremodel.Model(ses, "default"), ses, rep)
    except ignoremodel.Inconclusive as e:
        rep.add("visitor-shape/encodable", "inconclusive", str(e)[:300], nontrivial=False)
    rep.samples.append({"flagged": [(f[0], f[1]) for f in flagged][:5]})
    c08.confirm(rep, flagged, c08.RANGE_BATTERY, "C09", ("range", "both", "ignored-in-range", "output", "visitor-shape"))
    c08.sort_requires_kernels(rep, ses, ("guard",), lambda n: "range" in n)


def fallback(rep):
    c08.fallback_with(rep, c08.RANGE_BATTERY)
    c08.sort_requires_fallback(rep, lambda n: "range" in n)


replay = c08.replay

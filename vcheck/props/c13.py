"""C13 — `--check` never writes and its exit status tells the truth (kernel scope, DESIGN.md section 5).

(a) no file-system mutation is reachable with opt.check (format_file, format_string, every other fs-mutating site of the crate)
(b) status truth, one inductive step of the output thread from an arbitrary status s in {0,1,2}: after handling one result of
    any kind, status' = max(s, severity), severity(Err)=2, severity(Diff)=1, else 0 (2 whenever an error was logged)
(c) tail: format() returns 2 on a worker panic, else the status; main maps Err to 2
(d) create_diff/format_file: Diff is reported iff create_diff returned Some; Summary format: None iff original == expected
"""
import re, z3

from .. import clihooks, clireplay, clistatus, common
from ..mirsym import Lazy, Agg, Ref, RefV, Sym, derives_from, vkey, UNIT
from ..session import find_calls
from ..summaries import canon, deref_val
from ..common import Inconclusive
from . import c14

KINDS = ["Complete", "SuccessBufferedOutput", "Diff", "Err"]

SCENARIOS = dict(c14.SCENARIOS)
SCENARIOS.update({
    "check-broken": ({"bad.lua": clireplay.BROKEN}, ["--check", "bad.lua"],
                     lambda r: ("exit status is %d, not 2, for an unparseable file" % r["rc"] if r["rc"] != 2 else
                                "file changed under --check" if clireplay.changed(r, "bad.lua") else None)),
    "check-broken-and-diff": ({"a.lua": clireplay.UNFORMATTED, "bad.lua": clireplay.BROKEN}, ["--check", "a.lua", "bad.lua"],
                              lambda r: ("exit status is %d, not 2" % r["rc"] if r["rc"] != 2 else None)),
    "check-diff": ({"u.lua": clireplay.UNFORMATTED}, ["--check", "u.lua"],
                   lambda r: ("exit status is %d, not 1, for an unformatted file" % r["rc"] if r["rc"] != 1 else
                              "no diff printed" if "u.lua" not in r["out"] and "local" not in r["out"] else
                              "file changed under --check" if clireplay.changed(r, "u.lua") else None)),
    "check-clean": ({"ok.lua": clireplay.FORMATTED}, ["--check", "ok.lua"],
                    lambda r: ("exit status is %d, not 0, for a formatted file" % r["rc"] if r["rc"] != 0 else
                               "a diff was printed for a formatted file" if "ok.lua" in r["out"] else
                               "file touched under --check" if clireplay.changed(r, "ok.lua") else None)),
    "check-missing": ({"ok.lua": clireplay.FORMATTED}, ["--check", "ok.lua", "missing.lua"],
                      lambda r: ("exit status is %d, not 2, for a missing path" % r["rc"] if r["rc"] != 2 else None)),
    "check-unreadable": ({"ok.lua": clireplay.FORMATTED, "bin.lua": b"\xff\xfe local x = 1\n"}, ["--check", "ok.lua", "bin.lua"],
                         lambda r: ("exit status is %d, not 2, for a file that cannot be read as UTF-8" % r["rc"] if r["rc"] != 2 else None)),
    "check-unreadable-and-diff": ({"u.lua": clireplay.UNFORMATTED, "bin.lua": b"\xff\xfe local x = 1\n"}, ["--check", "u.lua", "bin.lua"],
                                  lambda r: ("exit status is %d, not 2" % r["rc"] if r["rc"] != 2 else None)),
    "check-verify-failure": ({"r.lua": 'local b = require("b")\nlocal a = require("a")\n'}, ["--check", "--verify", "--sort-requires", "r.lua"],
                             lambda r: ("exit status is %d, not 2, although output verification failed" % r["rc"] if r["rc"] != 2 else
                                        "file changed under --check" if clireplay.changed(r, "r.lua") else None)),
    **{f"check-line-endings-only-{fmt}": ({"crlf.lua": "local a = 1\r\nlocal b = 2\r\n", "ok.lua": clireplay.FORMATTED}, ["--check", "--output-format", fmt, "crlf.lua", "ok.lua"],
                                         lambda r: ("exit status is %d, not 1, for a file that differs from its formatted form in its line endings" % r["rc"] if r["rc"] != 1 else
                                                    "file changed under --check" if clireplay.changed(r, "crlf.lua") else None))
       for fmt in ("standard", "unified", "json", "summary")},
    "write-broken": ({"bad.lua": clireplay.BROKEN}, ["bad.lua"],
                     lambda r: ("exit status is %d, not 2, for an unparseable file" % r["rc"] if r["rc"] != 2 else None)),
})
KIND2SCEN = dict(c14.KIND2SCEN)
KIND2SCEN.update({"status-err": ["check-verify-failure", "check-broken", "check-broken-and-diff", "check-missing", "write-broken", "check-unreadable", "check-unreadable-and-diff"],
                  "status-diff": ["check-diff", "check-broken-and-diff"], "status-clean": ["check-clean"],
                  "diff-iff": ["check-diff", "check-clean"],
                  "nodiff": ["check-line-endings-only-standard", "check-line-endings-only-unified", "check-line-endings-only-json", "check-line-endings-only-summary", "check-diff", "check-clean"],
                  "any": list(SCENARIOS)})


def flags_for_outfmt(ex, m, outfmt):
    if m is None or outfmt is None:
        return []
    d = ex.lazy_tab.get((outfmt.oid, ("discr",)))
    if d is None:
        return []
    nm = ex.enums.name("OutputFormat", m.eval(d, model_completion=True).as_long())
    return ["--output-format", c14.OUTPUT_FORMATS[nm]] if nm in c14.OUTPUT_FORMATS and nm != "Standard" else []


def status_step(ses, rep, funcs):
    flagged = []
    logger = clistatus.find_logger(funcs)
    outcl = clistatus.find_output_closure(funcs)
    n = 0
    for kind in KINDS:
        ex = ses.executor("bin", "default", inline=lambda n_, f: False)
        item = clistatus.format_result(ex, kind)
        ex.hooks = clistatus.make_hooks(funcs, [item], logger)
        env = ex.fresh_lazy(outcl.params[0][1], "closure-env")
        outs = ex.run(outcl, [env])
        for pi, o in enumerate(outs):
            if o.kind != "return":
                continue
            n += 1
            st = o.state
            init = st.aux.get(("atomic_first", "EXIT_CODE"))
            final = st.aux.get(("atomic", "EXIT_CODE"))
            init = z3.BitVec("EXIT_CODE_init", 32)
            if final is None:
                final = init
            logged_err = z3.Or([l[1] == z3.BitVecVal(1, 64) for l in o.trace if l[0] == "log"] + [z3.BoolVal(False)])
            base = 2 if kind == "Err" else 1 if kind == "Diff" else 0
            sev = z3.If(logged_err, z3.BitVecVal(2, 32), z3.BitVecVal(base, 32))
            want = z3.If(init > sev, init, sev)
            assume = list(o.pc) + [init >= 0, init <= 2]
            oid = f"output-thread/{kind}/path{pi}/status'=max(status,severity)"
            r, m = ses.obligation(oid, assume, final != want, f"one result of kind {kind} from any status")
            if r == "sat":
                # which output format does the counterexample need?
                outfmt = None
                for k_, v_ in ex.lazy_tab.items():
                    if isinstance(v_, Lazy) and "OutputFormat" in v_.ty and k_[0] == env.oid:
                        outfmt = v_
                fl = flags_for_outfmt(ex, m, outfmt)
                what = (f"after a result of kind {kind} with status {m.eval(init, model_completion=True)} the status is "
                        f"{m.eval(final, model_completion=True)}, expected {m.eval(want, model_completion=True)}")
                flagged.append((oid, what, {"Err": "status-err", "Diff": "status-diff"}.get(kind, "status-clean"), fl))
            if pi < 2:
                rep.samples.append({"obligation": oid, "atomic_events": [repr(t[1]) for t in o.trace if t[0] == "atomic"][:6]})
    rep.bounds["output_thread_paths"] = n
    return flagged


def tail(ses, rep, funcs):
    """format(): the value returned on the Ok edge is 2 if pool.panic_count() > 0 else EXIT_CODE; main: Err => 2"""
    flagged = []
    logger = clistatus.find_logger(funcs)
    ex = ses.executor("bin", "default", inline=lambda n_, f: False)
    ex.hooks = clistatus.make_hooks(funcs, [], logger)
    ex.max_block_visits = 1
    ex.max_paths = 60000
    fn = ses.need(ex, "format")
    # only the tail matters: cut at the first loop; execute from entry with everything havoc'd is too wide, so slice:
    # find the block that calls ThreadPool::join and start there with a symbolic frame.
    join_bb = [bb for bb, sts in fn.blocks.items() for s in sts if s[0] == "call" and re.search(r"ThreadPool::join$", canon(s[2]))]
    if len(join_bb) != 1:
        raise Inconclusive("format(): cannot find the unique pool.join() site")
    from ..mirsym import State, Frame
    st = State()
    fid = next(ex.fid_counter)
    fr = Frame(fn, fid, bb=join_bb[0])
    for loc, ty in fn.locals.items():
        st.store[(fid, loc)] = ex.fresh_lazy(ty, loc)
    st.stack.append(fr)
    work, outs = [st], []
    from ..mirsym import Infeasible, _Done
    while work:
        s = work.pop()
        if isinstance(s, _Done):
            outs.append(s.out); continue
        try:
            r = ex.step_path(s, work, 1)
        except Infeasible:
            continue
        if r is not None:
            outs.append(r)
    k = 0
    for pi, o in enumerate(outs):
        if o.kind != "return":
            continue
        v = o.value
        if not (isinstance(v, Agg) and v.variant == "Ok"):
            continue
        k += 1
        code = v.fields[0]
        pcs = find_calls(o.trace, lambda n_: n_.endswith("panic_count"))
        st2 = o.state
        ec = st2.aux.get(("atomic", "EXIT_CODE"), z3.BitVec("EXIT_CODE_init", 32))
        if not pcs:
            r, m = ses.obligation(f"format-tail/path{pi}/panic-count-consulted", list(o.pc), z3.BoolVal(True))
            if r == "sat":
                flagged.append((f"format-tail/path{pi}/panic-count-consulted", "format() returns without consulting pool.panic_count()", "status-err", []))
            continue
        pcv = pcs[-1][2].t
        want = z3.If(z3.UGT(pcv, z3.BitVecVal(0, pcv.size())), z3.BitVecVal(2, 32), ec)
        r, m = ses.obligation(f"format-tail/path{pi}/returns-2-on-panic-else-status", list(o.pc), code.t != want,
                              "Ok(if panic_count>0 {2} else {EXIT_CODE})")
        if r == "sat":
            flagged.append((f"format-tail/path{pi}/returns-2-on-panic-else-status", "format() does not return the recorded status", "any", []))
    rep.bounds["format_tail_paths"] = k
    if k == 0:
        raise Inconclusive("format(): no Ok-returning path found after pool.join()")
    return flagged


def diff_iff(ses, rep, funcs):
    """format_file: FormatResult::Diff iff create_diff returned Some; create_diff(Summary): None iff original == expected"""
    flagged = []
    ex = ses.executor("bin", "default", hooks=c14.HOOKS, inline=lambda n_, f: False)
    fn = ses.need(ex, "format_file")
    args = [RefV(ex.fresh_lazy(t.lstrip("&"), p)) if t.startswith("&") else ex.fresh_lazy(t, p) for p, t in fn.params]
    for pi, o in enumerate(ex.run(fn, args)):
        if o.kind != "return" or not isinstance(o.value, Agg) or o.value.variant != "Ok":
            continue
        cd = find_calls(o.trace, lambda n_: n_.split("::")[-1] == "create_diff")
        fr_ = o.value.fields[0]
        is_diff = isinstance(fr_, Agg) and fr_.variant == "Diff"
        if cd:
            okp = ex.lazy_child(o.state, cd[-1][2], ("vfield", "Ok", 0), "Option<Vec<u8>>", ".Ok.0")
            some = ex.discr(o.state, okp) == 1
            oid = f"format_file/path{pi}/diff-iff-create_diff-some"
            r, m = ses.obligation(oid, list(o.pc), z3.BoolVal(is_diff) != some, "Ok(Diff) <=> create_diff = Ok(Some)")
            if r == "sat":
                flagged.append((oid, "format_file's Diff/Complete result does not follow create_diff", "diff-iff", []))
            if is_diff:
                same = derives_from(ex, fr_.fields[0], okp.oid, 0, o.state)
                r, m = ses.obligation(oid + "/payload", list(o.pc), z3.BoolVal(not same), "Diff carries create_diff's bytes")
                if r == "sat":
                    flagged.append((oid + "/payload", "Diff payload is not create_diff's output", "diff-iff", []))
        elif is_diff:
            flagged.append((f"format_file/path{pi}/diff-without-create_diff", "Diff reported without calling create_diff", "diff-iff", []))
    # create_diff, Summary arm
    fn = ses.need(ex, "create_diff")
    args = [RefV(ex.fresh_lazy(t.lstrip("&"), p)) if t.startswith("&") and t != "&str" else ex.fresh_lazy(t, p) for p, t in fn.params]
    optf = ex.enums.field_index("Opt", "output_format")
    for pi, o in enumerate(ex.run(fn, args)):
        if o.kind != "return":
            continue
        eqs = find_calls(o.trace, lambda n_: re.fullmatch(r"<str as PartialEq(<.*>)?>::(eq|ne)", n_) is not None or
                         re.fullmatch(r"core::str::.*::(eq|ne)", n_) is not None)
        v = o.value
        if eqs and isinstance(v, Agg) and v.variant == "Ok":
            nm, a, res = eqs[-1]
            equal = res.t if nm.endswith("eq") else z3.Not(res.t)
            inner = v.fields[0]
            is_none = isinstance(inner, Agg) and inner.variant == "None"
            oid = f"create_diff/path{pi}/summary-none-iff-equal"
            r, m = ses.obligation(oid, list(o.pc), z3.BoolVal(is_none) != equal, "Summary: None <=> original == expected")
            if r == "sat":
                flagged.append((oid, "summary format reports a file although it is formatted (or the reverse)", "diff-iff", ["--output-format", "summary"]))
    return flagged


def error_propagation(ses, rep):
    """format_file / format_string: a failure of format_code is returned as Err (status 2), never swallowed: on every path that returns Ok,
    every format_code result is Ok; format_code is called at most once and with the caller's verification mode"""
    flagged = []
    for caller in ("format_file", "format_string"):
        ex = ses.executor("bin", "default", hooks=c14.HOOKS, inline=lambda n_, f: False)
        fn = ses.need(ex, caller)
        args = [RefV(ex.fresh_lazy(t.lstrip("&"), p)) if t.startswith("&") else ex.fresh_lazy(t, p) for p, t in fn.params]
        vi = [i for i, (p, t) in enumerate(fn.params) if "OutputVerification" in t]
        n = 0
        for pi, o in enumerate(ex.run(fn, args)):
            if o.kind != "return":
                continue
            v = o.value
            fcs = find_calls(o.trace, lambda n_: n_.split("::")[-1] == "format_code")
            if not fcs:
                continue
            n += 1
            is_ok = isinstance(v, Agg) and v.variant == "Ok"
            oid = f"{caller}/path{pi}/format_code"
            if is_ok:
                failed = z3.Or(*[ex.discr(o.state, c[2]) != 0 for c in fcs])
                r, m = ses.obligation(oid + "-error-is-returned", list(o.pc), failed, "Ok is returned only if format_code returned Ok")
                if r == "sat":
                    flagged.append((oid + "-error-is-returned", f"{caller} returns Ok although format_code failed (the failure is not reported with status 2)", "status-err", []))
            bad_once = len(fcs) != 1
            bad_mode = bool(vi) and any(deref_val(ex, o.state, c[1][3]) is not args[vi[0]] for c in fcs if len(c[1]) > 3)
            r, m = ses.obligation(oid + "-once-with-the-callers-verification-mode", list(o.pc), z3.BoolVal(bad_once or bad_mode),
                                  "one format_code call, verify_output passed through")
            if r == "sat":
                flagged.append((oid + "-once", f"{caller} calls format_code {len(fcs)} times / with a different verification mode", "status-err", []))
        if n == 0:
            raise Inconclusive(f"{caller}: no path calls format_code")
    return flagged


def run(ses, rep):
    rep.assumptions += [
        "log!(Level::Error, ..) reaches the closure registered in main (env_logger with filter >= Warn; STATIC_MAX_LEVEL = Trace)",
        "callee results are unconstrained (havoc) except the summaries listed; stdout/stderr writes may fail",
        "similar's TextDiff is exact for the two texts it is given (the producers' own `no change` tests are decided by C18's nodiff kernels, run here too)",
    ]
    rep.outside += ["mtimes/'touched': implied by (a) if read_to_string does not modify the file",
                    "the text of the four output formats (C18)", "interleavings of the status updates (C19)",
                    "STYLUA_LOG values that switch the logger off for the stylua module"]
    funcs = ses.mir("bin", "default")
    flagged = []
    # (a)
    ex = ses.executor("bin", "default", hooks=c14.HOOKS, inline=lambda n_, f: False)
    fa = c14.analyse_format_file(ses, rep, ex)
    flagged += [f for f in fa if f[0].endswith("/not-check")]
    sites = c14.fs_sites(funcs)
    rep.extra["fs_mutation_sites"] = sorted(set(sites))
    flagged += [(a, b, "check") + tuple(rest) for a, b, _k, *rest in c14.analyse_other_sites(ses, rep, ex, funcs, sites)]
    # format_string must not touch the file system at all
    fs = ses.need(ex, "format_string")
    args = [RefV(ex.fresh_lazy(t.lstrip("&"), p)) if t.startswith("&") else ex.fresh_lazy(t, p) for p, t in fs.params]
    for pi, o in enumerate(ex.run(fs, args)):
        for w in find_calls(o.trace, clihooks.is_fs_mutation):
            r, m = ses.obligation(f"format_string/path{pi}/{w[0]}", list(o.pc), z3.BoolVal(True))
            if r == "sat":
                flagged.append((f"format_string/path{pi}/{w[0]}", "format_string reaches a file-system mutation", "check", []))
    # (b) (c) (d)
    flagged += status_step(ses, rep, funcs)
    flagged += tail(ses, rep, funcs)
    flagged += diff_iff(ses, rep, funcs)
    flagged += error_propagation(ses, rep)
    # the producers' own `nothing to report` tests decide the exit status as well (C18's kernels, shared)
    from . import c18
    flagged += [(oid, what, "nodiff") for oid, what, kind, info in c18.nodiff(ses, rep)]
    c14.confirm(rep, flagged, SCENARIOS, KIND2SCEN, "C13")


def fallback(rep):
    c14.fallback_scenarios(rep, SCENARIOS, "C13")


def replay(path):
    import json
    d = json.load(open(path))
    sc = d["replay"]["scenario"]
    files, argv, oracle = SCENARIOS[sc]
    argv = d["replay"].get("run", {}).get("argv", argv)
    res = clireplay.run_cli(common.native_build("default"), files, argv)
    v = oracle(res)
    print("scenario", sc, argv, "->", v or "property holds")
    if v:
        print(f"VIOLATION property=C13 replay={path}")
        return 1
    return 0

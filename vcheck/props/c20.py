"""C20 — an option means the same thing wherever it is written (mapping kernels; DESIGN.md section 5).

 O  load_overrides (bin MIR; the convert_enum! From impls inlined): every Config field of the result is the flag's value mapped to the
    same-named variant if the flag is present, else the config's value; no other field changes
 E  editorconfig::load (lib MIR with the editorconfig feature): every key sets exactly the documented field to the documented
    value and nothing else (Properties::get::<K>() is a symbolic Result per key)
"""
import json, re, z3

from .. import common, clireplay
from ..common import Inconclusive
from ..mirsym import Sym, Str, Agg, Lazy, Ref, RefV, UNIT
from ..summaries import canon, deref_val, opt_some, opt_none
from ..session import find_calls

FLAG_FIELDS = {"syntax": "LuaVersion", "column_width": None, "line_endings": "LineEndings", "indent_type": "IndentType", "indent_width": None,
               "quote_style": "QuoteStyle", "call_parentheses": "CallParenType", "space_after_function_names": "SpaceAfterFunctionNames",
               "collapse_simple_statement": "CollapseSimpleStatement"}


def into_hook(ex, st, callee, args, dty):
    m = re.fullmatch(r"<(?:[\w:]+::)?(\w+) as Into<(?:[\w:]+::)?(\w+)>>::into", callee.strip())
    if not m:
        return NotImplemented
    a, b = m.group(1), m.group(2)
    for n_, l in ex.funcs.items():
        if n_.endswith("::from"):
            for f in l:
                if len(f.params) == 1 and re.search(r"(^|::)" + a + "$", f.params[0][1]) and re.search(r"(^|::)" + b + "$", f.ret):
                    return ("inline", f, args)
    return NotImplemented


def same_name_map(T, src_enum, dst_enum, d):
    """z3 term: discriminant in dst_enum of the variant named like variant d of src_enum"""
    t = z3.BitVecVal(2 ** 32, 64)
    for i, v in enumerate(T.variants(src_enum)):
        j = T.index(dst_enum, v[0])
        if j is not None:
            t = z3.If(d == z3.BitVecVal(i, 64), z3.BitVecVal(j, 64), t)
    return t


def field_term(ex, st, obj, struct, name):
    T = ex.enums
    i = T.field_index(struct, name)
    ty = T.structs[struct][i][1]
    v = ex.lazy_child(st, obj, ("field", i), ty, "." + name)
    return v


def scalar(ex, st, v):
    """z3 term for a field value: scalars as is, C-like enums by discriminant, SortRequiresConfig by its flag"""
    v = deref_val(ex, st, v)
    if isinstance(v, Sym):
        return v.t
    if isinstance(v, Agg) and v.variant is None and len(v.fields) == 1:
        return scalar(ex, st, v.fields[0])
    if isinstance(v, Lazy) and re.search(r"SortRequiresConfig$", v.ty):
        return ex.lazy_child(st, v, ("field", 0), "bool", ".enabled").t
    if isinstance(v, (Agg, Lazy)):
        return ex.discr(st, v)
    raise Inconclusive(f"field value {v!r}")


def overrides(ses, rep, fs):
    """one run per flag (all other flags absent) checks the variant mapping and that nothing else changes; one run with every flag
    present and the conversions left opaque checks the wiring when flags are combined"""
    flagged = []
    T0 = ses.enums(fs)
    flags = list(FLAG_FIELDS) + ["sort_requires"]
    total = 0
    for focus in flags + ["*all*"]:
        inline_conv = focus != "*all*"
        ex = ses.executor("bin", fs, hooks=[into_hook] if inline_conv else [],
                          inline=(lambda n, f: canon(n).split("::")[-1] == "from" and "opt::" in f.name) if inline_conv else (lambda n, f: False))
        T = ex.enums
        fn = ses.need(ex, "load_overrides")
        cfg = ex.fresh_lazy("Config", "config")
        opt = ex.fresh_lazy("Opt", "opt")
        before = {name: scalar(ex, None, field_term(ex, None, cfg, "Config", name)) for name, ty in T.structs["Config"]}
        fo = field_term(ex, None, opt, "Opt", "format_opts")
        # fix the presence of the other flags up front (assumptions on the symbolic Opt)
        pre = []
        ofld = {}
        for name in FLAG_FIELDS:
            ofld[name] = field_term(ex, None, fo, "FormatOpts", name)
            d = ex.discr(None, ofld[name])
            if focus == "*all*":
                pre.append(d == 1)
            elif name != focus:
                pre.append(d == 0)
        srf = field_term(ex, None, fo, "FormatOpts", "sort_requires")
        if focus not in ("*all*", "sort_requires"):
            pre.append(z3.Not(srf.t))
        from ..mirsym import State
        st0 = State()
        st0.pc = list(pre)
        outs = ex.run(fn, [cfg, RefV(opt)], st=st0)
        for pi, o in enumerate(outs):
            if o.kind != "return":
                continue
            total += 1
            st = o.state
            ret = deref_val(ex, st, o.value)
            base = list(o.pc) + ex.all_discr_ranges()
            for name, ty in T.structs["Config"]:
                got_v = deref_val(ex, st, field_term(ex, st, ret, "Config", name))
                if name in FLAG_FIELDS:
                    present = ex.discr(None, ofld[name]) == 1
                    pty = re.sub(r"^Option<(.*)>$", r"\1", T.structs["FormatOpts"][T.field_index("FormatOpts", name)][1])
                    pay = ex.lazy_child(None, ofld[name], ("vfield", "Some", 0), pty, ".Some.0")
                    if not inline_conv and FLAG_FIELDS[name] is not None:
                        # wiring run: the field must be the (opaque) conversion of *its own* flag's payload
                        hc = ex.havoc_calls.get(got_v.oid) if isinstance(got_v, Lazy) else None
                        ok = hc is not None and any(isinstance(deref_val(ex, st, a), Lazy) and deref_val(ex, st, a).oid == pay.oid for a in hc[1])
                        r, m = ses.obligation(f"{fs}/load_overrides/all-flags/path{pi}/{name}-wired-to-its-flag", base, z3.BoolVal(not ok),
                                              "with every flag present each field comes from its own flag")
                        if r == "sat":
                            flagged.append((f"{fs}/load_overrides/all-flags/path{pi}/{name}-wired-to-its-flag", f"`{name}` is not taken from --{name.replace('_', '-')}",
                                            "flag", {"field": name, "fs": fs}))
                        continue
                    got = scalar(ex, st, got_v)
                    val = pay.t if FLAG_FIELDS[name] is None else same_name_map(T, "Arg" + FLAG_FIELDS[name], FLAG_FIELDS[name], ex.discr(None, pay))
                    want = z3.If(present, val, before[name])
                elif name == "sort_requires":
                    got = scalar(ex, st, got_v)
                    want = z3.If(srf.t, z3.BoolVal(True), before[name])
                else:
                    got = scalar(ex, st, got_v)
                    want = before[name]
                r, m = ses.obligation(f"{fs}/load_overrides/{focus}/path{pi}/{name}", base, got != want,
                                      "flag value (same-named variant) if present, else the configuration's")
                if r == "sat":
                    flagged.append((f"{fs}/load_overrides/{focus}/path{pi}/{name}", f"load_overrides computes a wrong `{name}` (flag under test: {focus})",
                                    "flag", {"field": name, "fs": fs}))
    if total == 0:
        raise Inconclusive("load_overrides: no returning path")
    rep.bounds[f"{fs}/load_overrides_paths"] = total
    rep.bounds["flags_present_at_once"] = "1 (variant mapping) and all (wiring, conversions opaque)"
    return flagged


EC = {  # key type -> (config field, {variant -> expected}) ; None = unchanged ; ("payload",) = the carried number
    "EndOfLine": ("line_endings", {"Lf": "Unix", "Cr": "Unix", "CrLf": "Windows"}),
    "IndentStyle": ("indent_type", {"Tabs": "Tabs", "Spaces": "Spaces"}),
    "MaxLineLen": ("column_width", {"Value": ("payload",), "Off": ("max",)}),
    "QuoteTypeChoice": ("quote_style", {"Double": "AutoPreferDouble", "Single": "AutoPreferSingle", "Auto": None}),
    "CallParenthesesChoice": ("call_parentheses", {"Always": "Always", "NoSingleString": "NoSingleString", "NoSingleTable": "NoSingleTable", "None": "None"}),
    "SpaceAfterFunctionNamesChoice": ("space_after_function_names", {"Always": "Always", "Definitions": "Definitions", "Calls": "Calls", "Never": "Never"}),
    "CollapseSimpleStatementChoice": ("collapse_simple_statement", {"Never": "Never", "FunctionOnly": "FunctionOnly", "ConditionalOnly": "ConditionalOnly", "Always": "Always"}),
    "SortRequiresChoice": ("sort_requires", {"True": ("bool", True), "False": ("bool", False)}),
}
FIELD_ENUM = {"line_endings": "LineEndings", "indent_type": "IndentType", "quote_style": "QuoteStyle", "call_parentheses": "CallParenType",
              "space_after_function_names": "SpaceAfterFunctionNames", "collapse_simple_statement": "CollapseSimpleStatement"}


def editorconfig(ses, rep):
    flagged = []
    keys = {}
    unexpected = []

    def hook(ex_, st, callee, args, dty):
        m = re.search(r"Properties::get::<(?:[\w:]+::)?(\w+)>$", callee.strip())
        if m:
            k = m.group(1)
            if k not in keys:
                keys[k] = Lazy(next(ex_.oid_counter), f"Result<{k}, Error>", "get:" + k, 0, {})
                unexpected.append(k)
            return keys[k]
        return NotImplemented
    ALLK = list(EC) + ["IndentSize", "TabWidth"]
    groups = [[k] for k in EC] + [["IndentSize", "TabWidth"]]
    outs = []
    ex = ses.executor("lib", "editorconfig", hooks=[hook], inline=lambda n, f: False)
    T = ex.enums
    fn = ex.resolve("editorconfig::load") or ex.resolve("load")
    if fn is None:
        cands = [f for n_, l in ex.funcs.items() for f in l if n_.endswith("editorconfig::load") or n_ == "load"]
        if len(cands) != 1:
            raise Inconclusive("editorconfig::load not found in the MIR")
        fn = cands[0]
    ses.report.fn(fn)
    cfg = ex.fresh_lazy("Config", "config")
    props = ex.fresh_lazy("Properties", "properties")
    before = {name: scalar(ex, None, field_term(ex, None, cfg, "Config", name)) for name, ty in T.structs["Config"]}
    for k in ALLK:
        keys[k] = Lazy(next(ex.oid_counter), f"Result<{k}, Error>", "get:" + k, 0, {})
    from ..mirsym import State
    for g in groups:            # keys of the group are symbolic, every other key is absent (Err)
        st0 = State()
        st0.pc = [ex.discr(None, keys[k]) == 1 for k in ALLK if k not in g]
        outs += ex.run(fn, [cfg, RefV(props)], st=st0)
    st0 = State()                 # all keys present: the first variant of each (one wiring path)
    st0.pc = [ex.discr(None, keys[k]) == 0 for k in ALLK] + [ex.discr(None, ex.lazy_child(None, keys[k], ("vfield", "Ok", 0), k, ".Ok.0")) == 0 for k in ALLK]
    outs += ex.run(fn, [cfg, RefV(props)], st=st0)
    rep.bounds["editorconfig_paths"] = len(outs)
    rep.bounds["editorconfig_keys_present_at_once"] = "1 (2 for indent_size/tab_width) and all (first variant)"

    def key_ok(k):
        return ex.discr(None, keys[k]) == 0
    def key_val(k):
        return ex.lazy_child(None, keys[k], ("vfield", "Ok", 0), k, ".Ok.0")
    want = dict(before)
    for k, (field, table) in EC.items():
        if k not in keys:
            flagged.append((f"editorconfig/key-{k}-is-read", f"the {k} property is never read", "editorconfig", {"key": k}))
            continue
        v = key_val(k)
        d = ex.discr(None, v)
        t = before[field]
        for var, exp in table.items():
            idx = T.index(k, var)
            if idx is None:
                raise Inconclusive(f"enum {k}::{var} unknown")
            if exp is None:
                val = before[field]
            elif exp == ("payload",):
                val = ex.lazy_child(None, v, ("vfield", "Value", 0), "usize", ".Value.0").t
            elif exp == ("max",):
                val = z3.BitVecVal(2 ** 64 - 1, 64)
            elif isinstance(exp, tuple) and exp[0] == "bool":
                val = z3.BoolVal(exp[1])
            else:
                val = z3.BitVecVal(T.index(FIELD_ENUM[field], exp), 64)
            t = z3.If(d == z3.BitVecVal(idx, 64), val, t)
        want[field] = z3.If(key_ok(k), t, before[field])
    # indent_size / tab_width
    if "IndentSize" in keys:
        v = key_val("IndentSize")
        d = ex.discr(None, v)
        direct = ex.lazy_child(None, v, ("vfield", "Value", 0), "usize", ".Value.0").t
        t = before["indent_width"]
        if "TabWidth" in keys:
            tw = key_val("TabWidth")
            t = z3.If(key_ok("TabWidth"), ex.lazy_child(None, tw, ("vfield", "Value", 0), "usize", ".Value.0").t, before["indent_width"])
        want["indent_width"] = z3.If(key_ok("IndentSize"), z3.If(d == z3.BitVecVal(T.index("IndentSize", "Value"), 64), direct, t), before["indent_width"])
    else:
        flagged.append(("editorconfig/key-IndentSize-is-read", "indent_size is never read", "editorconfig", {"key": "IndentSize"}))
    base = ex.all_discr_ranges()
    for k in keys:
        base.append(z3.ULE(ex.discr(None, keys[k]), z3.BitVecVal(1, 64)))
    n = 0
    for pi, o in enumerate(outs):
        if o.kind != "return":
            continue
        st = o.state
        ret = deref_val(ex, st, o.value)
        pc = base + list(o.pc)
        if not ses.reachable(pc):
            continue
        n += 1
        bad = []
        for name, ty in T.structs["Config"]:
            got = scalar(ex, st, field_term(ex, st, ret, "Config", name))
            bad.append(got != want[name])
        r, m = ses.obligation(f"editorconfig/path{pi}/fields=table", pc, z3.Or(bad), "every key sets exactly its documented field; nothing else changes")
        if r == "sat":
            wrong = [name for (name, ty), b in zip(T.structs["Config"], bad) if z3.is_true(m.eval(b, model_completion=True))]
            flagged.append((f"editorconfig/path{pi}/fields=table", f"editorconfig mapping wrong for field(s) {wrong}", "editorconfig", {"fields": wrong}))
    rep.bounds["editorconfig_paths_checked"] = n
    return flagged


# ------------------------------------------------------------------------------------------------ replay
QSRC = 'local a = "x"\nlocal b = "it\'s"\nlocal c = \'say "hi"\'\n'
CARRIER = [  # (toml line, flag argv, editorconfig line or None, source, expected output) - one per option value family
    ('quote_style = "ForceSingle"', ["--quote-style", "ForceSingle"], None, QSRC, "local a = 'x'\nlocal b = 'it\\'s'\nlocal c = 'say \"hi\"'\n"),
    ('quote_style = "ForceDouble"', ["--quote-style", "ForceDouble"], None, QSRC, 'local a = "x"\nlocal b = "it\'s"\nlocal c = "say \\"hi\\""\n'),
    ('quote_style = "AutoPreferSingle"', ["--quote-style", "AutoPreferSingle"], "quote_type = single", QSRC, "local a = 'x'\nlocal b = \"it's\"\nlocal c = 'say \"hi\"'\n"),
    ('quote_style = "AutoPreferDouble"', ["--quote-style", "AutoPreferDouble"], "quote_type = double", QSRC, 'local a = "x"\nlocal b = "it\'s"\nlocal c = \'say "hi"\'\n'),
    ('indent_type = "Spaces"\nindent_width = 2', ["--indent-type", "Spaces", "--indent-width", "2"], "indent_style = space\nindent_size = 2", "do\nlocal x = 1\nend\n", "do\n  local x = 1\nend\n"),
    ('indent_type = "Tabs"', ["--indent-type", "Tabs"], "indent_style = tab", "do\n  local x = 1\nend\n", "do\n\tlocal x = 1\nend\n"),
    ('column_width = 20', ["--column-width", "20"], "max_line_length = 20", "local x = call(aaaaaaaa, bbbbbbbb)\n", "local x = call(\n\taaaaaaaa,\n\tbbbbbbbb\n)\n"),
    ('line_endings = "Windows"', ["--line-endings", "Windows"], "end_of_line = crlf", "local x = 1\n", "local x = 1\r\n"),
    ('line_endings = "Unix"', ["--line-endings", "Unix"], "end_of_line = lf", "local x = 1\r\n", "local x = 1\n"),
    ('call_parentheses = "None"', ["--call-parentheses", "None"], "call_parentheses = none", 'f("a")\n', 'f "a"\n'),
    ('call_parentheses = "NoSingleTable"', ["--call-parentheses", "NoSingleTable"], "call_parentheses = nosingletable", 'f({ 1 })\ng("a")\n', 'f { 1 }\ng("a")\n'),
    ('call_parentheses = "NoSingleString"', ["--call-parentheses", "NoSingleString"], "call_parentheses = nosinglestring", 'f({ 1 })\ng("a")\n', 'f({ 1 })\ng "a"\n'),
    ('call_parentheses = "Input"', ["--call-parentheses", "Input"], None, 'f "a"\ng("a")\n', 'f "a"\ng("a")\n'),
    ('space_after_function_names = "Always"', ["--space-after-function-names", "Always"], "space_after_function_names = always", "function f() end\nf()\n", "function f () end\nf ()\n"),
    ('space_after_function_names = "Definitions"', ["--space-after-function-names", "Definitions"], "space_after_function_names = definitions", "function f() end\nf()\n", "function f () end\nf()\n"),
    ('space_after_function_names = "Calls"', ["--space-after-function-names", "Calls"], "space_after_function_names = calls", "function f() end\nf()\n", "function f() end\nf ()\n"),
    ('collapse_simple_statement = "Always"', ["--collapse-simple-statement", "Always"], "collapse_simple_statement = always", "if x then\n\treturn\nend\n", "if x then return end\n"),
    ('collapse_simple_statement = "ConditionalOnly"', ["--collapse-simple-statement", "ConditionalOnly"], "collapse_simple_statement = conditionalonly",
     "if x then\n\treturn\nend\nlocal f = function()\n\treturn 1\nend\n", "if x then return end\nlocal f = function()\n\treturn 1\nend\n"),
    ('[sort_requires]\nenabled = true', ["--sort-requires"], "sort_requires = true", 'local b = require("b")\nlocal a = require("a")\n', 'local a = require("a")\nlocal b = require("b")\n'),
]
MALFORMED = ['colum_width = 80', 'column_width = "wide"', 'quote_style = "Sometimes"', '[unknown_table]\nx = 1', '[sort_requires]\nenable = true',
             '[sort_requires]\nenabled = true\nenabeld = true', 'sort_requires = true', '[sort_requires.extra]\nx = 1', 'syntax = "Lua99"', 'indent_width = -1',
             'column_width = 80\ncolumn_width = 90']


def strictness(ses, rep):
    """serde's derive-generated key / variant visitors (lib MIR): a key that is not a field of the struct, or a value that is not a
    variant of the enum, ends in Err(unknown_field / unknown_variant) - never in an `ignore` field; the accepted keys are exactly the
    struct's fields; Config and every struct nested in it have such a visitor."""
    flagged = []
    funcs = ses.mir("lib", "editorconfig")
    T = ses.enums("editorconfig")
    vis = [g for n, l in funcs.items() for g in l if re.search(r"::visit_str$", g.name) and g.params and "__FieldVisitor" in g.params[0][1]]
    seen_types = {}
    for g in vis:
        m = re.search(r"for ([A-Za-z0-9_]+)>::deserialize::__FieldVisitor", g.params[0][1])
        ty = m.group(1) if m else g.params[0][1]
        if ty == "Range":
            continue            # the formatting range is not part of the configuration file (library / JS API only)
        ex = ses.executor("lib", "editorconfig", inline=lambda n_, fn: False)
        value = ex.fresh_lazy("str", "key")
        eqs = {}

        def h(ex_, st, callee, args, dty, eqs=eqs, value=value):
            if canon(callee).endswith("PartialEq>::eq") and len(args) == 2:
                a, b = deref_val(ex_, st, args[0]), deref_val(ex_, st, args[1])
                c = b if isinstance(b, Str) else a if isinstance(a, Str) else None
                if c is not None:
                    if c.s not in eqs:
                        eqs[c.s] = z3.Bool(f"key=={c.s}")
                    return Sym(eqs[c.s], "bool")
            return NotImplemented
        ex.hooks = [h]
        outs = ex.run(g, [ex.fresh_lazy(g.params[0][1], "visitor"), RefV(value)])
        rep.fn(g)
        seen_types[ty] = set()
        for pi, o in enumerate(outs):
            if o.kind != "return":
                continue
            v = deref_val(ex, o.state, o.value)
            is_ok = isinstance(v, Agg) and v.variant == "Ok"
            none_matches = [z3.Not(b) for b in eqs.values()]
            distinct = [z3.Not(z3.And(a, b)) for i, a in enumerate(eqs.values()) for b in list(eqs.values())[i + 1:]]
            oid = f"strict/{ty}/path{pi}/unknown-key-or-variant-is-an-error"
            if ses.reachable(list(o.pc) + none_matches + distinct):
                r, m_ = ses.obligation(oid, list(o.pc) + none_matches + distinct, z3.BoolVal(is_ok), "a text that equals none of the accepted names is rejected")
                if r == "sat":
                    flagged.append((oid, f"{ty}: a key / value that is not one of {sorted(eqs)} is accepted (ignored) instead of rejected", "strict", {"type": ty}))
        seen_types[ty] = set(eqs)
    rep.bounds["serde_name_visitors"] = len(vis)
    # the accepted keys of the configuration structs are their fields
    for ty in ("Config", "SortRequiresConfig"):
        want = {n for n, _ in T.structs.get(ty, [])}
        got = seen_types.get(ty)
        oid = f"strict/{ty}/accepted-keys-are-the-fields"
        if got is None:
            rep.add(oid, "sat", f"no derive-generated key visitor for {ty}")
            flagged.append((oid, f"{ty} is no longer decoded by a field-by-field visitor that rejects unknown keys", "strict", {"type": ty}))
        elif got != want:
            rep.add(oid, "sat", f"accepted {sorted(got)}, fields {sorted(want)}")
            flagged.append((oid, f"{ty}: accepted keys {sorted(got - want)} are not fields / fields {sorted(want - got)} are not accepted", "strict", {"type": ty}))
        else:
            rep.add(oid, "unsat", f"{len(want)} keys")
    return flagged


def carriers():
    binp = common.native_build("default")
    for toml, flags, ec, src, want in CARRIER:
        runs = [("toml", {"stylua.toml": toml + "\n", "a.lua": src}, ["a.lua"]), ("flag", {"a.lua": src}, list(flags) + ["a.lua"])]
        if ec is not None:
            runs.append(("editorconfig", {".editorconfig": "root = true\n[*.lua]\n" + ec + "\n", "a.lua": src}, ["a.lua"]))
        for how, files, argv in runs:
            r = clireplay.run_cli(binp, files, argv)
            got = r["after"]["a.lua"][0].decode("utf-8", "replace")
            if r["rc"] != 0 or got != want:
                return f"option written as {how} ({toml if how == 'toml' else flags if how == 'flag' else ec!r}): got {got!r}, expected {want!r} (rc={r['rc']})", clireplay.describe(r)
    # .editorconfig values are matched case-insensitively, every property alike
    for ec, src, want in ((("sort_requires = True", "sort_requires = TRUE"), 'local b = require("b")\nlocal a = require("a")\n', 'local a = require("a")\nlocal b = require("b")\n'),
                          (("quote_type = Single",), QSRC, "local a = 'x'\nlocal b = \"it's\"\nlocal c = 'say \"hi\"'\n"),
                          (("indent_style = Space\nindent_size = 2",), "do\nlocal x = 1\nend\n", "do\n  local x = 1\nend\n"),
                          (("end_of_line = CrLf",), "local x = 1\n", "local x = 1\r\n"),
                          (("call_parentheses = None",), 'f("a")\n', 'f "a"\n'),
                          (("collapse_simple_statement = Always",), "if x then\n\treturn\nend\n", "if x then return end\n")):
        for line in ec:
            r = clireplay.run_cli(binp, {".editorconfig": "root = true\n[*.lua]\n" + line + "\n", "a.lua": src}, ["a.lua"])
            got = r["after"]["a.lua"][0].decode("utf-8", "replace")
            if r["rc"] != 0 or got != want:
                return f".editorconfig `{line}` (value not in lower case): got {got!r}, expected {want!r}", clireplay.describe(r)
    # the deprecated no_call_parentheses next to an explicit call_parentheses in the same file: the library's reading of that Config
    both = 'foo("bar")\nfoo({ 1 })\nfoo "baz"\nfoo { 2 }\n'
    r = clireplay.run_cli(binp, {"stylua.toml": 'no_call_parentheses = true\ncall_parentheses = "Input"\n', "a.lua": both}, ["a.lua"])
    got = r["after"]["a.lua"][0].decode("utf-8", "replace")
    if r["rc"] != 0 or got != both:
        return f"stylua.toml with no_call_parentheses = true and call_parentheses = \"Input\": got {got!r}, expected the calls as written", clireplay.describe(r)
    for bad in MALFORMED:
        r = clireplay.run_cli(binp, {"stylua.toml": bad + "\n", "a.lua": "local   x = 1\n"}, ["a.lua"])
        if r["rc"] != 2 or clireplay.changed(r, "a.lua", True):
            return f"malformed configuration {bad!r}: rc={r['rc']}, file {'modified' if clireplay.changed(r, 'a.lua', True) else 'untouched'}", clireplay.describe(r)
    return None, {}


def run(ses, rep):
    rep.assumptions += ["clap parses a flag value into the Arg* variant of the same (case-insensitive) name; serde decodes a TOML value into the "
                        "Config variant of the same name (derive-generated code: outside the encoding, covered by the carrier replay only)",
                        "ec4rs parses a property into the variant listed in its property_choice!/property_valued! table"]
    rep.outside += ["serde/toml decoding and deny_unknown_fields, clap's string->enum parsing, ec4rs file discovery: 'byte-identical output across "
                    "carriers' is claimed as 'the three carriers produce the same Config given the decoded enum values'"]
    flagged = []
    for kern, a_ in ((overrides, ("default",)), (overrides, ("full",)), (editorconfig, ()), (strictness, ())):
        try:
            flagged += kern(ses, rep, *a_)
        except Inconclusive as e:
            # a carrier rewritten in a way the kernel does not encode (e.g. a property parsed without its choice type): the carrier battery decides
            flagged.append((f"{kern.__name__}/{'/'.join(a_) or 'all'}/encodable", f"{kern.__name__} kernel not applicable to the current implementation ({str(e)[:120]})", "engine", {}))
    # the mapping only matters if every configuration route applies it: override dominance over src/cli/config.rs
    from .. import cfgorigin
    routes = cfgorigin.analyse(ses, rep)
    cfgorigin.confirm(rep, routes, "C20")
    # an option written in a carrier only means something if the carrier that applies to a file is the one consulted for THAT file:
    # the search kernels of C15 (per-directory caches, per-file editorconfig sections) decide this property as well
    from . import c15
    shared = []
    for kern in (c15.search, c15.precedence, c15.per_file_configuration):
        try:
            shared += kern(ses, rep)
        except Inconclusive as e:
            rep.add(f"search/{kern.__name__}", "inconclusive", str(e)[:200], nontrivial=False)
    if shared:
        v1, rec1 = c15.replay_per_file()
        sc, v2, rec2 = c15.battery() if not v1 else (None, None, None)
        for oid, what, kind, info in shared:
            v, rec = (v1, rec1) if v1 else (v2, rec2)
            if v:
                rep.add("search/" + oid, rep.violation({"obligation": "search/" + kind}, {"what": what, "observed": v, "replay_kind": "search", "run": rec}), f"{what}; {v}")
            else:
                rep.add("search/" + oid, "inconclusive", f"solver model ({what}) did not reproduce on the native build (configuration batteries)")
    rep.samples.append({"flagged": [(f[0], f[1]) for f in flagged + routes][:6]})
    if flagged:
        v, rec = carriers()
        for oid, what, kind, info in flagged:
            if v is None:
                rep.add(oid, "inconclusive", f"solver model ({what}) did not reproduce on the native build (carrier battery)")
            else:
                status = rep.violation({"obligation": kind, **{k: str(x) for k, x in info.items()}}, {"what": what, "observed": v, "run": rec})
                rep.add(oid, status, v)


def fallback(rep):
    """kernels undecided: the carrier and origin batteries are run; only a failing concrete oracle is reported"""
    v, rec = carriers()
    if v:
        rep.add("battery/carriers", rep.violation({"obligation": "battery-after-undecided-kernel", "scenario": "carriers"}, {"what": "kernel undecided; carrier battery", "observed": v, "run": rec}), v)
    from .. import cfgorigin
    for name, v, rec in cfgorigin.battery(common.native_build("default"))[:3]:
        rep.add(f"battery/{name}", rep.violation({"obligation": "battery-after-undecided-kernel", "scenario": name}, {"what": "kernel undecided; origin battery", "observed": v, **rec}), v)


def replay(path):
    v, rec = carriers()
    if not v:
        from . import c15
        v, _ = c15.replay_per_file()
        if not v:
            _sc, v, _ = c15.battery()
    if not v:
        from .. import cfgorigin
        fails = cfgorigin.battery(common.native_build("default"))
        if fails:
            v = f"scenario {fails[0][0]}: {fails[0][1]}"
    print(v or "carrier battery: every option means the same in all carriers")
    if v:
        print(f"VIOLATION property=C20 replay={path}")
        return 1
    return 0

"""C14 — a failing file is left untouched and does not stop the others (control-dependence kernel, DESIGN.md section 5).

Encoded (bin MIR, default features): format_file; every closure of `format` that calls format_file; every function of the
bin crate that contains a file-system mutating call site (site set read off the MIR, default-deny for std::fs/File).
Symbolic: Opt (all fields), Config, range, verification mode, and the results of every callee (havoc): read_to_string, format_code,
String::ne, fs::write ... so every control path of the real function is explored.
"""
import re, z3

from .. import clihooks, clireplay, common
from ..mirsym import Lazy, Agg, Ref, RefV, Sym, derives_from, vkey
from ..session import pc_and, find_calls
from ..summaries import canon
from ..common import Inconclusive

HOOKS = [clihooks.context_passthrough, clihooks.quiet_logging]


def fs_sites(funcs):
    """(function name, callee) for every fs-mutating call site in the crate's MIR"""
    out = []
    for name, lst in funcs.items():
        for f in lst:
            for bb, sts in f.blocks.items():
                for s in sts:
                    if s[0] == "call" and clihooks.is_fs_mutation(canon(s[2])):
                        out.append((name, canon(s[2])))
    return out


def opt_field(ex, st, opt_ref, field):
    idx = ex.enums.field_index("Opt", field)
    if idx is None:
        raise Inconclusive(f"struct Opt has no field `{field}` in the current tree")
    base = opt_ref.v if isinstance(opt_ref, RefV) else opt_ref
    fields = ex.enums.structs["Opt"]
    return ex.lazy_child(st, base, ("field", idx), fields[idx][1], f".{idx}")


BOOL_FLAGS = {"check": "--check", "verify": "--verify", "verbose": "--verbose", "allow_hidden": "--allow-hidden",
              "no_editorconfig": "--no-editorconfig", "respect_ignores": "--respect-ignores",
              "search_parent_directories": "--search-parent-directories"}
OUTPUT_FORMATS = {"Standard": "standard", "Unified": "unified", "Json": "json", "Summary": "summary"}


def opt_flags_from_model(ex, st, opt_ref, model):
    """CLI flags that realise the solver model's values of the Opt fields the path looked at"""
    flags = []
    if model is None:
        return flags
    base = opt_ref.v if isinstance(opt_ref, RefV) else opt_ref
    for i, (fname, fty) in enumerate(ex.enums.structs.get("Opt", [])):
        v = ex.lazy_tab.get((base.oid, ("field", i)))
        if v is None:
            continue
        if fname in BOOL_FLAGS and isinstance(v, Sym):
            if z3.is_true(model.eval(v.t, model_completion=True)):
                flags.append(BOOL_FLAGS[fname])
        if fname == "output_format" and isinstance(v, Lazy):
            d = ex.lazy_tab.get((v.oid, ("discr",)))
            if d is not None:
                k = model.eval(d, model_completion=True).as_long()
                nm = ex.enums.name("OutputFormat", k)
                if nm in OUTPUT_FORMATS and nm != "Standard":
                    flags += ["--output-format", OUTPUT_FORMATS[nm]]
    return flags


def analyse_format_file(ses, rep, ex):
    fn = ses.need(ex, "format_file")
    want = [p for p, t in fn.params]
    opt_i = [i for i, (p, t) in enumerate(fn.params) if re.fullmatch(r"&(opt::)?Opt", t.strip())]
    path_i = [i for i, (p, t) in enumerate(fn.params) if t.strip() in ("&Path", "&std::path::Path")]
    if len(opt_i) != 1 or len(path_i) != 1:
        raise Inconclusive("format_file signature changed: cannot identify the Opt / Path parameters")
    args = []
    for i, (p, t) in enumerate(fn.params):
        inner = t.strip()
        if i in opt_i or i in path_i:
            args.append(RefV(ex.fresh_lazy(inner.lstrip("&"), p + ":" + inner)))
        else:
            args.append(ex.fresh_lazy(inner, p + ":" + inner))
    outs = ex.run(fn, args)
    rep.bounds["format_file_paths"] = len(outs)
    bad = []
    nwrite = 0
    for pi, o in enumerate(outs):
        if o.kind not in ("return", "panic"):
            raise Inconclusive(f"format_file path ended with {o.kind}")
        writes = find_calls(o.trace, clihooks.is_fs_mutation)
        fc = find_calls(o.trace, lambda n: n.split("::")[-1] == "format_code")
        rd = find_calls(o.trace, lambda n: n.endswith("fs::read_to_string") or n.endswith("fs::read"))
        pc = list(o.pc)
        st = o.state
        check = opt_field(ex, st, args[opt_i[0]], "check")
        for wi, (wname, wargs, wres) in enumerate(writes):
            nwrite += 1
            oid = f"format_file/path{pi}/{wname}#{wi}"
            # O1: dominated by a successful format_code
            if not fc:
                r, m = ses.obligation(oid + "/after-format-ok", pc, z3.BoolVal(True))
                if r == "sat":
                    bad.append((oid + "/after-format-ok", "write on a path that never called format_code", "unformatted-or-broken", opt_flags_from_model(ex, st, args[opt_i[0]], m)))
                continue
            dfc = ex.discr(st, fc[-1][2])
            r, m = ses.obligation(oid + "/after-format-ok", pc, dfc != 0, "fs write only on the Ok edge of format_code")
            if r == "sat":
                bad.append((oid + "/after-format-ok", "write reachable when format_code returned Err", "broken", opt_flags_from_model(ex, st, args[opt_i[0]], m)))
            # O2: never under --check
            r, m = ses.obligation(oid + "/not-check", pc, check.t, "fs write only when opt.check is false")
            if r == "sat":
                bad.append((oid + "/not-check", "write reachable with --check", "check", opt_flags_from_model(ex, st, args[opt_i[0]], m)))
            # O3: only when the formatted text differs
            ne = find_calls(o.trace, lambda n: re.fullmatch(r"<std::string::String as PartialEq(<.*>)?>::(ne|eq)", n) is not None)
            ok_payload = ex.lazy_child(st, fc[-1][2], ("vfield", "Ok", 0), "?", ".Ok.0")
            guard = None
            for nname, nargs, nres in ne:
                if any(derives_from(ex, a, fc[-1][2].oid, 0, st) for a in nargs) and rd and any(derives_from(ex, a, rd[-1][2].oid, 0, st) for a in nargs):
                    guard = nres.t if nname.endswith("::ne") else z3.Not(nres.t)
            if guard is None:
                r, m = ses.obligation(oid + "/only-if-different", pc, z3.BoolVal(True))
                if r == "sat":
                    bad.append((oid + "/only-if-different", "write not guarded by a formatted != contents comparison", "formatted", opt_flags_from_model(ex, st, args[opt_i[0]], m)))
            else:
                r, m = ses.obligation(oid + "/only-if-different", pc, z3.Not(guard), "fs write only when formatted != contents")
                if r == "sat":
                    bad.append((oid + "/only-if-different", "write reachable when formatted == contents", "formatted", opt_flags_from_model(ex, st, args[opt_i[0]], m)))
            # O4: what is written, and where
            tgt_ok = len(wargs) >= 1 and vkey(wargs[0]) == vkey(args[path_i[0]])
            data = wargs[1] if len(wargs) >= 2 else None
            if isinstance(data, Ref):
                data = ex._read_key(st, data.key, data.path)
            data_ok = isinstance(data, Lazy) and data.oid == ok_payload.oid
            r, m = ses.obligation(oid + "/writes-formatted-to-path", pc, z3.BoolVal(not (tgt_ok and data_ok)),
                                  "write(path, Ok payload of format_code)")
            if r == "sat":
                bad.append((oid + "/writes-formatted-to-path", f"write arguments are not (path, formatted text): {wargs!r}", "unformatted-or-broken", opt_flags_from_model(ex, st, args[opt_i[0]], m)))
        # O5: Err results carry no effect after the failing call: implied by O1 for writes; reads are harmless.
        rep.samples.append({"path": pi, "outcome": o.kind, "result": repr(o.value)[:120], "effects": [w[0] for w in writes],
                            "guards": len(pc)}) if pi < 6 else None
    rep.bounds["format_file_write_sites_on_paths"] = nwrite
    return bad


def analyse_senders(ses, rep, ex, funcs):
    """every closure that calls format_file sends the result (Ok or Err) into the channel exactly once on every path"""
    bad = []
    cl = []
    for name, lst in funcs.items():
        if "{closure" not in name:
            continue
        for f in lst:
            for bb, sts in f.blocks.items():
                if any(s[0] == "call" and canon(s[2]).split("::")[-1] == "format_file" for s in sts):
                    cl.append(f)
    if not cl:
        raise Inconclusive("no closure calling format_file found (worker dispatch was refactored)")
    for f in cl:
        args = [ex.fresh_lazy(t, p + ":" + t) for p, t in f.params]
        outs = ex.run(f, args)
        for pi, o in enumerate(outs):
            ff = find_calls(o.trace, lambda n: n.split("::")[-1] == "format_file")
            sends = find_calls(o.trace, lambda n: re.search(r"Sender(<.*>)?::send$", n) is not None or n.endswith("::send"))
            oid = f"{f.name}/path{pi}/result-is-sent"
            good = bool(ff) and len(sends) == 1 and any(derives_from(ex, a, ff[-1][2].oid, 0, o.state) for a in sends[0][1])
            r, m = ses.obligation(oid, list(o.pc), z3.BoolVal(not good), "worker sends format_file's result (Ok or Err) exactly once")
            if r == "sat":
                bad.append((oid, "a worker path does not forward format_file's result to the output thread", "others"))
    return bad


def analyse_other_sites(ses, rep, ex, funcs, sites):
    """fs-mutating call sites outside format_file: each must be guarded (on every path reaching it) like the one in format_file;
    such a site is new code - it is analysed locally, loops cut at 2 visits."""
    bad = []
    todo = sorted({fn for fn, _ in sites if fn.split("::")[-1] != "format_file" and not fn.startswith("tests::")})
    for fname in todo:
        f = funcs[fname][0]
        ex2 = ses.executor("bin", "default", hooks=HOOKS, inline=lambda n, fn: False)
        ex2.max_block_visits = 2
        args = [ex2.fresh_lazy(t, p + ":" + t) for p, t in f.params]
        outs = ex2.run(f, args)
        for pi, o in enumerate(outs):
            for wi, (wname, wargs, wres) in enumerate(find_calls(o.trace, clihooks.is_fs_mutation)):
                oid = f"{fname}/path{pi}/{wname}#{wi}/unjustified-write-site"
                r, m = ses.obligation(oid, list(o.pc), z3.BoolVal(True))
                if r == "sat":
                    bad.append((oid, f"file-system mutation {wname} in {fname} outside the guarded write in format_file", "any"))
                    break
            else:
                continue
            break
    return bad


SCENARIOS = {
    # name -> (files, argv, oracle(res) -> violation description or None)
    "broken": ({"bad.lua": clireplay.BROKEN, "good.lua": clireplay.UNFORMATTED}, ["bad.lua", "good.lua"],
               lambda r: ("unparseable file modified" if clireplay.changed(r, "bad.lua") else
                          "other file not formatted" if r["after"]["good.lua"][0].decode() != clireplay.FORMATTED else
                          "exit status is not 2" if r["rc"] != 2 else
                          "unexpected new files " + str(clireplay.new_files(r)) if clireplay.new_files(r) else None)),
    "broken-last": ({"a.lua": clireplay.UNFORMATTED, "z.lua": clireplay.BROKEN}, ["a.lua", "z.lua"],
                    lambda r: ("unparseable file modified" if clireplay.changed(r, "z.lua") else
                               "other file not formatted" if r["after"]["a.lua"][0].decode() != clireplay.FORMATTED else
                               "exit status is not 2" if r["rc"] != 2 else None)),
    "formatted": ({"ok.lua": clireplay.FORMATTED}, ["ok.lua"],
                  lambda r: ("already-formatted file was rewritten/touched" if clireplay.changed(r, "ok.lua") else
                             "exit status is not 0" if r["rc"] != 0 else
                             "unexpected new files" if clireplay.new_files(r) else None)),
    "check": ({"u.lua": clireplay.UNFORMATTED}, ["--check", "u.lua"],
              lambda r: ("file changed under --check" if clireplay.changed(r, "u.lua") else
                         "unexpected new files" if clireplay.new_files(r) else None)),
    "unformatted": ({"u.lua": clireplay.UNFORMATTED}, ["u.lua"],
                    lambda r: ("file does not hold the formatted text" if r["after"].get("u.lua", (b"",))[0].decode() != clireplay.FORMATTED else
                               "unexpected new files " + str(clireplay.new_files(r)) if clireplay.new_files(r) else None)),
    "verify-broken": ({"bad.lua": clireplay.BROKEN}, ["--verify", "bad.lua"],
                      lambda r: ("unparseable file modified" if clireplay.changed(r, "bad.lua") else
                                 "exit status is not 2" if r["rc"] != 2 else None)),
    "dir": ({"d/a.lua": clireplay.UNFORMATTED, "d/b.lua": clireplay.BROKEN, "d/c.lua": clireplay.UNFORMATTED}, ["d"],
            lambda r: ("unparseable file modified" if clireplay.changed(r, "d/b.lua") else
                       "other files not formatted" if any(r["after"][k][0].decode() != clireplay.FORMATTED for k in ("d/a.lua", "d/c.lua")) else
                       "exit status is not 2" if r["rc"] != 2 else None)),
}
KIND2SCEN = {"broken": ["broken", "broken-last", "verify-broken", "dir"], "check": ["check"], "formatted": ["formatted"],
             "unformatted-or-broken": ["unformatted", "broken", "dir"], "others": ["broken", "broken-last", "dir"],
             "any": ["broken", "broken-last", "formatted", "check", "unformatted", "verify-broken", "dir"]}


def confirm(rep, flagged, scen=SCENARIOS, kind2scen=KIND2SCEN, prop="C14"):
    """replay each flagged obligation through the concrete scenarios of its kind on the native build"""
    if not flagged:
        return
    binp = common.native_build("default")
    cache = {}
    for item in flagged:
        oid, what, kind = item[:3]
        extra = [f for f in (item[3] if len(item) > 3 else [])]
        hit = None
        for sc in kind2scen.get(kind, kind2scen["any"]):
            files, argv, oracle = scen[sc]
            for fl in ([], extra) if extra else ([],):
                av = [f for f in fl if f not in argv] + list(argv)
                if "--check" not in av and any(x in av for x in ("unified", "summary")):
                    continue
                ck = (sc, tuple(av))
                if ck not in cache:
                    cache[ck] = clireplay.run_cli(binp, files, av)
                res = cache[ck]
                v = oracle(res)
                if v:
                    break
            else:
                continue
            if v:
                hit = (sc, v, res)
                break
        if hit is None:
            rep.add(oid, "inconclusive", f"solver model ({what}) did not reproduce on the native build in scenarios {kind2scen.get(kind)}")
            continue
        sc, v, res = hit
        role = {"obligation": re.sub(r"path\d+/", "", oid), "scenario": sc, "observed": v}
        status = rep.violation(role, {"what": what, "scenario": sc, "observed": v, "run": clireplay.describe(res)})
        rep.add(oid, status, f"{what}; confirmed by scenario `{sc}`: {v}")


def run(ses, rep):
    rep.assumptions += [
        "callee results are unconstrained (havoc): read_to_string, format_code, create_diff, String::ne, fs::write, logging",
        "anyhow::Context::{context,with_context} and Result::map_err map Ok to Ok and Err to Err (summary)",
        "std::fs::write either replaces the file content or fails (its atomicity is the OS's, outside the claim)",
        "the thread pool runs every submitted closure; crossbeam delivers every sent value once",
    ]
    rep.outside += ["atomicity of fs::write; read-only files; worker panics (threadpool); the three `?` in the walk loop "
                    "(load_configuration, path_is_stylua_ignored) abort the walk: configuration errors, not file failures",
                    "format_ast's verification branch is covered by its own obligation only as 'Err is returned before the AST'"]
    funcs = ses.mir("bin", "default")
    ex = ses.executor("bin", "default", hooks=HOOKS, inline=lambda n, fn: False)
    sites = fs_sites(funcs)
    rep.extra["fs_mutation_sites"] = sorted(set(sites))
    flagged = []
    flagged += analyse_format_file(ses, rep, ex)
    flagged += analyse_senders(ses, rep, ex, funcs)
    flagged += analyse_other_sites(ses, rep, ex, funcs, sites)
    if not any(fn.split("::")[-1] == "format_file" for fn, _ in sites):
        # no write at all in format_file: files are never updated -> "every other selected file is still formatted" fails
        flagged.append(("format_file/no-write-site", "format_file contains no file write", "unformatted-or-broken"))
    flagged += lib_verification(ses, rep)
    flagged += terminators(ses, rep, funcs)
    flagged += early_returns(ses, rep, funcs)
    aborts = loop_exits_join(ses, rep, funcs)
    if aborts:
        v, rec = replay_abort()
        for oid, what, kind in aborts:
            if v:
                rep.add(oid, rep.violation({"obligation": "loop-exit-without-join"}, {"what": what, "observed": v, "scenario": "abort-mid-run", "run": rec}), f"{what}; {v}")
            else:
                rep.add(oid, "inconclusive", f"{what}: 40 runs of the abort scenario left the earlier file complete every time")
    # "the exit status is 2": one step of the output thread for a failing file, from any status (shared with C13)
    from . import c13
    st_flags = [f for f in c13.status_step(ses, rep, funcs) if "/Err/" in f[0]]
    confirm(rep, flagged)
    c14_scen = dict(c13.SCENARIOS)
    c14_scen.update(WRITE_STATUS)
    confirm(rep, [(a, b, "write-status", fl) for a, b, _k, fl in st_flags], c14_scen, {"write-status": list(WRITE_STATUS), "any": list(WRITE_STATUS)}, "C14")


WRITE_STATUS = {
    "write-broken-status": ({"a.lua": clireplay.UNFORMATTED, "bad.lua": clireplay.BROKEN}, ["a.lua", "bad.lua"],
                            lambda r: ("exit status is %d, not 2, although a file failed to parse" % r["rc"] if r["rc"] != 2 else None)),
    "write-unreadable-status": ({"a.lua": clireplay.UNFORMATTED, "bin.lua": b"\xff\xfe local x = 1\n"}, ["a.lua", "bin.lua"],
                                lambda r: ("exit status is %d, not 2, although a file could not be read" % r["rc"] if r["rc"] != 2 else
                                           "other file not formatted" if r["after"]["a.lua"][0].decode() != clireplay.FORMATTED else None)),
}
for _fmt in ("json",):      # (unified / summary are only accepted together with --check)
    WRITE_STATUS[f"write-unreadable-status-{_fmt}"] = (
        {"a.lua": clireplay.UNFORMATTED, "bin.lua": b"\xff\xfe local x = 1\n"}, ["--output-format", _fmt, "a.lua", "bin.lua"],
        lambda r: ("exit status is %d, not 2, although a file could not be read" % r["rc"] if r["rc"] != 2 else
                   "other file not formatted" if r["after"]["a.lua"][0].decode() != clireplay.FORMATTED else None))
    WRITE_STATUS[f"write-unreadable-first-status-{_fmt}"] = (
        {"z.lua": clireplay.UNFORMATTED, "bin.lua": b"\xff\xfe local x = 1\n"}, ["--output-format", _fmt, "--num-threads", "1", "bin.lua", "z.lua"],
        lambda r: ("exit status is %d, not 2, although a file could not be read" % r["rc"] if r["rc"] != 2 else
                   "other file not formatted" if r["after"]["z.lua"][0].decode() != clireplay.FORMATTED else None))
    WRITE_STATUS[f"write-missing-path-status-{_fmt}"] = (
        {"a.lua": clireplay.UNFORMATTED}, ["--output-format", _fmt, "a.lua", "no-such-file.lua"],
        lambda r: ("exit status is %d, not 2, although a path does not exist" % r["rc"] if r["rc"] != 2 else
                   "other file not formatted" if r["after"]["a.lua"][0].decode() != clireplay.FORMATTED else None))
    WRITE_STATUS[f"write-broken-status-{_fmt}"] = (
        {"a.lua": clireplay.UNFORMATTED, "bad.lua": clireplay.BROKEN}, ["--output-format", _fmt, "a.lua", "bad.lua"],
        lambda r: ("exit status is %d, not 2, although a file failed to parse" % r["rc"] if r["rc"] != 2 else
                   "unparseable file modified" if clireplay.changed(r, "bad.lua", True) else
                   "other file not formatted" if r["after"]["a.lua"][0].decode() != clireplay.FORMATTED else None))
CRASH = "local   y   =   0xffffffffffffffff\n"      # AstVerifier panics on a hex literal wider than i64 under --verify (pinned tree)


# `?` sites of format(): where one entry's failure ends the whole run. The pinned tree has exactly these sources (set-up errors and
# configuration / ignore-file errors, which are fatal by design); any other source means a single path can stop the others.
EARLY_RETURN_SOURCES = ("ConfigResolver::new", "current_dir", "OverrideBuilder::add", "OverrideBuilder::build", "path_is_stylua_ignored",
                        "load_configuration_for_stdin", "load_configuration", "Builder::build", "ThreadPoolBuilder::build")


def early_returns(ses, rep, funcs):
    bad = []
    cands = [f for f in funcs.get("format", []) if f.kind == "fn"]
    if len(cands) != 1:
        raise Inconclusive("format(): not found")
    fn = cands[0]
    defs = {}
    for bb, sts in fn.blocks.items():
        for s_ in sts:
            if s_[0] == "call" and s_[1] is not None and not s_[1].proj:
                defs[s_[1].local] = ("call", canon(s_[2]), s_[3])
            elif s_[0] == "assign" and not s_[1].proj:
                defs[s_[1].local] = ("assign", s_[2])
    n = 0
    for bb, sts in fn.blocks.items():
        for s_ in sts:
            if s_[0] == "call" and canon(s_[2]).endswith("Try>::branch"):
                n += 1
                # walk back through wrappers (context / with_context / map_err / moves) to the call that produced the Result
                op, src, steps = s_[3][0], None, 0
                while steps < 8:
                    steps += 1
                    loc = op[1].local if isinstance(op, tuple) and len(op) > 1 and hasattr(op[1], "local") else None
                    d_ = defs.get(loc)
                    if d_ is None:
                        break
                    if d_[0] == "call":
                        last = d_[1].split("::")[-1]
                        if last in ("context", "with_context", "map_err", "map", "into_result") and d_[2]:
                            op = d_[2][0]
                            continue
                        src = d_[1]
                        break
                    rv = d_[1]
                    if isinstance(rv, tuple) and rv[0] == "use":
                        op = rv[1]
                        continue
                    break
                ok = src is not None and any(src.endswith(a) for a in EARLY_RETURN_SOURCES)
                r, m = ses.obligation(f"early-return/format/{bb}/{(src or '?').split('::')[-1]}", [], z3.BoolVal(not ok),
                                      "format() gives up early only for set-up, configuration and ignore-file errors")
                if r == "sat":
                    bad.append((f"early-return/format/{bb}", f"format() returns early when {src or 'an unknown call'} fails: one entry can stop the others", "early-return"))
    rep.bounds["format_try_sites"] = n
    if n < 4:
        raise Inconclusive(f"format(): only {n} `?` sites recognised")
    return bad


def cfg_succ(fn, unwind=False):
    succ = {}
    for bb, sts in fn.blocks.items():
        t = sts[-1]
        out = []
        if t[0] == "goto":
            out = [t[1]]
        elif t[0] == "switch":
            out = [x[1] for x in t[2]]
        elif t[0] == "call":
            out = [v for k, v in t[4].items() if k == "return" or unwind]
        elif t[0] == "drop":
            out = [v for k, v in t[2].items() if k == "return" or unwind]
        succ[bb] = out
    return succ


def loop_exits_join(ses, rep, funcs):
    """the process exits right after format() returns (main -> process::exit): a return out of the walker loop - after jobs may have been
    handed to the pool - must pass pool.join(), or a worker is cut off between fs::write's truncate and its write.
    Decided on the CFG of format(): every non-unwind path from inside the walker loop to `return` goes through ThreadPool::join."""
    bad = []
    cands = [f for f in funcs.get("format", []) if f.kind == "fn"]
    if len(cands) != 1:
        raise Inconclusive("format(): not found")
    fn = cands[0]
    succ = cfg_succ(fn)
    head = [bb for bb, sts in fn.blocks.items() for s_ in sts if s_[0] == "call" and canon(s_[2]).endswith("Walk as Iterator>::next")]
    joins = {bb for bb, sts in fn.blocks.items() for s_ in sts if s_[0] == "call" and canon(s_[2]).endswith("ThreadPool::join")}
    execs = {bb for bb, sts in fn.blocks.items() for s_ in sts if s_[0] == "call" and canon(s_[2]).endswith("ThreadPool::execute")}
    if len(head) != 1 or not joins or not execs:
        raise Inconclusive(f"format(): walker loop / pool.join / pool.execute not found ({len(head)}, {len(joins)}, {len(execs)})")

    def reach(src, avoid=()):
        seen, todo = set(), [src]
        while todo:
            b = todo.pop()
            if b in seen or b in avoid:
                continue
            seen.add(b)
            todo += succ.get(b, [])
        return seen
    fwd = reach(head[0])
    loop = {b for b in fwd if head[0] in reach(b)}
    n = 0
    for b in sorted(loop, key=lambda x: int(x[2:])):
        for c in succ.get(b, []):
            if c in loop:
                continue
            n += 1
            r_ = reach(c, avoid=joins)
            rets = [x for x in r_ if fn.blocks[x][-1][0] == "return"]
            why = ""
            if rets:
                calls = [canon(s_[2]).split("::")[-1] for x in [b] for s_ in fn.blocks[x] if s_[0] == "call"]
                why = f"exit {b}->{c}" + (f" after {calls[-1]}" if calls else "")
            r, m = ses.obligation(f"loop-exit/format/{b}->{c}/passes-pool.join", [], z3.BoolVal(bool(rets)),
                                  "every way out of the walker loop waits for the jobs already handed to the pool")
            if r == "sat":
                bad.append((f"loop-exit/format/{b}->{c}", f"format() can return from inside the walker loop without pool.join() ({why}): the process exits while a worker "
                            "may be between truncating and writing a file", "abort"))
    # what makes the loop end: besides the walker running out of entries, only the failure of a set-up / configuration / ignore-file call
    # (the same sources format() may give up for) - anything else means ONE entry's trouble stops all the others
    defs = {}
    for bb_, sts in fn.blocks.items():
        for s_ in sts:
            if s_[0] == "call" and s_[1] is not None and not s_[1].proj:
                defs.setdefault(s_[1].local, []).append(("call", canon(s_[2]), s_[3]))
            elif s_[0] == "assign" and not s_[1].proj:
                defs.setdefault(s_[1].local, []).append(("assign", s_[2]))
    for b in sorted(loop, key=lambda x: int(x[2:])):
        outs_ = [c for c in succ.get(b, []) if c not in loop and fn.blocks[c] and fn.blocks[c][-1][0] != "unreachable"]
        if not outs_:
            continue
        sw = [s_ for s_ in fn.blocks[b] if s_[0] == "switch"]
        src = None
        if sw:
            op = sw[-1][1]
            loc = op[1].local if isinstance(op, tuple) and len(op) > 1 and hasattr(op[1], "local") else None
            for _ in range(8):
                ds = defs.get(loc, [])
                if len(ds) != 1:
                    break
                d_ = ds[0]
                if d_[0] == "call":
                    last = d_[1].split("::")[-1]
                    if last in ("context", "with_context", "map_err", "map", "into_result", "branch") and d_[2]:
                        a0 = d_[2][0]
                        loc = a0[1].local if isinstance(a0, tuple) and len(a0) > 1 and hasattr(a0[1], "local") else None
                        continue
                    src = d_[1]
                    break
                rv = d_[1]
                if isinstance(rv, tuple) and rv[0] in ("discriminant",) and hasattr(rv[1], "local"):
                    loc = rv[1].local
                    continue
                if isinstance(rv, tuple) and rv[0] == "use" and isinstance(rv[1], tuple) and len(rv[1]) > 1 and hasattr(rv[1][1], "local"):
                    loc = rv[1][1].local
                    continue
                break
        for c in outs_:
            ok = src is not None and (src.endswith("Walk as Iterator>::next") or any(src.endswith(a) for a in EARLY_RETURN_SOURCES))
            r, m = ses.obligation(f"loop-exit/format/{b}->{c}/cause/{(src or '?').split('::')[-1]}", [], z3.BoolVal(not ok),
                                  "the walker loop ends when the walker is exhausted or a set-up / configuration / ignore-file call fails, never for one entry's own trouble")
            if r == "sat":
                bad.append((f"loop-exit/format/{b}->{c}/cause", f"the walker loop is left when {src or 'an unidentified test'} fails: one entry can stop the others", "early-return"))
    rep.bounds["walker_loop_blocks"] = len(loop)
    rep.bounds["walker_loop_exits"] = n
    if n < 1:
        raise Inconclusive("format(): the walker loop has no exit edge")
    return bad


def replay_abort(runs=40):
    """a configuration error met in the middle of the walk ends the run: files handed to the pool before must still be complete"""
    binp = common.native_build("default")
    body = "local  z = 1\n"
    want = None
    states = {}
    for i in range(runs):
        r = clireplay.run_cli(binp, {"a/x.lua": body, "b/stylua.toml": "column_width = 'oops'\n", "b/y.lua": clireplay.UNFORMATTED}, ["--num-threads", "4", "a", "b"])
        if want is None:
            want = clireplay.run_cli(binp, {"a/x.lua": body}, ["a"])["after"]["a/x.lua"][0]
        got = r["after"].get("a/x.lua", (b"",))[0]
        st_ = "formatted" if got == want else "untouched" if got == body.encode() else f"partial ({len(got)} of {len(want)} bytes)"
        states[st_] = states.get(st_, 0) + 1
        if st_.startswith("partial"):
            return (f"`stylua a b` with a broken b/stylua.toml: a/x.lua was left {st_} - neither its original bytes nor its complete formatted text "
                    f"(run {i + 1}; exit status {r['rc']})"), clireplay.describe(r)
    if len(states) > 1:
        return f"`stylua a b` with a broken b/stylua.toml: a/x.lua ends up {states} over {runs} identical runs", {"states": states}
    return None, {}


def terminators(ses, rep, funcs):
    """a crash in one worker must not stop the others: process::exit / abort only at the end of main, no panic hook that exits"""
    bad = []
    sites = []
    for name, lst in funcs.items():
        for f in lst:
            for bb, sts in f.blocks.items():
                for s_ in sts:
                    if s_[0] == "call":
                        c = canon(s_[2])
                        if re.search(r"(^|::)process::(exit|abort)$", c) or c in ("exit", "abort", "std::process::exit", "std::process::abort"):
                            sites.append((name, c))
    rep.extra["process_exit_sites"] = sorted(set(sites))
    for name, c in sorted(set(sites)):
        ok = name == "main"
        r, m = ses.obligation(f"terminators/{name}/{c}", [], z3.BoolVal(not ok), "the process is terminated only at the end of main")
        if r == "sat":
            bad.append((f"terminators/{name}/{c}", f"{c} is called from {name}: one failing file can stop the others", "crash"))
    return bad


SCENARIOS_EXTRA = {
    # a worker that panics: the debug build overflows in the indent arithmetic for an absurd indent_width (no crashing INPUT is known for the repaired tree)
    "crash": ({"a.lua": clireplay.UNFORMATTED, "huge/stylua.toml": "indent_width = 9223372036854775807\n", "huge/m.lua": "do\n\tdo\n\t\tdo\n\t\t\tlocal   a = 1\n\t\tend\n\tend\nend\n",
               "n.lua": clireplay.UNFORMATTED, "z.lua": clireplay.UNFORMATTED},
              ["--num-threads", "1", "a.lua", "huge", "n.lua", "z.lua"],
              lambda r: (None if "panicked" not in r["err"] else        # (a build without overflow checks does not crash: the scenario then says nothing)
                         "a crash while formatting one file left other files unformatted" if any(
                  r["after"][k][0].decode() != clireplay.FORMATTED for k in ("a.lua", "n.lua", "z.lua")) else
                  "crashing file was modified" if clireplay.changed(r, "huge/m.lua", True) else
                  "exit status is %d, not 2" % r["rc"] if r["rc"] != 2 else None)),
}
SCENARIOS_EXTRA["dangling-symlink"] = (
    {"d1/a.lua": clireplay.UNFORMATTED, "d2/bad.lua": clireplay.BROKEN, "d2/stale.lua": ("symlink", "does-not-exist.lua"), "d3/c.lua": clireplay.UNFORMATTED,
     "d3/e.lua": clireplay.UNFORMATTED}, ["--num-threads", "1", "d1", "d2", "d3"],
    lambda r: ("an entry that cannot be resolved left other files unformatted" if any(
        r["after"][k][0].decode() != clireplay.FORMATTED for k in ("d1/a.lua", "d3/c.lua", "d3/e.lua")) else
        "unparseable file modified" if clireplay.changed(r, "d2/bad.lua", True) else None))
SCENARIOS_EXTRA["latin1"] = (
    {"a.lua": clireplay.UNFORMATTED, "legacy.lua": b"-- caf\xe9\nlocal   s   =   \"na\xefve\"\n"}, ["a.lua", "legacy.lua"],
    lambda r: ("a file that is not valid UTF-8 was rewritten" if clireplay.changed(r, "legacy.lua", True) else
               "exit status is %d, not 2, although a file could not be read" % r["rc"] if r["rc"] != 2 else
               "other file not formatted" if r["after"]["a.lua"][0].decode() != clireplay.FORMATTED else None))
SCENARIOS_EXTRA["byte-order-mark"] = (
    {"bom.lua": "\ufeff" + clireplay.FORMATTED, "u.lua": clireplay.UNFORMATTED}, ["bom.lua", "u.lua"],
    lambda r: ("a file that starts with a byte order mark and is otherwise formatted (or is rejected) was rewritten/touched" if clireplay.changed(r, "bom.lua") else
               "other file not formatted" if r["after"]["u.lua"][0].decode() != clireplay.FORMATTED else None))
SCENARIOS.update(SCENARIOS_EXTRA)
KIND2SCEN["early-return"] = ["dangling-symlink", "dir", "broken"]
for _k in ("unformatted-or-broken", "others", "any", "broken", "formatted"):
    KIND2SCEN[_k] = KIND2SCEN[_k] + ["latin1", "byte-order-mark"]
KIND2SCEN["crash"] = ["crash"]
KIND2SCEN["any"] = KIND2SCEN["any"] + ["crash"]


def _unused():
    pass


def lib_verification(ses, rep):
    """lib: format_code returns Err whenever format_ast returns Err or the parse fails; format_ast returns Err on both
    verification failures (never the AST)."""
    bad = []
    ex = ses.executor("lib", "default", hooks=HOOKS, inline=lambda n, fn: False)
    fn = ses.need(ex, "format_code")
    args = [ex.fresh_lazy(t, p + ":" + t) for p, t in fn.params]
    outs = ex.run(fn, args)
    for pi, o in enumerate(outs):
        if o.kind != "return":
            continue
        fa = find_calls(o.trace, lambda n: n.split("::")[-1] == "format_ast")
        pr = find_calls(o.trace, lambda n: n.endswith("into_result"))
        v = o.value
        is_ok = isinstance(v, Agg) and v.variant == "Ok"
        if isinstance(v, Lazy):
            continue
        conds = []
        if is_ok:       # success is only ever reported for text that went through the parser and the formatter
            for nm, calls in (("parsed-before-ok", pr), ("formatted-before-ok", fa)):
                oid = f"format_code/path{pi}/{nm}"
                r, m = ses.obligation(oid, list(o.pc), z3.BoolVal(not calls), "an Ok path of format_code calls the parser and format_ast")
                if r == "sat":
                    bad.append((oid, f"format_code returns Ok on a path that never {'parses the text' if nm.startswith('parsed') else 'calls format_ast'}", "broken"))
        if pr:
            conds.append(("parse-error-propagates", ex.discr(o.state, pr[-1][2]) != 0))
        if fa:
            conds.append(("format-error-propagates", ex.discr(o.state, fa[-1][2]) != 0))
        for nm, failing in conds:
            oid = f"format_code/path{pi}/{nm}"
            r, m = ses.obligation(oid, list(o.pc) + [z3.BoolVal(is_ok)], failing, "Ok only if parse and format_ast succeeded") if is_ok else ("skip", None)
            if r == "sat":
                bad.append((oid, "format_code returns Ok although parsing/formatting failed", "broken"))
    fn = ses.need(ex, "format_ast")
    ex.max_block_visits = 3
    args = [ex.fresh_lazy(t, p + ":" + t) for p, t in fn.params]
    outs = ex.run(fn, args)
    for pi, o in enumerate(outs):
        if o.kind != "return":
            continue
        v = o.value
        is_ok = isinstance(v, Agg) and v.variant == "Ok"
        rp = find_calls(o.trace, lambda n: n.endswith("into_result"))
        cmp_ = find_calls(o.trace, lambda n: n.endswith("AstVerifier::compare") or n.split("::")[-1] == "compare")
        if is_ok:
            for nm, calls, failing in (("verify-parse", rp, lambda c: ex.discr(o.state, c[2]) != 0),
                                       ("verify-compare", cmp_, lambda c: z3.Not(c[2].t))):
                for c in calls:
                    oid = f"format_ast/path{pi}/{nm}"
                    r, m = ses.obligation(oid, list(o.pc), failing(c), "Ok(ast) only if verification passed")
                    if r == "sat":
                        bad.append((oid, "format_ast returns Ok although verification failed", "broken"))
    return bad


def fallback_scenarios(rep, scen, prop):
    """kernels undecided: every scenario of the table is run with its own command line; only a failing concrete oracle is reported"""
    binp = common.native_build("default")
    for sc, (files, argv, oracle) in scen.items():
        res = clireplay.run_cli(binp, files, list(argv))
        v = oracle(res)
        if v:
            st = rep.violation({"obligation": "battery-after-undecided-kernel", "scenario": sc}, {"what": "kernel undecided; scenario battery", "scenario": sc, "observed": v,
                                                                                                   "run": {"argv": list(argv)}})
            rep.add(f"battery/{sc}", st, v)


def fallback(rep):
    from . import c13
    fallback_scenarios(rep, {**c13.SCENARIOS, **SCENARIOS, **WRITE_STATUS}, "C14")


def replay(path):
    import json
    d = json.load(open(path))
    sc = d["replay"]["scenario"]
    from . import c13
    files, argv, oracle = {**c13.SCENARIOS, **SCENARIOS, **WRITE_STATUS}[sc]
    argv = d["replay"].get("run", {}).get("argv", argv)
    res = clireplay.run_cli(common.native_build("default"), files, argv)
    v = oracle(res)
    print("scenario", sc, argv, "->", v or "property holds")
    if v:
        print(f"VIOLATION property=C14 replay={path}")
        return 1
    return 0

"""C06 — formatting is idempotent (kernel scope: the layout decision that reads the *input* layout; DESIGN.md section 5).

Encoded from the MIR: the integer slice of format_table_constructor (positions of the braces, the whitespace flags, Shape arithmetic
with the real Shape/Indent methods inlined, over_budget) executed twice - on an arbitrary input spacing and on the canonical
single-line spacing the formatter emits - and compared.
  O1 input whose inner separators are already canonical (`, `): the single-line decision is stable      -> must hold
  O2 arbitrary separator spacing: pass 1 measures the input's spacing, pass 2 the canonical one           -> known finding F5
"""
import json, re, z3

from .. import common, luaexpr
from ..common import Inconclusive
from ..mirsym import Sym, Str, Agg, Lazy, Ref, RefV, FnItem, UNIT
from ..summaries import canon, deref_val, opt_some, opt_none
from ..session import find_calls

SHAPE_FNS = re.compile(r"(^|::)(shape::)?(Shape|Indent)(::|$)|<(shape::)?Shape as (std::ops::)?Add<usize>>::add")


def decision_paths(ses, rep):
    """-> list of (pc, decision in {'single','multi','empty'}, panic?) + the symbol table of the integer slice"""
    sym = {}

    def hook(ex_, st, callee, args, dty):
        c = canon(callee)
        if re.search(r"as Iterator>::any$", c) and len(args) == 2 and isinstance(args[1], FnItem):
            pred = args[1].name.split("::")[-1]
            k = st.aux.get(("any", pred), 0)
            st.aux[("any", pred)] = k + 1
            b = z3.Bool(f"{pred}#{k}")
            sym[f"{pred}#{k}"] = b
            return Sym(b, "bool")
        if c.endswith("Position::bytes"):
            p = deref_val(ex_, st, args[0])
            hc = ex_.havoc_calls.get(p.oid) if isinstance(p, Lazy) else None
            name = "pos"
            if hc:
                which = hc[0].split("::")[-1]
                owner = deref_val(ex_, st, hc[1][0])
                ohc = ex_.havoc_calls.get(owner.oid) if isinstance(owner, Lazy) else None
                of = ohc[0].split("::")[-1] if ohc else "trivia"
                arg0 = deref_val(ex_, st, ohc[1][0]) if ohc else None
                name = f"{which}:{of}:{getattr(arg0, 'label', '')}"
            v = z3.BitVec(name, 64)
            sym[name] = v
            return Sym(v, "usize")
        if re.search(r"Punctuated(<.*>)?::iter$", c):
            return Lazy(next(ex_.oid_counter), dty, "fields_iter", 0, {"fields_iter": True})
        if re.search(r"punctuated::Iter<.*> as Iterator>::next$", c):
            has = z3.Bool("has_fields")
            sym["has_fields"] = has
            return [(has, opt_some(dty, RefV(ex_.fresh_lazy("Field", "first_field")))), (z3.Not(has), opt_none(dty))]
        if re.search(r"Punctuated(<.*>)?::last$", c):
            return opt_some(dty, RefV(ex_.fresh_lazy("Pair<Field>", "last_pair")))      # has_fields => a last field exists
        if re.search(r"as Iterator>::last$", c):
            has = z3.Bool("open_brace_has_leading_trivia")
            tok = ex_.fresh_lazy("Token", "last_leading_trivia")
            return [(has, opt_some(dty, RefV(tok))), (z3.Not(has), opt_none(dty))]
        if c.endswith("ContainedSpan::tokens"):
            return Agg(dty, None, [RefV(Lazy(next(ex_.oid_counter), "TokenReference", "open_brace", 0, {})),
                                   RefV(Lazy(next(ex_.oid_counter), "TokenReference", "close_brace", 0, {}))])
        return NotImplemented
    # Indent::indent_width() multiplies two symbolic words; its value is the same in both passes, so it stays one free symbol
    ex = ses.executor("lib", "default", hooks=[hook],
                      inline=lambda n, f: bool(SHAPE_FNS.search(canon(n))) and canon(n).split("::")[-1] != "indent_width")
    fn = ses.need(ex, "format_table_constructor")
    args = [RefV(ex.fresh_lazy(t.lstrip("&"), p)) if t.startswith("&") else ex.fresh_lazy(t, p) for p, t in fn.params]
    shape = [a for a, (p, t) in zip(args, fn.params) if re.search(r"(^|::)Shape$", t)][0]
    outs = ex.run(fn, args)
    res = []
    for o in outs:
        if o.kind == "panic":
            res.append((list(o.pc), "panic:" + str(o.value)))
            continue
        if o.kind != "return":
            raise Inconclusive(f"format_table_constructor path ended with {o.kind}")
        names = {t[1].split("::")[-1] for t in o.trace if t[0] == "havoc"}
        if "format_singleline_table" in names: d = "single"
        elif "format_multiline_table" in names: d = "multi"
        elif "create_table_braces" in names: d = "empty"
        else:
            raise Inconclusive("format_table_constructor: layout decision not recognised on a path")
        res.append((list(o.pc), d))
    # shape symbols
    T = ex.enums
    sh = {}
    def fld(lz, struct, name, ty):
        return ex.lazy_child(None, lz, ("field", T.field_index(struct, name)), ty, "." + name)
    sh["offset"] = fld(shape, "Shape", "offset", "usize").t
    sh["column_width"] = fld(shape, "Shape", "column_width", "usize").t
    for (k_, v_) in ex.havoc_memo.items():
        if k_[0].split("::")[-1] == "indent_width" and isinstance(v_, Sym):
            sh["indent_columns"] = v_.t
    se = [t for t in outs[0].trace if False]
    expand = None
    for (k_, v_) in ex.havoc_memo.items():
        if k_[0].split("::")[-1] == "should_expand" and isinstance(v_, Sym):
            expand = v_.t
    return res, sym, sh, expand, ex


def run(ses, rep):
    quick = rep.tier == "quick"
    F = 3
    rep.bounds.update({"fields": F, "widths_below": 2 ** 16, "table_levels": 1})
    rep.assumptions += ["field texts are already in their formatted form (width l_i unchanged by formatting); separators are a comma plus s_i >= 0 blanks",
                        "canonical single-line spacing is `{ f1, f2, f3 }` (constants of create_table_braces / format_singleline_table)",
                        "should_expand gives the same answer in both passes"]
    rep.outside += ["every other trial-format-then-measure heuristic (call arguments, call chains, assignment tactics): they re-measure formatter "
                    "output, deciding them needs the whole formatter", "the blank-line fold of load_token_trivia (not encoded in this round)"]
    paths, sym, sh, expand, ex = decision_paths(ses, rep)
    rep.extra["decision_paths"] = len(paths)
    start_names = [n for n in sym if n.startswith("end_position")]
    end_names = [n for n in sym if n.startswith("start_position")]
    if not start_names or not end_names:
        raise Inconclusive(f"brace positions not found in the integer slice: {list(sym)}")
    nl = sym.get("trivia_is_newline#0")
    ws0, ws1 = sym.get("trivia_is_whitespace#0"), sym.get("trivia_is_whitespace#1")
    if nl is None:
        raise Inconclusive(f"newline flag not found in the integer slice: {list(sym)}")
    has_fields = sym["has_fields"]

    class Dec:
        """the MIR paths under a substitution of the slice's symbols, grouped by outcome"""
        def __init__(self, subst):
            self.by = {}
            for pc, d in paths:
                c = z3.And([z3.substitute(x, *subst) for x in pc]) if pc else z3.BoolVal(True)
                code = {"single": 0, "multi": 1, "empty": 2}.get(d, 3)
                self.by.setdefault(code, []).append(c)

        def __eq__(self, code):
            return z3.Or(self.by.get(code, []) + [z3.BoolVal(False)])

        def __ne__(self, code):
            return z3.Not(self == code)

    def decision(subst):
        return Dec(subst)

    # symbolic input layout (all 64-bit, bounded, so no wrap-around inside the model)
    B = lambda n: z3.BitVec(n, 64)
    K = lambda v: z3.BitVecVal(v, 64)
    a, b = B("a_ws_after_open"), B("b_ws_before_close")
    ell = [B(f"l{i}") for i in range(F)]
    sep = [B(f"s{i}") for i in range(F - 1)]
    nf = B("fields")
    pos0 = B("open_brace_end")
    def total(parts):
        t = K(0)
        for p_ in parts:
            t = t + p_
        return t
    base = [z3.ULT(a, K(2 ** 16)), z3.ULT(b, K(2 ** 16)), z3.ULT(pos0, K(2 ** 32))]
    base += [z3.And(z3.UGE(l, K(1)), z3.ULT(l, K(2 ** 16))) for l in ell] + [z3.ULT(s_, K(2 ** 16)) for s_ in sep]
    for k_, v_ in sh.items():
        base.append(z3.ULT(v_, z3.BitVecVal(2 ** 16 if k_ != "column_width" else 2 ** 20, 64)))
    base += ex.all_discr_ranges()

    def subst_for(start, end, ws_open, ws_close, newline, any_other_ws):
        s_ = [(sym[n], start) for n in start_names] + [(sym[n], end) for n in end_names]
        s_ += [(nl, newline), (has_fields, z3.BoolVal(True))]
        s_ += [(ws0, ws_open)] if ws0 is not None else []
        s_ += [(ws1, ws_close)] if ws1 is not None else []
        for n, v in sym.items():
            if n.startswith("trivia_is_whitespace#") and n not in ("trivia_is_whitespace#0", "trivia_is_whitespace#1"):
                s_.append((v, any_other_ws))
        return s_
    flagged = []
    T_, F_ = z3.BoolVal(True), z3.BoolVal(False)
    for k in range(1, F + 1):       # number of fields (one query family per count keeps the formulas small)
        fields_w = total(ell[:k])
        inner_in = fields_w + total([K(1) + sep[i] for i in range(k - 1)])
        inner_canon = fields_w + K(2 * (k - 1))
        fix = [nf == K(k)]
        d_in = decision(subst_for(pos0, pos0 + a + inner_in + b, a != K(0), b != K(0), F_, b != K(0)))
        d_in_c = decision(subst_for(pos0, pos0 + a + inner_canon + b, a != K(0), b != K(0), F_, b != K(0)))
        d_out = decision(subst_for(pos0, pos0 + K(1) + inner_canon + K(1), T_, T_, F_, T_))
        d_nl = decision(subst_for(pos0, pos0 + K(1) + inner_canon + K(1), T_, T_, T_, T_))
        r, m = ses.obligation(f"table/fields={k}/decision-never-panics", base + fix, z3.Or(d_in == 3, d_out == 3), "end >= start: no underflow / overflow")
        if r == "sat":
            rep.add(f"table/fields={k}/decision-never-panics", "inconclusive", "arithmetic of the table decision can panic under the layout model (no replay)")
        r, m = ses.obligation(f"table/fields={k}/O1-canonical-separators-stable", base + fix + [d_in_c == 0], d_out != 0,
                              "single-line on `{a, b}`-style input (any brace padding) => single-line on the canonical output", timeout_s=20)
        if r == "sat":
            flagged.append((f"table/fields={k}/O1-canonical-separators-stable", m, "canonical", k))
        r, m = ses.obligation(f"table/fields={k}/O2-any-separators-stable", base + fix + [d_in == 0], d_out != 0,
                              "single-line on any input spacing => single-line on the output", timeout_s=60)
        if r == "sat":
            flagged.append((f"table/fields={k}/O2-any-separators-stable", m, "separators", k))
        r, m = ses.obligation(f"table/fields={k}/multiline-is-a-fixed-point", base + fix, d_nl != 1, "newline after `{` => multi-line")
        if r == "sat":
            flagged.append((f"table/fields={k}/multiline-is-a-fixed-point", m, "multiline", k))
    rep.samples.append({"integer_slice_symbols": sorted(sym), "paths": len(paths)})
    for oid, m, kind, k in flagged:
        confirm(rep, oid, m, kind, dict(a=a, b=b, ell=ell, sep=sep, nf=k, sh=sh))
    more = measured_values(ses, rep) + text_twice(ses, rep, 4 if quick else 5) + paren_transparency(ses, rep) + comma_comment_relocation(ses, rep)
    # a collapse guard that overlooks a comment position: the comment is kept, but pass 1 prints it on the collapsed line / in front of `end`,
    # where pass 2 finds it INSIDE the body and no longer collapses (C03's kernel H, shared)
    from . import c03
    try:
        more += [(oid, what, "collapse", info) for oid, what, kind, info in c03.collapse_guards(ses, rep)]
    except Inconclusive as e:
        rep.add("collapse-guards/encodable", "inconclusive", str(e)[:300], nontrivial=False)
    # require sorting: a group boundary decided on INPUT line numbers must be one the output reproduces (C12's grouping kernel: the gap is
    # measured from the END of the previous require - a wrapped require is printed on one line, so its start line would move the boundary)
    from . import c12
    try:
        more += [(oid, what, "sort-grouping", info) for oid, what, kind, info in c12.grouping(ses, rep)]
    except Inconclusive as e:
        rep.add("sort-grouping/encodable", "inconclusive", str(e)[:300], nontrivial=False)
    seen = {}
    for oid, what, kind, info in more:
        key = (kind, json.dumps(info, sort_keys=True))
        if key not in seen:
            seen[key] = replay_measure(info) if kind == "measure" else replay_paren(info) if kind == "paren" else replay_relocation(info) if kind == "relocation" else replay_collapse(info) if kind == "collapse" else replay_sort_grouping(info) if kind == "sort-grouping" else replay_text(info)
        v, rec = seen[key]
        if v is None:
            rep.add(oid, "inconclusive", f"{what}: two formatting passes agree on the native build ({rec})")
        else:
            rep.add(oid, rep.violation({"obligation": kind, **{k_: v_ for k_, v_ in info.items() if k_ in ("function", "kind", "line_endings")}}, {"what": what, "observed": v, **rec}), f"{what}; {v}")


MEASURE = re.compile(r"(^|::)(take_last_line|take_first_line|test_over_budget)$")
FORMATTED = re.compile(r"(^|::)(format_[a-z_0-9]*|hang_[a-z_0-9]*|fmt_[a-z_]*|try_format_[a-z_]*|create_[a-z_]*|strip_[a-z_]*|symbol|new|update_[a-z_]*|with_[a-z_]*|"
                       r"attempt_[a-z_]*|prepend_[a-z_]*|to_string|remove_[a-z_]*)$")


# predicates that are applied to INPUT expressions whose redundant parentheses the same pass removes: their answer must not depend on
# such parentheses, or the second pass decides differently (name -> why)
PAREN_TRANSPARENT = {
    "contains_nested_function": "should_collapse_function_body / is_if_guard decide on the input body; `return (function() end)` loses its parentheses in the same pass",
    "is_brackets_string": "the `[ [[k]] ]` padding is decided on the input key; `[([[k]])]` loses its parentheses in the same pass",
    "is_string": "format_prefix hangs a long prefix unless it is a string; the test looks through the prefix parentheses it keeps",
}


def paren_transparency(ses, rep, fs="default"):
    """P  for the predicates of PAREN_TRANSPARENT: on a parenthesised expression every returning path hands the question on to a predicate
    call on the inner expression (no answer is given for the parentheses themselves)"""
    from .c07 import mk_variant, lazy_args
    from . import c02
    flagged = []
    funcs = ses.mir("lib", fs)
    for nm, why in PAREN_TRANSPARENT.items():
        cands = [f for f in funcs.get(nm, []) if f.kind == "fn"]
        if len(cands) != 1:
            raise Inconclusive(f"{nm}: not found")
        f = cands[0]
        ex = ses.executor("lib", fs, inline=lambda n, fn: False)
        ex.max_block_visits = 2
        node = mk_variant(ex, "Expression", "Parentheses", "paren")
        inner = node.fields[[i for i, x in enumerate(node.fields) if isinstance(x, RefV)][0]].v
        args = [RefV(node) if re.search(r"(^|[&: ])Expression$", t.strip()) else a for (p_, t), a in zip(f.params, lazy_args(ex, f))]
        outs = ex.run(f, args)
        rep.fn(f)
        n = 0
        for pi, o in enumerate(outs):
            if o.kind != "return" or not isinstance(o.value, Sym):
                continue
            n += 1
            P = c02.Prov(ex, o)
            via = [t for t in o.trace if t[0] == "havoc" and isinstance(t[3], Sym) and (t[4] if len(t) > 4 else t[2])
                   and inner.oid in P.of((t[4] if len(t) > 4 else t[2])[0])]
            sv = z3.simplify(o.value.t)
            const = z3.is_true(sv) or z3.is_false(sv)
            oid = f"paren-transparency/{nm}/path{pi}/answers-for-the-inner-expression"
            r, m = ses.obligation(oid, list(o.pc), z3.BoolVal(const or not via), f"{nm}((e)) is decided by a predicate call on e")
            if r == "sat":
                flagged.append((oid, f"{nm} answers {sv} for a parenthesised expression without looking inside: the answer changes once the same pass has removed "
                                     "the parentheses", "paren", {"function": nm}))
        if n == 0:
            raise Inconclusive(f"{nm}: no returning path for a parenthesised expression")
    return flagged


PAREN_PROGRAMS = [
    ("local f = function() return (function() end) end\nlocal g = function() x = (function() end) end\n", ["--collapse-simple-statement", "FunctionOnly"]),
    ("local f = function() return (function() end) end\n", ["--collapse-simple-statement", "Always"]),
    ("if x then return (function() end) end\n", ["--collapse-simple-statement", "ConditionalOnly"]),
    ("local t = { [([[key]])] = 1, [ ([==[k]==]) ] = 2 }\n", []),
    ('local s = ("some rather long string used as a prefix"):format(first_argument_name, second_argument_name, third)\n', ["--column-width", "60"]),
]


def replay_paren(info):
    binp = common.native_build("default")
    for src, flags in PAREN_PROGRAMS:
        rc1, out1, _ = common.run_stylua(binp, src, flags)
        if rc1 != 0:
            continue
        rc2, out2, _ = common.run_stylua(binp, out1, flags)
        if rc2 != 0 or out2 != out1:
            return f"{flags}: second pass changes {out1!r} into {out2!r}", {"source": src, "flags": flags, "pass1": out1, "pass2": out2}
    return None, {"tried": len(PAREN_PROGRAMS)}


COLLAPSE_PROGRAMS = [
    "local f = function(x)\n\treturn x * 2\n\t-- c\nend\n", "local t = {\n\tf = function(x)\n\t\treturn x\n\t\t-- note\n\tend,\n}\n", "call(function()\n\treturn 1\n\t--[[ b ]]\nend)\n",
    "local f = function() -- c\n\treturn 1\nend\n", "local f = function()\n\treturn 1 -- c\nend\n", "local f = function(a -- c\n)\n\treturn 1\nend\n",
    "if x then\n\treturn; -- c\nend\n", "if x then -- c\n\treturn\nend\n", "if x then\n\tf() -- c\nend\n", "local g = function()\n\tcall(); -- c\nend\n",
    "function M.f()\n\treturn 1\n\t-- trailing note\nend\n", "local function h()\n\tx = 1\n\t-- c\nend\n",
]


def replay_sort_grouping(info):
    binp = common.native_build("default")
    R = lambda n: f'local {n} = require("{n}")\n'
    progs = ['local c = require(\n\t"c"\n)\n' + R("b") + R("a"), R("z") + 'local m = require(\n\t"m"\n)\n' + R("k") + R("a"),
             'local S = game:GetService(\n\t"S"\n)\nlocal R = game:GetService("R")\nlocal A = game:GetService("A")\n', R("b") + R("a") + "\n" + R("d") + R("c"),
             R("b") + "-- comment\n" + R("a"), 'local c = require("c") -- note\n' + R("b") + "\n\n" + R("a")]
    for src in progs:
        rc1, out1, _ = common.run_stylua(binp, src, ["--sort-requires"])
        if rc1 != 0:
            continue
        rc2, out2, _ = common.run_stylua(binp, out1, ["--sort-requires"])
        if rc2 != 0 or out2 != out1:
            return f"--sort-requires: second pass changes {out1!r} into {out2!r}", {"source": src, "flags": ["--sort-requires"], "pass1": out1, "pass2": out2}
    return None, {"tried": len(progs)}


def replay_collapse(info):
    binp = common.native_build("default")
    for src in COLLAPSE_PROGRAMS:
        for flags in (["--collapse-simple-statement", "Always"], ["--collapse-simple-statement", "FunctionOnly"], ["--collapse-simple-statement", "ConditionalOnly"],
                      ["--collapse-simple-statement", "Always", "--column-width", "40"]):
            rc1, out1, _ = common.run_stylua(binp, src, flags)
            if rc1 != 0:
                continue
            rc2, out2, _ = common.run_stylua(binp, out1, flags)
            if rc2 != 0 or out2 != out1:
                return f"{flags}: second pass changes {out1!r} into {out2!r}", {"source": src, "flags": flags, "pass1": out1, "pass2": out2}
    return None, {"tried": len(COLLAPSE_PROGRAMS)}


class _Triv:
    """abstract trivia iterator: which sides of the token it runs over"""
    def __init__(self, sides):
        self.sides = frozenset(sides)


def comma_comment_relocation(ses, rep, fs="default"):
    """R  format_punctuated_multiline moves the comments in FRONT of a comma behind it. The test that decides whether a list must be split
    (punctuated_inline_comments' predicate on the comma token) is evaluated over an abstract comma token - four facts: a single-line /
    a block comment before / after it - and must still hold after that move: P(comment before the comma) => P(same comment after it).
    Otherwise pass 1 splits the list and pass 2 joins it again."""
    flagged = []
    funcs = ses.mir("lib", fs)
    f = [g for g in funcs.get("punctuated_inline_comments", []) if g.kind == "fn"]
    if len(f) != 1:
        raise Inconclusive("punctuated_inline_comments not found")
    site = [s_ for sts in f[0].blocks.values() for s_ in sts if s_[0] == "call" and re.search(r"Option::<&TokenReference>::map_or::<bool,", s_[2])]
    if len(site) != 1:
        raise Inconclusive("punctuated_inline_comments: the test of the comma token is not an Option::map_or over pair.punctuation()")
    callee = site[0][2]
    ex = ses.executor("lib", fs, inline=lambda n, fn: canon(n).split("::")[-1] in ("token_contains_comments", "token_contains_comments_search", "trivia_contains_comments"))
    ex.inline_closure_calls = True
    facts = {k: z3.Bool("comma_" + k) for k in ("LS", "LM", "TS", "TM")}
    tok = ex.fresh_lazy("TokenReference", "comma")

    def side_term(sides, kinds):
        return z3.Or([facts[s_ + k_] for s_ in sides for k_ in kinds] + [z3.BoolVal(False)])

    def search_kinds(v):
        v = deref_val(ex, None, v) if not isinstance(v, Agg) else v
        return {"All": "SM", "Single": "S", "Multiline": "M"}.get(getattr(v, "variant", None))

    def hook(ex_, st, c_, args, dty):
        c = canon(c_)
        last = c.split("::<")[0].split("::")[-1]
        a0 = deref_val(ex_, st, args[0]) if args else None
        if last in ("leading_trivia", "trailing_trivia") and a0 is tok:
            return _Triv("L" if last.startswith("leading") else "T")
        if isinstance(a0, _Triv):
            if last in ("iter", "into_iter", "by_ref", "cloned", "copied"):
                return a0
            if last == "chain" and isinstance(deref_val(ex_, st, args[1]), _Triv):
                return _Triv(a0.sides | deref_val(ex_, st, args[1]).sides)
            if last in ("any", "all") and len(args) > 1:
                t_ = deref_val(ex_, st, args[1])
                nm = getattr(t_, "name", None) or (re.search(r"\{(trivia_is_\w+)\}", c_) or [None, None])[1]
                kinds = {"trivia_is_comment": "SM", "trivia_is_singleline_comment": "S", "trivia_is_multiline_comment": "M"}.get((nm or "").split("::")[-1])
                if kinds and last == "any":
                    return Sym(side_term(a0.sides, kinds), "bool")
        if last in ("has_leading_comments", "has_trailing_comments") and a0 is tok and len(args) > 1:
            k_ = search_kinds(deref_val(ex_, st, args[1]))
            if k_:
                return Sym(side_term("L" if "leading" in last else "T", k_), "bool")
        if last in ("leading_comments", "trailing_comments") and a0 is tok:
            return _Triv("L" if last.startswith("leading") else "T")
        if last == "is_empty" and isinstance(a0, _Triv):
            return Sym(z3.Not(side_term(a0.sides, "SM")), "bool")
        return NotImplemented
    ex.hooks = [hook]
    m_fn = re.search(r"\{(\w+)\}>$", callee)
    m_cl = re.search(r"(\{closure@[^}]*\})>$", callee)
    if m_cl:
        g = [x for n_, l in funcs.items() if "{closure" in n_ for x in l if x.params and m_cl.group(1) in x.params[0][1]]
        if len(g) != 1:
            raise Inconclusive("comma predicate closure not found")
        outs = ex.run(g[0], [RefV(ex.fresh_lazy("closure", "env")) if g[0].params[0][1].startswith("&") else ex.fresh_lazy("closure", "env"), RefV(tok)])
        rep.fn(g[0])
    elif m_fn and funcs.get(m_fn.group(1)):
        g = funcs[m_fn.group(1)][0]
        outs = ex.run(g, [RefV(tok)])
        rep.fn(g)
    else:
        raise Inconclusive(f"comma predicate {callee[-60:]} not recognised")
    terms = []
    for o in outs:
        if o.kind != "return" or not isinstance(o.value, Sym) or not z3.is_bool(o.value.t):
            raise Inconclusive("comma predicate: a path does not return a Boolean over the comment facts")
        terms.append(z3.And(list(o.pc) + [o.value.t]))
    P = z3.Or(terms)
    only = lambda k: [facts[x] == z3.BoolVal(x == k) for x in facts]
    for kind, name in (("S", "single-line"), ("M", "block")):
        before = z3.substitute(P, *[(facts[x], z3.BoolVal(x == "L" + kind)) for x in facts])
        after = z3.substitute(P, *[(facts[x], z3.BoolVal(x == "T" + kind)) for x in facts])
        oid = f"relocation/comma/{name}-comment-before-implies-after"
        r, m = ses.obligation(oid, [], z3.And(before, z3.Not(after)), "the split decision survives the move of the comment behind the comma")
        if r == "sat":
            flagged.append((oid, f"a {name} comment in front of a comma forces the list apart, the same comment behind the comma (where the first pass puts it) does not",
                            "relocation", {"comment": name}))
    return flagged


RELOCATION_PROGRAMS = ["x = a --[[ first ]], b\n", "local p --[[ first ]], q = 1, 2\n", "return a --[[ first ]], b\n", "x = a -- first\n, b\n", "return a -- first\n, b\n",
                       "call(a --[[ first ]], b)\n", "local t = { a --[[ first ]], b }\n"]


def replay_relocation(info):
    binp = common.native_build("default")
    for src in RELOCATION_PROGRAMS:
        rc1, out1, _ = common.run_stylua(binp, src, [])
        if rc1 != 0:
            continue
        rc2, out2, _ = common.run_stylua(binp, out1, [])
        if rc2 != 0 or out2 != out1:
            return f"second pass changes {out1!r} into {out2!r}", {"source": src, "flags": [], "pass1": out1, "pass2": out2}
    return None, {"tried": len(RELOCATION_PROGRAMS)}


def measured_values(ses, rep, fs="full"):
    """M: the layout is measured on FORMATTED values only. In every formatter function, on every path, what is handed to
    Shape::take_first_line / take_last_line / test_over_budget has been produced by a formatter (format_* / hang_* / a formatter callback /
    a closure that formats) and is never a node of the input: the input's spelling (blanks, redundant parentheses, escapes) would decide
    the layout in the first pass and be gone in the second."""
    from .c07 import lazy_args
    flagged = []
    funcs = ses.mir("lib", fs)

    def closure_formats(g, d=0):
        if re.search(r"= (format_|hang_|<F as Fn)", g.text):
            return True
        if d > 2:
            return False
        for m2 in set(re.findall(r"\{closure@[^}]*\}", g.text)):
            for g2 in [x for n3, l3 in funcs.items() for x in l3 if "{closure" in x.name and x.params and m2 in x.params[0][1] and x is not g]:
                if closure_formats(g2, d + 1):
                    return True
        return False
    n = 0
    for name, l in sorted(funcs.items()):
        for f in l:
            if re.search(r"^(trivia::|trivia_util::|shape::|context::|verify_ast|sort_requires)|<impl|::promoted\[", f.name):
                continue
            if not any(s_[0] == "call" and MEASURE.search(canon(s_[2])) for sts in f.blocks.values() for s_ in sts):
                continue
            ex = ses.executor("lib", fs, inline=lambda n_, fn: False)
            ex.max_block_visits = 1
            try:
                args = lazy_args(ex, f)
                outs = ex.run(f, args)
            except Inconclusive as e:
                rep.extra.setdefault("measure_not_encoded", []).append(f"{f.name}: {str(e)[:60]}")
                continue
            rep.fn(f)
            argoids = {(a.v if isinstance(a, RefV) else a).oid for a in args if isinstance(a.v if isinstance(a, RefV) else a, Lazy)}
            for pi, o in enumerate(outs):
                for t in o.trace:
                    if not (t[0] == "havoc" and MEASURE.search(t[1])):
                        continue
                    x = t[4][1]
                    while isinstance(x, RefV):
                        x = x.v
                    x = deref_val(ex, o.state, x)
                    cur, raw = x, None
                    for _ in range(12):
                        if not isinstance(cur, Lazy):
                            raw = False
                            break
                        root = cur.oid
                        while root in ex.parent:
                            root = ex.parent[root][0]
                        if root in argoids:
                            raw = True
                            break
                        if root not in ex.havoc_calls:
                            break
                        nm = ex.havoc_calls[root][0]
                        last = nm.split("::")[-1]
                        rawc = ex.havoc_raw.get(root, "")
                        if FORMATTED.search(nm) or (last in ("call", "call_once", "call_mut") and re.match(r"^<&?(mut )?[A-Z][A-Za-z0-9]* as Fn", rawc)):
                            raw = False
                            break
                        if last in ("map", "and_then", "flat_map", "call", "call_once", "call_mut", "map_or", "map_or_else"):
                            cm = re.search(r"\{closure@[^}]*\}", rawc) or re.search(r"\{closure@[^}]*\}", " ".join(
                                getattr(a_, "ty", "") or "" for a_ in ex.havoc_snap.get(root, []) if isinstance(a_, (Agg, Lazy))))
                            cf = [g for n2, l2 in funcs.items() for g in l2 if cm and "{closure" in g.name and g.params and cm.group(0) in g.params[0][1]]
                            if cf and closure_formats(cf[0]):
                                raw = False
                                break
                        a0 = ex.havoc_snap[root][0] if ex.havoc_snap.get(root) else None
                        while isinstance(a0, RefV):
                            a0 = a0.v
                        cur = a0
                    n += 1
                    oid = f"measure/{f.name}/path{pi}/{t[1].split('::')[-1]}"
                    if not raw:
                        if not any(o_["id"] == oid for o_ in rep.obligations[-40:]):
                            rep.add(oid, "unsat", "the measured value is formatter output", nontrivial=False)
                        continue
                    r, m = ses.obligation(oid + "/formatted-value", list(o.pc), z3.BoolVal(True), "only formatter output is measured")
                    if r == "sat":
                        flagged.append((oid, f"{f.name} measures a node of the INPUT with {t[1].split('::')[-1]}: the first pass depends on the input's spelling",
                                        "measure", {"function": f.name}))
    rep.bounds["measured_values"] = n
    if n < 50:
        raise Inconclusive(f"only {n} measuring calls seen")
    return flagged


def replay_measure(info):
    """un-normalised spelling of an early list item next to a later item at the width boundary: sweep the column width"""
    binp = common.native_build("default")
    progs = ["call(alpha   +   beta, function(parameterNumberOne, parameterNumberTwo, parameterNumberThree)\n\treturn 1\nend)\n",
             "local aaaa,    bbbb,   cccc = first_value_name   +   1, (second_value_name), third_value_name\n",
             "return (first_value_name),   second_value_name   ..   'x', third_value_name\n",
             "call((first_argument_name), 'it\\'s', { key_name   =   1 }, second_argument_name)\n",
             "for key_name,    value_name in pairs((container_name)),   second_iterator_state do\nend\n"]
    tried = 0
    for src in progs:
        for w in range(20, 131):
            tried += 1
            rc, o1, _ = common.run_stylua(binp, src, ["--column-width", str(w)])
            if rc != 0:
                continue
            rc, o2, _ = common.run_stylua(binp, o1, ["--column-width", str(w)])
            if rc == 0 and o2 != o1:
                return "formatting is not idempotent", {"source": src, "args": ["--column-width", str(w)], "pass1": o1, "pass2": o2}
    return None, {"tried": tried}


def text_twice(ses, rep, N=4):
    """T: format_token's rewriting of block comments / long strings / line comments is idempotent: for every text of <= N characters
    written with LF or CRLF and both line_endings settings, rewriting the rewritten text changes nothing (bounded strings, vcheck/bstr.py)"""
    from .. import bstr
    from . import c10
    flagged = []
    T = ses.enums("default")
    extra_inline = set()         # extracted in-crate text helpers, found on demand (as in C10)
    for kind in ("MultiLineComment", "StringLiteral", "SingleLineComment"):
        def run_once(text, _depth=0):
            ex = ses.executor("lib", "default", inline=lambda n, f, extra=frozenset(extra_inline): c10.INLINE_CTX(n, f) or f.name in extra)
            vdef = [v for v in T.variants("TokenType") if v[0] == kind][0]
            fields = []
            for fname, fty in vdef[2]:
                fields.append(text if fname == c10.KIND_TEXT[kind] else Agg("StringLiteralQuoteType", "Brackets", []) if fname == "quote_type" else ex.fresh_lazy(fty, fname))
            tok = Agg("TokenType", kind, fields, [f_[0] for f_ in vdef[2]])

            def tt(ex_, st, callee, args, dty):
                if canon(callee).endswith("Token::token_type"):
                    return RefV(tok)
                return NotImplemented
            ex.hooks = [tt, c10.str_identity, bstr.hook]
            f = ses.need(ex, "format_token")
            args = c10.lazy_args(ex, f)
            le = None
            res = []
            for o in ex.run(f, args):
                if o.kind != "return" or not (isinstance(o.value, Agg) and len(o.value.fields) == 3):
                    continue
                newtok = deref_val(ex, o.state, o.value.fields[0])
                tv = deref_val(ex, o.state, ex.havoc_calls[newtok.oid][1][0]) if isinstance(newtok, Lazy) and newtok.oid in ex.havoc_calls else None
                if isinstance(tv, Lazy) and tv.oid in ex.havoc_calls and _depth < 3:
                    # the whole token type comes out of an extracted helper: inline it
                    g = ex.resolve(ex.havoc_raw.get(tv.oid, ex.havoc_calls[tv.oid][0]))
                    if g is not None and g.blocks and g.name not in extra_inline:
                        extra_inline.add(g.name)
                        return run_once(text, _depth + 1)
                if not (isinstance(tv, Agg) and tv.variant == kind):
                    continue
                ot = deref_val(ex, o.state, tv.fields[[f_[0] for f_ in vdef[2]].index(c10.KIND_TEXT[kind])])
                while isinstance(ot, Lazy) and ot.oid in ex.havoc_calls and ex.havoc_calls[ot.oid][0].split("::")[-1] in ("into", "from", "to_owned", "clone", "to_string"):
                    ot = deref_val(ex, o.state, ex.havoc_calls[ot.oid][1][0])
                if isinstance(ot, bstr.BStr):
                    res.append((list(o.pc), ot))
                elif isinstance(ot, Lazy) and ot.oid in ex.havoc_calls and _depth < 3:
                    g = ex.resolve(ex.havoc_raw.get(ot.oid, ex.havoc_calls[ot.oid][0]))
                    if g is not None and g.blocks and g.name not in extra_inline:
                        extra_inline.add(g.name)
                        return run_once(text, _depth + 1)
            le = c10.cfg_field(ex, args[0].v, "line_endings")
            return res, (ex.discr(None, le) if le is not None else None)
        t0 = bstr.BStr.fresh("t", N)
        first, d1 = run_once(t0)
        if not first:
            raise Inconclusive(f"format_token({kind}): no rewriting path")
        pre_lang = bstr.DFA_ONE_LINE.accepts(t0) if kind == "SingleLineComment" else bstr.DFA_LF_OR_CRLF.accepts(t0)
        for i, (pc1, out1) in enumerate(first[:4]):
            second, d2 = run_once(out1)
            for j, (pc2, out2) in enumerate(second[:4]):
                for li, (vn, *_r) in enumerate(T.variants("LineEndings")):
                    same_cfg = ([d1 == z3.BitVecVal(li, 64)] if d1 is not None else []) + ([d2 == z3.BitVecVal(li, 64)] if d2 is not None else [])
                    pre = [t0.wellformed(), pre_lang] + pc1 + pc2 + same_cfg
                    if not ses.reachable(pre):
                        continue
                    r, m = ses.obligation(f"text-twice/{kind}/{vn}/paths{i}-{j}", pre, z3.Not(bstr.equal(out1, out2)),
                                          f"rewriting the rewritten text of a {kind} changes nothing", 120)
                    if r == "sat":
                        flagged.append((f"text-twice/{kind}/{vn}", f"{kind} text {t0.value(m)!r} becomes {out1.value(m)!r} and then {out2.value(m)!r} ({vn})",
                                        "text", {"kind": kind, "text": t0.value(m), "line_endings": vn}))
                    if d1 is None:
                        break
    rep.bounds["text_twice_chars"] = N
    return flagged


def replay_text(info):
    binp = common.native_build("default")
    text, k = info["text"], info["kind"]
    if "]]" in text:
        return None, {}
    src = {"MultiLineComment": "--[[" + text + "]]\nlocal x = 1\n", "StringLiteral": "local s = [[" + text + "]]\n", "SingleLineComment": "--" + text + "\nlocal x = 1\n"}[k]
    args = ["--line-endings", info["line_endings"]]
    rc, o1, _ = common.run_stylua(binp, src, args)
    if rc != 0:
        return None, {}
    rc, o2, _ = common.run_stylua(binp, o1, args)
    if rc == 0 and o1 != o2:
        return "formatting is not idempotent", {"source": src, "args": args, "pass1": o1, "pass2": o2}
    return None, {"source": src}


def confirm(rep, oid, m, kind, V):
    ev = lambda t: m.eval(t, model_completion=True).as_long()
    nf = V["nf"]
    ell = [max(1, min(ev(V["ell"][i]), 60)) for i in range(nf)]
    sep = [1 if kind in ("canonical", "multiline") else min(ev(V["sep"][i]), 6) for i in range(nf - 1)]
    a, b = min(ev(V["a"]), 6), min(ev(V["b"]), 6)
    cw = ev(V["sh"]["column_width"])
    off = ev(V["sh"]["offset"]) + (ev(V["sh"]["indent_columns"]) if "indent_columns" in V["sh"] else 0)
    v, rec = replay_table(ell, sep, a, b, cw, off)
    rep.samples.append({"model": {"fields": ell, "seps": sep, "a": a, "b": b, "column_width": cw, "offset": off}, "replay": v})
    if v is None:
        rep.add(oid, "inconclusive", f"solver model did not reproduce on the native build: {rec}")
        return
    role = {"obligation": oid.split("/")[2].split("-")[0], "cause": kind}
    status = rep.violation(role, {"observed": v, **rec})
    rep.add(oid, status, v)


def replay_table(ell, sep, a, b, cw, off):
    """build `return {f1,f2}`-style statements realising the model's layout; try a few widths around the boundary"""
    binp = common.native_build("default")
    fields = [chr(ord("a") + i) * l for i, l in enumerate(ell)]
    body = ""
    for i, f in enumerate(fields):
        body += f
        if i < len(fields) - 1:
            body += "," + " " * sep[i]
    tbl = "{" + " " * a + body + " " * b + "}"
    tried = 0
    for prefix in ("return ", "local x = ", "f(", "x = "):
        src = prefix + tbl + (")" if prefix == "f(" else "") + "\n"
        canon_len = len(prefix) + len("{ " + ", ".join(fields) + " }") + (1 if prefix == "f(" else 0)
        for w in sorted({canon_len - 2, canon_len - 1, canon_len, canon_len + 1, cw} - {0}):
            if w <= 0:
                continue
            tried += 1
            rc, out1, err = common.run_stylua(binp, src, ["--column-width", str(w)])
            if rc != 0:
                continue
            rc, out2, err = common.run_stylua(binp, out1, ["--column-width", str(w)])
            if rc == 0 and out2 != out1:
                return "formatting is not idempotent", {"source": src, "args": ["--column-width", str(w)], "pass1": out1, "pass2": out2}
    return None, {"tried": tried}


def fallback(rep):
    """kernels undecided: the two-pass replays are run over all their programs; only a program whose second pass differs is reported"""
    # (replay_paren is left out: one of its programs - `if x then return (function() end) end` under ConditionalOnly - needs two passes on
    #  the unchanged tree as well, see DESIGN.md "Further genuine idempotence defects"; it only ever confirms a flagged transparency obligation)
    for kind, fn_ in (("collapse", replay_collapse), ("sort-grouping", replay_sort_grouping), ("relocation", replay_relocation), ("measure", replay_measure)):
        try:
            v, rec = fn_({})
        except (KeyError, TypeError):
            continue
        if v:
            rep.add(f"battery/{kind}", rep.violation({"obligation": "battery-after-undecided-kernel", "scenario": kind}, {"what": "kernel undecided; two-pass replay", "observed": v, **rec}), v)


def replay(path):
    d = json.load(open(path))
    r = d["replay"]
    binp = common.native_build("default")
    args = r.get("args", r.get("flags", []))
    rc, o1, _ = common.run_stylua(binp, r["source"], args)
    rc, o2, _ = common.run_stylua(binp, o1, args)
    r["args"] = args
    if o1 != o2:
        print("not idempotent:", repr(r["source"]), r["args"])
        print(f"VIOLATION property=C06 replay={path}")
        return 1
    print("idempotent on the recorded input")
    return 0

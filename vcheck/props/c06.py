"""C06 — formatting is idempotent (kernel scope: the layout decision that reads the *input* layout; DESIGN.md section 5).

Encoded from the MIR: the integer slice of format_table_constructor (positions of the braces, the whitespace flags, Shape arithmetic
with the real Shape/Indent methods inlined, over_budget) executed twice - on an arbitrary input spacing and on the canonical
single-line spacing the formatter emits - and compared.
  O1 input whose inner separators are already canonical (`, `): the single-line decision is stable      -> must hold
  O2 arbitrary separator spacing: pass 1 measures the input's spacing, pass 2 the canonical one           -> known finding F5
"""
import json, re, z3

from .. import common, luaexpr
from ..common import Inconclusive
from ..mirsym import Sym, Str, Agg, Lazy, Ref, RefV, FnItem, UNIT
from ..summaries import canon, deref_val, opt_some, opt_none
from ..session import find_calls

SHAPE_FNS = re.compile(r"(^|::)(shape::)?(Shape|Indent)(::|$)|<(shape::)?Shape as (std::ops::)?Add<usize>>::add")


def decision_paths(ses, rep):
    """-> list of (pc, decision in {'single','multi','empty'}, panic?) + the symbol table of the integer slice"""
    sym = {}

    def hook(ex_, st, callee, args, dty):
        c = canon(callee)
        if re.search(r"as Iterator>::any$", c) and len(args) == 2 and isinstance(args[1], FnItem):
            pred = args[1].name.split("::")[-1]
            k = st.aux.get(("any", pred), 0)
            st.aux[("any", pred)] = k + 1
            b = z3.Bool(f"{pred}#{k}")
            sym[f"{pred}#{k}"] = b
            return Sym(b, "bool")
        if c.endswith("Position::bytes"):
            p = deref_val(ex_, st, args[0])
            hc = ex_.havoc_calls.get(p.oid) if isinstance(p, Lazy) else None
            name = "pos"
            if hc:
                which = hc[0].split("::")[-1]
                owner = deref_val(ex_, st, hc[1][0])
                ohc = ex_.havoc_calls.get(owner.oid) if isinstance(owner, Lazy) else None
                of = ohc[0].split("::")[-1] if ohc else "trivia"
                arg0 = deref_val(ex_, st, ohc[1][0]) if ohc else None
                name = f"{which}:{of}:{getattr(arg0, 'label', '')}"
            v = z3.BitVec(name, 64)
            sym[name] = v
            return Sym(v, "usize")
        if re.search(r"Punctuated(<.*>)?::iter$", c):
            return Lazy(next(ex_.oid_counter), dty, "fields_iter", 0, {"fields_iter": True})
        if re.search(r"punctuated::Iter<.*> as Iterator>::next$", c):
            has = z3.Bool("has_fields")
            sym["has_fields"] = has
            return [(has, opt_some(dty, RefV(ex_.fresh_lazy("Field", "first_field")))), (z3.Not(has), opt_none(dty))]
        if re.search(r"Punctuated(<.*>)?::last$", c):
            return opt_some(dty, RefV(ex_.fresh_lazy("Pair<Field>", "last_pair")))      # has_fields => a last field exists
        if re.search(r"as Iterator>::last$", c):
            has = z3.Bool("open_brace_has_leading_trivia")
            tok = ex_.fresh_lazy("Token", "last_leading_trivia")
            return [(has, opt_some(dty, RefV(tok))), (z3.Not(has), opt_none(dty))]
        if c.endswith("ContainedSpan::tokens"):
            return Agg(dty, None, [RefV(Lazy(next(ex_.oid_counter), "TokenReference", "open_brace", 0, {})),
                                   RefV(Lazy(next(ex_.oid_counter), "TokenReference", "close_brace", 0, {}))])
        return NotImplemented
    # Indent::indent_width() multiplies two symbolic words; its value is the same in both passes, so it stays one free symbol
    ex = ses.executor("lib", "default", hooks=[hook],
                      inline=lambda n, f: bool(SHAPE_FNS.search(canon(n))) and canon(n).split("::")[-1] != "indent_width")
    fn = ses.need(ex, "format_table_constructor")
    args = [RefV(ex.fresh_lazy(t.lstrip("&"), p)) if t.startswith("&") else ex.fresh_lazy(t, p) for p, t in fn.params]
    shape = [a for a, (p, t) in zip(args, fn.params) if re.search(r"(^|::)Shape$", t)][0]
    outs = ex.run(fn, args)
    res = []
    for o in outs:
        if o.kind == "panic":
            res.append((list(o.pc), "panic:" + str(o.value)))
            continue
        if o.kind != "return":
            raise Inconclusive(f"format_table_constructor path ended with {o.kind}")
        names = {t[1].split("::")[-1] for t in o.trace if t[0] == "havoc"}
        if "format_singleline_table" in names: d = "single"
        elif "format_multiline_table" in names: d = "multi"
        elif "create_table_braces" in names: d = "empty"
        else:
            raise Inconclusive("format_table_constructor: layout decision not recognised on a path")
        res.append((list(o.pc), d))
    # shape symbols
    T = ex.enums
    sh = {}
    def fld(lz, struct, name, ty):
        return ex.lazy_child(None, lz, ("field", T.field_index(struct, name)), ty, "." + name)
    sh["offset"] = fld(shape, "Shape", "offset", "usize").t
    sh["column_width"] = fld(shape, "Shape", "column_width", "usize").t
    for (k_, v_) in ex.havoc_memo.items():
        if k_[0].split("::")[-1] == "indent_width" and isinstance(v_, Sym):
            sh["indent_columns"] = v_.t
    se = [t for t in outs[0].trace if False]
    expand = None
    for (k_, v_) in ex.havoc_memo.items():
        if k_[0].split("::")[-1] == "should_expand" and isinstance(v_, Sym):
            expand = v_.t
    return res, sym, sh, expand, ex


def run(ses, rep):
    quick = rep.tier == "quick"
    F = 3
    rep.bounds.update({"fields": F, "widths_below": 2 ** 16, "table_levels": 1})
    rep.assumptions += ["field texts are already in their formatted form (width l_i unchanged by formatting); separators are a comma plus s_i >= 0 blanks",
                        "canonical single-line spacing is `{ f1, f2, f3 }` (constants of create_table_braces / format_singleline_table)",
                        "should_expand gives the same answer in both passes"]
    rep.outside += ["every other trial-format-then-measure heuristic (call arguments, call chains, assignment tactics): they re-measure formatter "
                    "output, deciding them needs the whole formatter", "the blank-line fold of load_token_trivia (not encoded in this round)"]
    paths, sym, sh, expand, ex = decision_paths(ses, rep)
    rep.extra["decision_paths"] = len(paths)
    start_names = [n for n in sym if n.startswith("end_position")]
    end_names = [n for n in sym if n.startswith("start_position")]
    if not start_names or not end_names:
        raise Inconclusive(f"brace positions not found in the integer slice: {list(sym)}")
    nl = sym.get("trivia_is_newline#0")
    ws0, ws1 = sym.get("trivia_is_whitespace#0"), sym.get("trivia_is_whitespace#1")
    if nl is None:
        raise Inconclusive(f"newline flag not found in the integer slice: {list(sym)}")
    has_fields = sym["has_fields"]

    class Dec:
        """the MIR paths under a substitution of the slice's symbols, grouped by outcome"""
        def __init__(self, subst):
            self.by = {}
            for pc, d in paths:
                c = z3.And([z3.substitute(x, *subst) for x in pc]) if pc else z3.BoolVal(True)
                code = {"single": 0, "multi": 1, "empty": 2}.get(d, 3)
                self.by.setdefault(code, []).append(c)

        def __eq__(self, code):
            return z3.Or(self.by.get(code, []) + [z3.BoolVal(False)])

        def __ne__(self, code):
            return z3.Not(self == code)

    def decision(subst):
        return Dec(subst)

    # symbolic input layout (all 64-bit, bounded, so no wrap-around inside the model)
    B = lambda n: z3.BitVec(n, 64)
    K = lambda v: z3.BitVecVal(v, 64)
    a, b = B("a_ws_after_open"), B("b_ws_before_close")
    ell = [B(f"l{i}") for i in range(F)]
    sep = [B(f"s{i}") for i in range(F - 1)]
    nf = B("fields")
    pos0 = B("open_brace_end")
    def total(parts):
        t = K(0)
        for p_ in parts:
            t = t + p_
        return t
    base = [z3.ULT(a, K(2 ** 16)), z3.ULT(b, K(2 ** 16)), z3.ULT(pos0, K(2 ** 32))]
    base += [z3.And(z3.UGE(l, K(1)), z3.ULT(l, K(2 ** 16))) for l in ell] + [z3.ULT(s_, K(2 ** 16)) for s_ in sep]
    for k_, v_ in sh.items():
        base.append(z3.ULT(v_, z3.BitVecVal(2 ** 16 if k_ != "column_width" else 2 ** 20, 64)))
    base += ex.all_discr_ranges()

    def subst_for(start, end, ws_open, ws_close, newline, any_other_ws):
        s_ = [(sym[n], start) for n in start_names] + [(sym[n], end) for n in end_names]
        s_ += [(nl, newline), (has_fields, z3.BoolVal(True))]
        s_ += [(ws0, ws_open)] if ws0 is not None else []
        s_ += [(ws1, ws_close)] if ws1 is not None else []
        for n, v in sym.items():
            if n.startswith("trivia_is_whitespace#") and n not in ("trivia_is_whitespace#0", "trivia_is_whitespace#1"):
                s_.append((v, any_other_ws))
        return s_
    flagged = []
    T_, F_ = z3.BoolVal(True), z3.BoolVal(False)
    for k in range(1, F + 1):       # number of fields (one query family per count keeps the formulas small)
        fields_w = total(ell[:k])
        inner_in = fields_w + total([K(1) + sep[i] for i in range(k - 1)])
        inner_canon = fields_w + K(2 * (k - 1))
        fix = [nf == K(k)]
        d_in = decision(subst_for(pos0, pos0 + a + inner_in + b, a != K(0), b != K(0), F_, b != K(0)))
        d_in_c = decision(subst_for(pos0, pos0 + a + inner_canon + b, a != K(0), b != K(0), F_, b != K(0)))
        d_out = decision(subst_for(pos0, pos0 + K(1) + inner_canon + K(1), T_, T_, F_, T_))
        d_nl = decision(subst_for(pos0, pos0 + K(1) + inner_canon + K(1), T_, T_, T_, T_))
        r, m = ses.obligation(f"table/fields={k}/decision-never-panics", base + fix, z3.Or(d_in == 3, d_out == 3), "end >= start: no underflow / overflow")
        if r == "sat":
            rep.add(f"table/fields={k}/decision-never-panics", "inconclusive", "arithmetic of the table decision can panic under the layout model (no replay)")
        r, m = ses.obligation(f"table/fields={k}/O1-canonical-separators-stable", base + fix + [d_in_c == 0], d_out != 0,
                              "single-line on `{a, b}`-style input (any brace padding) => single-line on the canonical output", timeout_s=20)
        if r == "sat":
            flagged.append((f"table/fields={k}/O1-canonical-separators-stable", m, "canonical", k))
        r, m = ses.obligation(f"table/fields={k}/O2-any-separators-stable", base + fix + [d_in == 0], d_out != 0,
                              "single-line on any input spacing => single-line on the output", timeout_s=60)
        if r == "sat":
            flagged.append((f"table/fields={k}/O2-any-separators-stable", m, "separators", k))
        r, m = ses.obligation(f"table/fields={k}/multiline-is-a-fixed-point", base + fix, d_nl != 1, "newline after `{` => multi-line")
        if r == "sat":
            flagged.append((f"table/fields={k}/multiline-is-a-fixed-point", m, "multiline", k))
    rep.samples.append({"integer_slice_symbols": sorted(sym), "paths": len(paths)})
    for oid, m, kind, k in flagged:
        confirm(rep, oid, m, kind, dict(a=a, b=b, ell=ell, sep=sep, nf=k, sh=sh))


def confirm(rep, oid, m, kind, V):
    ev = lambda t: m.eval(t, model_completion=True).as_long()
    nf = V["nf"]
    ell = [max(1, min(ev(V["ell"][i]), 60)) for i in range(nf)]
    sep = [1 if kind in ("canonical", "multiline") else min(ev(V["sep"][i]), 6) for i in range(nf - 1)]
    a, b = min(ev(V["a"]), 6), min(ev(V["b"]), 6)
    cw = ev(V["sh"]["column_width"])
    off = ev(V["sh"]["offset"]) + (ev(V["sh"]["indent_columns"]) if "indent_columns" in V["sh"] else 0)
    v, rec = replay_table(ell, sep, a, b, cw, off)
    rep.samples.append({"model": {"fields": ell, "seps": sep, "a": a, "b": b, "column_width": cw, "offset": off}, "replay": v})
    if v is None:
        rep.add(oid, "inconclusive", f"solver model did not reproduce on the native build: {rec}")
        return
    role = {"obligation": oid.split("/")[2].split("-")[0], "cause": kind}
    status = rep.violation(role, {"observed": v, **rec})
    rep.add(oid, status, v)


def replay_table(ell, sep, a, b, cw, off):
    """build `return {f1,f2}`-style statements realising the model's layout; try a few widths around the boundary"""
    binp = common.native_build("default")
    fields = [chr(ord("a") + i) * l for i, l in enumerate(ell)]
    body = ""
    for i, f in enumerate(fields):
        body += f
        if i < len(fields) - 1:
            body += "," + " " * sep[i]
    tbl = "{" + " " * a + body + " " * b + "}"
    tried = 0
    for prefix in ("return ", "local x = ", "f(", "x = "):
        src = prefix + tbl + (")" if prefix == "f(" else "") + "\n"
        canon_len = len(prefix) + len("{ " + ", ".join(fields) + " }") + (1 if prefix == "f(" else 0)
        for w in sorted({canon_len - 2, canon_len - 1, canon_len, canon_len + 1, cw} - {0}):
            if w <= 0:
                continue
            tried += 1
            rc, out1, err = common.run_stylua(binp, src, ["--column-width", str(w)])
            if rc != 0:
                continue
            rc, out2, err = common.run_stylua(binp, out1, ["--column-width", str(w)])
            if rc == 0 and out2 != out1:
                return "formatting is not idempotent", {"source": src, "args": ["--column-width", str(w)], "pass1": out1, "pass2": out2}
    return None, {"tried": tried}


def replay(path):
    d = json.load(open(path))
    r = d["replay"]
    binp = common.native_build("default")
    rc, o1, _ = common.run_stylua(binp, r["source"], r["args"])
    rc, o2, _ = common.run_stylua(binp, o1, r["args"])
    if o1 != o2:
        print("not idempotent:", repr(r["source"]), r["args"])
        print(f"VIOLATION property=C06 replay={path}")
        return 1
    print("idempotent on the recorded input")
    return 0

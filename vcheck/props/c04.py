"""C04 — literal values survive quote and number normalisation (DESIGN.md section 5).

Encoded from the current tree: the two regex patterns (constants of the lazy_static initialisers in the MIR), the replacer closure
of format_token (mirsym, all paths), get_quote_to_use (mirsym over a symbolic literal). The regex engine's leftmost-first
replace_all is supplied by the regex front end.  Oracle: the checker's own Lua/Luau string decoder.
"""
import json, re, time, z3

from .. import common, luaexpr, strmodel, regexfe
from ..strmodel import Kernel, Literal, replace_all, decode, py_decode, BS, SQ, DQ, LF, CR
from ..common import Inconclusive

ALPHA = [BS, SQ, DQ, LF, CR, 32] + [ord(c) for c in "n0123456789xu{}zaq"] + [0xE9]
STYLES = ["AutoPreferDouble", "AutoPreferSingle", "ForceDouble", "ForceSingle"]


def valid_literal(lit, qin):
    """the input is a lexically valid quoted string body for quote qin: no unescaped quote / raw newline, no dangling backslash"""
    cs = []
    esc_prev = z3.BoolVal(False)
    for i in range(lit.N):
        esc = esc_prev
        c = lit.c[i]
        cs.append(z3.Implies(z3.And(lit.n > i, z3.Not(esc)), z3.And(c != qin, c != LF, c != CR)))
        esc_prev = z3.And(lit.n > i, c == BS, z3.Not(esc))
        cs.append(z3.Implies(lit.n == i + 1, z3.Not(esc_prev)))
        # \CR LF as a line continuation is not modelled: a CR is only allowed right after a backslash
    return cs


def build(ses, rep, N):
    K = Kernel(ses, "default")
    rep.extra["patterns"] = K.patterns
    paths, qdiscr = K.replacer_paths()
    if qdiscr is None:
        raise Inconclusive("replacer closure does not read the captured quote type")
    alts = K.regex_alts.get(K.rx_name)
    if alts is None or isinstance(alts, Exception):
        raise Inconclusive(f"regex {K.rx_name}: {alts}")
    lit = Literal(N)
    qout, style, reach = K.quote_paths(lit)
    rep.extra["replacer_paths"] = len(paths)
    return K, lit, paths, qdiscr, alts, qout, style, reach


def run(ses, rep):
    quick = rep.tier == "quick"
    N = 4 if quick else 5          # (N = 6 did not finish within 35 minutes on this image: stated bound of the thorough tier is 5)
    rep.bounds.update({"literal_chars": N, "alphabet": [chr(a) if 32 < a < 127 else hex(a) for a in ALPHA], "quote_styles": 4, "input_quotes": 2})
    rep.assumptions += ["the input literal is lexically valid for its quote (documented precondition: the program parses)",
                        "regex::Regex::replace_all has leftmost-first non-overlapping semantics (regex front end, vcheck/regexfe.py)",
                        "decoder: Lua 5.2+/Luau escapes; an unknown escape denotes the escaped character"]
    rep.outside += ["literals longer than the bound (the rewrite is local - max match length 2 - but no inductive argument is claimed)",
                    "interpolated strings (passed through untouched)", "numbers: see C04 number obligations"]
    try:
        K, lit, paths, qdiscr, alts, qout, style, reach = build(ses, rep, N)
    except Inconclusive as e:
        # the escape rewrite is no longer the regex + replacer closure this kernel encodes: nothing is decided symbolically; a battery of
        # literals (ASCII escapes of every kind, both quotes, multi-byte characters) says whether values survive on the native build
        hit = literal_battery()
        if hit:
            v, rec = hit
            rep.add("rewrite/implementation-recognised", rep.violation({"obligation": "rewrite", "kind": "value"}, {"what": f"unrecognised rewrite ({e}); {v}", **rec}), v)
        else:
            rep.add("rewrite/implementation-recognised", "inconclusive", f"{e}; the literal battery shows no changed value")
        numbers(ses, rep)
        bracket_adjacency(ses, rep)
        return
    ex = K.ex
    QI = {n: ex.enums.index("StringLiteralQuoteType", n) for n in ("Single", "Double", "Brackets")}
    SI = {n: ex.enums.index("QuoteStyle", n) for n in STYLES}
    qin = z3.Int("qin")
    qout_char = z3.If(qout == z3.BitVecVal(QI["Single"], 64), z3.IntVal(SQ), z3.IntVal(DQ))
    out, olen, rcons = replace_all(alts, lit, paths, qdiscr, qout)
    base = [z3.Or(qin == SQ, qin == DQ), lit.n >= 0, lit.n <= N, z3.ULT(style, z3.BitVecVal(4, 64)), reach,
            z3.Or(qout == z3.BitVecVal(QI["Single"], 64), qout == z3.BitVecVal(QI["Double"], 64))]
    base += [z3.Or([c == a for a in ALPHA]) for c in lit.c]
    base += valid_literal(lit, qin)
    inarr = z3.K(z3.IntSort(), z3.IntVal(0))
    for i in range(N):
        inarr = z3.Store(inarr, i, lit.c[i])
    v_in, l_in, ok_in = decode(lambda i: z3.Select(inarr, i), lit.n, N, "in")
    v_out, l_out, ok_out = decode(lambda i: z3.Select(out, i), olen, 2 * N, "out")
    base.append(ok_in)          # the input obeys the \x / \u{} / \ddd rules of the dialects that have them
    differs = z3.Or(z3.Not(ok_out), l_in != l_out, z3.Or([z3.And(k < l_in, z3.Select(v_in, k) != z3.Select(v_out, k)) for k in range(2 * N)]))
    # output lexically valid for its quote: scan
    esc_prev = z3.BoolVal(False)
    bad_lex = []
    for i in range(2 * N):
        c = z3.Select(out, i)
        bad_lex.append(z3.And(olen > i, z3.Not(esc_prev), z3.Or(c == qout_char, c == LF, c == CR)))
        esc_prev = z3.And(olen > i, c == BS, z3.Not(esc_prev))
    bad_lex.append(esc_prev if False else z3.BoolVal(False))
    flagged = []
    t0 = time.time()
    # panic paths of the closure must be unreachable
    for i, rc in enumerate(rcons[:1] if False else []):
        pass
    r, m = ses.obligation("rewrite/closure-panic-free", base, z3.Not(z3.And(rcons)) if rcons else z3.BoolVal(False),
                          "unreachable!/expect in the replacer are never reached", timeout_s=300)
    if r == "sat":
        flagged.append(("rewrite/closure-panic-free", m, "panic"))
    r, m = ses.obligation("rewrite/decode(out)=decode(in)", base + rcons, differs, f"N<={N}", timeout_s=900 if not quick else 300)
    if r == "sat":
        flagged.append(("rewrite/decode(out)=decode(in)", m, "value"))
    r, m = ses.obligation("rewrite/output-lexically-valid", base + rcons, z3.Or(bad_lex), f"N<={N}", timeout_s=300)
    if r == "sat":
        flagged.append(("rewrite/output-lexically-valid", m, "lex"))
    # forced quote styles are honoured (shared with C11)
    for st_name, want in (("ForceDouble", "Double"), ("ForceSingle", "Single")):
        r, m = ses.obligation(f"quote/{st_name}", base + [style == z3.BitVecVal(SI[st_name], 64)], qout != z3.BitVecVal(QI[want], 64))
        if r == "sat":
            flagged.append((f"quote/{st_name}", m, "quote"))
    rep.samples.append({"regex": K.patterns.get(K.rx_name), "alternatives": len(alts), "replacer_paths": len(paths)})
    for oid, m, kind in flagged:
        confirm(rep, oid, m, lit, qin, style, SI, kind)
    numbers(ses, rep)
    long_strings(ses, rep)
    bracket_adjacency(ses, rep)


def bracket_adjacency(ses, rep):
    """a long-bracket string that lands directly behind `[` is read as ANOTHER literal (`t[[=[x]=]]` is `t"=[x]="`): the padding decision of
    format_index / format_field (C01's kernel O3: is_brackets_string against a leftmost-token oracle) is part of this property too"""
    from . import c01
    flagged = []
    for fs in ("default", "full"):
        try:
            flagged += c01.o3_brackets(ses, rep, fs)
        except Inconclusive as e:
            rep.add(f"brackets/{fs}", "inconclusive", str(e)[:300], nontrivial=False)
    seen = {}
    for oid, what, kind, info in flagged:
        key = json.dumps(info, sort_keys=True)
        if key not in seen:
            seen[key] = c01.REPLAYS[kind](info)
        v, rec = seen[key]
        if v is None:
            rep.add(oid, "inconclusive", f"solver model ({what}) did not reproduce on the native build")
            continue
        rep.add(oid, rep.violation({"obligation": "bracket-adjacency", **{k: v_ for k, v_ in info.items() if k in ("shape", "fn")}},
                                   {"what": what, "observed": v, "kind": kind, "c01_info": info, **rec}), f"{what}; {v}")


def long_strings(ses, rep):
    """long-bracket strings: the text is kept, line breaks become the configured ones (C10's bounded-string kernel K3, restricted to string
    literals; Lua reads every line-break spelling inside a long string as one newline, so the VALUE is unchanged exactly then)"""
    from . import c10
    N = 5 if rep.tier == "quick" else 7
    for oid, what, kind, info in c10.k3(ses, rep, N):
        if info.get("kind") != "StringLiteral":
            continue
        v, rec = c10.model_replay(kind, info)
        if not v and kind == "text":
            v, rec = c10.text_battery("StringLiteral")
        if v:
            rep.add(oid, rep.violation({"obligation": "long-string", "kind": kind}, {"what": what, "observed": v, **rec}), f"{what}; native: {v}")
        else:
            rep.add(oid, "inconclusive", f"{what}: not reproduced on the native build")


def model_literal(m, lit, qin, style, SI):
    n = m.eval(lit.n, model_completion=True).as_long()
    body = "".join(chr(m.eval(lit.c[i], model_completion=True).as_long()) for i in range(n))
    q = chr(m.eval(qin, model_completion=True).as_long())
    sv = m.eval(style, model_completion=True).as_long()
    sname = [k for k, v in SI.items() if v == sv][0]
    return body, q, sname


def replay_literal(body, q, sname):
    binp = common.native_build("full")
    src = f"local s = {q}{body}{q}\n"
    res = []
    for syn in ("luau", "lua52", "lua51"):
        rc, out, err = common.run_stylua(binp, src, ["--syntax", syn, "--quote-style", sname])
        if rc != 0:
            continue
        try:
            toks = luaexpr.tokenize(out)
        except luaexpr.LuaSyntaxError as e:
            return f"output does not lex ({syn}): {e}", {"source": src, "syntax": syn, "style": sname, "output": out}
        strs = [t[1] for t in toks if t[0] == "str"]
        if len(strs) != 1 or len([t for t in toks if t[0] != "comment"]) != 4:
            return f"output token structure changed ({syn})", {"source": src, "syntax": syn, "style": sname, "output": out}
        o = strs[0]
        oq, obody = o[0], o[1:-1]
        dec = py_decode if syn != "lua51" else py_decode51
        if dec(obody) != dec(body):
            return f"string value changed ({syn}): {body!r} -> {obody!r}", {"source": src, "syntax": syn, "style": sname, "output": out}
        if sname == "ForceDouble" and oq != '"' or sname == "ForceSingle" and oq != "'":
            return f"forced quote style not honoured ({syn})", {"source": src, "syntax": syn, "style": sname, "output": out}
        res.append(syn)
    return None, {"source": src, "accepted_by": res}


LITERALS = ["plain", "it's", 'say "hi"', "both ' and \"", "\\'", '\\"', "a\\\\", "a\\\\'", "tab\\tnew\\n", "\\65\\066\\0671", "\\x41\\x7a", "\\u{48}\\u{20AC}", "\\z  x",
            "C\\'est \u00e7a", "\u2192\\n", '\u65e5\u672c \\"\u8a9e\\"', "\u00e9\\\\", "na\u00efve 'q'", "\\a\\b\\f\\v\\r", "\\d\\e\\-", "", "line1\\\nline2", "line1\\\rline2", "line1\\\r\nline2"]


def literal_battery():
    for body in LITERALS:
        for q in ("'", '"'):
            if q in body.replace("\\" + q, ""):
                continue            # not a valid literal for this quote
            for sname in STYLES:
                v, rec = replay_literal(body, q, sname)
                if v:
                    return v, rec
    return None


def py_decode51(body):
    out, i, n = [], 0, len(body)
    SIMPLE = {"a": 7, "b": 8, "f": 12, "n": 10, "r": 13, "t": 9, "v": 11}
    while i < n:
        c = body[i]
        if c != "\\":
            out.append(ord(c)); i += 1; continue
        i += 1
        if i >= n: break
        d = body[i]
        if d.isdigit() and d.isascii():
            j = i
            while j < n and j < i + 3 and body[j].isdigit() and body[j].isascii(): j += 1
            out.append(int(body[i:j])); i = j
        else:
            out.append(SIMPLE.get(d, ord(d))); i += 1
    return out


def role_of(body):
    """role of a literal: the escape-relevant skeleton (which kinds of characters, in order)"""
    def cls(ch):
        if ch == "\\": return "\\"
        if ch in "'\"": return "q"
        if ch in " \n\r": return "w"
        if ch.isdigit(): return "d"
        if ch in "zxu{}": return ch
        return "a"
    return "".join(cls(c) for c in body)


def confirm(rep, oid, m, lit, qin, style, SI, kind):
    body, q, sname = model_literal(m, lit, qin, style, SI)
    v, rec = replay_literal(body, q, sname)
    rep.samples.append({"model": {"body": body, "quote": q, "style": sname}, "replay": v})
    if v is None:
        # the encoding may have lost track of a rewritten implementation: the literal battery (every escape kind) is the second opinion
        hit = literal_battery()
        if hit:
            rep.add(oid, rep.violation({"obligation": oid, "kind": "battery"}, {"what": f"solver model {q}{body!r}{q} ({sname}) did not reproduce; literal battery: {hit[0]}", **hit[1]}), hit[0])
        else:
            rep.add(oid, "inconclusive", f"solver model {q}{body!r}{q} ({sname}) did not reproduce on the native build: {rec}")
        return
    role = {"obligation": oid, "skeleton": role_of(body)}
    status = rep.violation(role, {"body": body, "quote": q, "style": sname, "observed": v, **rec})
    rep.add(oid, status, v)


NUMBERS = {
    "lua51": [".5", "5.", "0.5", "3.25", "1e5", ".5e-3", "1E+10", "0x10", "0xA", "0xff", "007", "1.5e3"],
    "lua52": [".5", "0x.8p1", "0xA.8p1", "0xff.fp0", "0xB.4", "0x1.8p3", "0X1P4", "0xA.", "0x.1", "1e-2", "0xAp1", "0xa.bp-2"],
    "lua54": [".5", "0xA.8p1", "0xfe.dcp2", "3.", "0x.8", "1e2", "0xF.Fp0"],
    "luau": [".5", "1_000", "0b101", "0x_ff", "1_0.5", "0xA", ".5e1", "1e_1", "0B11", "0xFF_FF"],
    "luajit": [".5", "42LL", "0x2aULL", "12i", "0.5", "0xA"],
}


def number_value(text, syn):
    t = text.replace("_", "") if syn == "luau" else text
    low = t.lower()
    for suf in ("ull", "ll", "i"):
        if syn == "luajit" and low.endswith(suf) and not low.startswith("0x") or (syn == "luajit" and low.startswith("0x") and low.endswith(suf) and suf != "i"):
            return (suf, number_value(t[:-len(suf)], "lua51"))
    if low.startswith("0b"):
        return float(int(low[2:], 2))
    if low.startswith("0x"):
        h = low
        if "p" not in h:
            h += "p0"
        return float.fromhex(h)
    return float(low)


def number_battery():
    """replay: every listed spelling keeps its value under its dialect. -> (violation, record) or (None, record)"""
    binp = common.native_build("full")
    tried = 0
    for syn, lits in NUMBERS.items():
        for lit in lits:
            for neg in ("", "-"):
                src = f"local n = {neg}{lit}\n"
                rc, out, err = common.run_stylua(binp, src, ["--syntax", syn])
                if rc != 0:
                    continue
                tried += 1
                try:
                    toks = [t for t in luaexpr.tokenize(out) if t[0] != "comment"]
                except luaexpr.LuaSyntaxError:
                    toks = []
                m = re.match(r"local n = (-?)\s*(\S+)\s*$", out.strip())
                if not m:
                    return f"number statement rewritten beyond recognition ({syn})", {"source": src, "syntax": syn, "output": out}
                try:
                    vin, vout = number_value(lit, syn), number_value(m.group(2), syn)
                except ValueError:
                    return f"output number {m.group(2)!r} is not a valid {syn} literal", {"source": src, "syntax": syn, "output": out}
                if vin != vout or m.group(1) != neg:
                    return f"numeric value changed ({syn}): {neg}{lit} -> {m.group(1)}{m.group(2)}", {"source": src, "syntax": syn, "output": out}
    return None, {"tried": tried}


def numbers(ses, rep):
    """Number arm of format_token: only a leading `.` (or `-.`) gets a `0` inserted, nothing is dropped. Symbolic execution of
    format_token restricted to TokenType::Number with the text's prefix tests as free Booleans; obligations on what is
    prepended / sliced on each path."""
    from ..mirsym import Lazy, RefV, Agg, Sym, Str, derives_from
    from ..summaries import canon, deref_val
    from ..session import find_calls
    K = Kernel(ses, "default")
    ex = K.ex
    tts = []

    def hook(ex_, st, callee, args, dty):
        c = canon(callee)
        if c in ("Token::token_type", "full_moon::tokenizer::Token::token_type"):
            tok = deref_val(ex_, st, args[0])
            if isinstance(tok, Lazy):
                tt = ex_.lazy_child(st, tok, ("get", "token_type"), "full_moon::tokenizer::TokenType", ".token_type")
                tts.append(tt)
                return RefV(tt)
        if re.fullmatch(r"core::str::<impl str>::starts_with", c):
            pat = deref_val(ex_, st, args[1])
            key = chr(z3.simplify(pat.t).as_long()) if isinstance(pat, Sym) else pat.s if isinstance(pat, Str) else None
            if key is None:
                return NotImplemented
            return Sym(z3.Bool("starts_with:" + key), "bool")
        if re.fullmatch(r"<(std::string::)?String as From<&str>>::from", c) and isinstance(args[0], Str):
            st.trace.append(("havoc", c, args, args[0]))
            return args[0]
        return NotImplemented
    ex.hooks = [hook] + ex.hooks
    ft = ses.need(ex, "format_token")
    args = [RefV(ex.fresh_lazy(t.lstrip("&"), p)) if t.startswith("&") else ex.fresh_lazy(t, p) for p, t in ft.params]
    ex.max_paths = 6000
    outs = ex.run(ft, args)
    if not tts:
        raise Inconclusive("format_token does not inspect token_type()")
    num = ex.enums.index("TokenType", "Number")
    number_flags = []
    n = 0
    dot, mdot = z3.Bool("starts_with:."), z3.Bool("starts_with:-.")
    for pi, o in enumerate(outs):
        if o.kind != "return":
            continue
        d = ex.discr(o.state, tts[0])
        if not ses.reachable(list(o.pc) + [d == z3.BitVecVal(num, 64)]) or ses.reachable(list(o.pc) + [d != z3.BitVecVal(num, 64)]):
            continue
        n += 1
        pc = list(o.pc)
        froms = [a.s for t in find_calls(o.trace, lambda x: re.search(r"String as From<&str>>::from$", x) is not None) for a in t[1] if isinstance(a, Str)]
        gets = find_calls(o.trace, lambda x: re.fullmatch(r"core::str::<impl str>::get", x) is not None)
        oid = f"number/path{pi}"
        # what is prepended
        want = z3.If(dot, z3.BoolVal(froms == ["0"]), z3.If(mdot, z3.BoolVal(froms == ["-0"]), z3.BoolVal(froms == [])))
        r, m = ses.obligation(oid + "/prefix", pc, z3.Not(want), f"prepends {froms}: '0' iff leading '.', '-0' iff leading '-.', else nothing")
        if r == "sat":
            number_flags.append((oid + "/prefix", f"number rewrite prepends {froms} outside the documented cases"))
        # what is sliced away: only one character (the '-') and only on the '-.' path
        sl = []
        for g in gets:
            for a in g[1]:
                a = deref_val(ex, o.state, a)
                if isinstance(a, Agg) and a.fields and isinstance(a.fields[0], Sym):
                    sl.append(z3.simplify(a.fields[0].t).as_long() if z3.is_bv_value(z3.simplify(a.fields[0].t)) else None)
        want2 = z3.If(z3.And(z3.Not(dot), mdot), z3.BoolVal(sl == [1]), z3.BoolVal(sl == []))
        r, m = ses.obligation(oid + "/slice", pc, z3.Not(want2), f"slices {sl}: text[1..] only on the '-.' path")
        if r == "sat":
            number_flags.append((oid + "/slice", f"number rewrite drops characters {sl} outside the '-.' case"))
    rep.bounds["number_paths"] = n
    if n == 0:
        number_flags.append(("number/arm-not-recognised", "no path of format_token is specific to TokenType::Number"))
    if number_flags:
        # the arm no longer has the encoded shape: fall back to the concrete battery; an alarm needs a reproduced value change
        v, rec = number_battery()
        for oid, what in number_flags[:6]:
            if v is None:
                rep.add(oid, "inconclusive", f"{what}; the number battery ({rec.get('tried')} literals) shows no value change")
            else:
                status = rep.violation({"obligation": "number", "observed": v.split(":")[0]}, {"what": what, "observed": v, "kind": "number", **rec})
                rep.add(oid, status, v)


def replay_multi_config():
    """files with different quote styles formatted by ONE process (one worker thread): each literal keeps its value - a rewrite remembered
    from a file under another style would carry escapes made for the other delimiter"""
    from .. import clireplay
    binp = common.native_build("full")
    src = "local a = \"it's\"\nlocal b = 'say \"hi\"'\nlocal c = 'plain'\nlocal d = \"both ' and \\\"\"\n"
    want = [py_decode(t[1][1:-1]) for t in luaexpr.tokenize(src) if t[0] == "str"]
    for s1 in STYLES:
        for s2 in STYLES:
            if s1 == s2:
                continue
            files = {"d1/stylua.toml": f'quote_style = "{s1}"\n', "d1/m.lua": src, "d2/stylua.toml": f'quote_style = "{s2}"\n', "d2/m.lua": src}
            for order in (["d1/m.lua", "d2/m.lua"], ["d2/m.lua", "d1/m.lua"]):
                r = clireplay.run_cli(binp, files, ["--num-threads", "1"] + order)
                for f in order:
                    out = r["after"][f][0].decode("utf-8", "replace")
                    try:
                        got = [py_decode(t[1][1:-1]) for t in luaexpr.tokenize(out) if t[0] == "str"]
                    except luaexpr.LuaSyntaxError as e:
                        return f"{s1} and {s2} in one run ({order}): {f} no longer lexes: {out!r}", {"argv": ["--num-threads", "1"] + order, "styles": [s1, s2]}
                    if got != want:
                        return f"{s1} and {s2} in one run ({order}): the literals of {f} changed their values: {out!r}", {"argv": ["--num-threads", "1"] + order, "styles": [s1, s2]}
    return None, {}


def fallback(rep):
    """kernels undecided: the literal and number batteries are run; only a changed value is reported"""
    v, rec = replay_multi_config()
    if v:
        rep.add("battery/multi-config", rep.violation({"obligation": "battery-after-undecided-kernel", "scenario": "multi-config"}, {"what": "kernel undecided; several quote styles in one process",
                                                                                                                             "observed": v, "kind": "multi-config", **rec}), v)
    hit = literal_battery()
    if hit:
        v, rec = hit
        rep.add("battery/literals", rep.violation({"obligation": "battery-after-undecided-kernel", "scenario": "literals"}, {"what": "kernel undecided; literal battery", "observed": v, **rec}), v)
    v, rec = number_battery()
    if v:
        rep.add("battery/numbers", rep.violation({"obligation": "battery-after-undecided-kernel", "scenario": "numbers"}, {"what": "kernel undecided; number battery", "observed": v, "kind": "number", **rec}), v)


def replay(path):
    d = json.load(open(path))
    r = d["replay"]
    if r.get("kind") == "number":
        v, rec = number_battery()
        print(v or "number battery: no value change")
        if v:
            print(f"VIOLATION property=C04 replay={path}")
            return 1
        return 0
    if r.get("kind") == "multi-config":
        v, rec = replay_multi_config()
        print(v or "literals keep their values when several quote styles are formatted by one process")
        if v:
            print(f"VIOLATION property=C04 replay={path}")
        return 1 if v else 0
    if "c01_info" in r:
        from . import c01
        v, rec = c01.REPLAYS[r["kind"]](r["c01_info"])
        print(v or "property holds for the recorded scenario")
        if v:
            print(f"VIOLATION property=C04 replay={path}")
        return 1 if v else 0
    if "body" not in r:       # recorded by the literal battery / the long-string kernel: run those again
        from . import c10
        hit = literal_battery()
        v = hit[0] if hit else c10.text_battery("StringLiteral")[0]
    else:
        v, rec = replay_literal(r["body"], r["quote"], r["style"])
    print(v or "property holds for the recorded literal")
    if v:
        print(f"VIOLATION property=C04 replay={path}")
        return 1
    return 0

"""C05 — parentheses are dropped only where they cannot matter (flagship; DESIGN.md section 5).

Stage 1: rule extraction from the MIR of format_expression / format_expression_internal / format_hanging_expression_ /
hang_binop_expression / hang_expression (+ check_excess_parentheses and on-demand helpers inlined).
Stage 2: for every tree shape up to the bound (operators, leaf kinds and all width/comment predicates symbolic) one solver
query per entry point: exists operators, leaf kinds and layout decisions such that the output is not "well formed with the same
core tree and the same truncation"?  Models are concretised to Lua source and replayed through the native binary.
"""
import itertools, json, multiprocessing, os, re, time, z3

from .. import common, exprmodel, luaexpr
from ..exprmodel import ExprRules, Composer, Oracle, Node, shapes, pt_show, ENCODED
from ..common import Inconclusive

BOPSRC = {"Caret": "^", "Percent": "%", "Slash": "/", "Star": "*", "DoubleSlash": "//", "Minus": "-", "Plus": "+", "TwoDots": "..",
          "DoubleLessThan": "<<", "DoubleGreaterThan": ">>", "Ampersand": "&", "Tilde": "~", "Pipe": "|", "GreaterThan": ">",
          "GreaterThanEqual": ">=", "LessThan": "<", "LessThanEqual": "<=", "TildeEqual": "~=", "TwoEqual": "==", "And": "and", "Or": "or"}
UOPSRC = {"Minus": "-", "Not": "not ", "Hash": "#", "Tilde": "~"}


def concrete_tree(pt, m, R):
    """PT + model -> nested tuples with names: ('Bin', 'Caret', l, r) ..."""
    ev = lambda x: m.eval(x, model_completion=True).as_long()
    bn = {i: n for n, i in R.bop.items()}
    un = {i: n for n, i in R.uop.items()}
    en = {i: n for n, i in R.idx.items()}
    sn = {i: n for n, i in R.symidx.items()}
    k = pt[0]
    if k == "Bin": return ("Bin", bn.get(ev(pt[1]), "?"), concrete_tree(pt[2], m, R), concrete_tree(pt[3], m, R))
    if k == "Un": return ("Un", un.get(ev(pt[1]), "?"), concrete_tree(pt[2], m, R))
    if k in ("Par", "TA"): return (k, concrete_tree(pt[1], m, R))
    kind = en.get(ev(pt[1]), "?")
    return ("Leaf", kind, sn.get(ev(pt[2]), "?") if kind == "Symbol" else "", pt[3])


def pattern(ct):
    k = ct[0]
    if k == "Bin": return f"[{pattern(ct[2])} {ct[1]} {pattern(ct[3])}]"
    if k == "Un": return f"{ct[1]}~{pattern(ct[2])}"
    if k == "Par": return "(" + pattern(ct[1]) + ")"
    if k == "TA": return pattern(ct[1]) + "::T"
    return {"FunctionCall": "call", "Symbol": "..." if ct[2] == "Ellipsis" else "sym", "IfExpression": "ifexpr"}.get(ct[1], "x")


def lua_of(ct, width_of, pad=""):
    k = ct[0]
    if k == "Bin": return f"{lua_of(ct[2], width_of, pad)} {BOPSRC[ct[1]]} {lua_of(ct[3], width_of, pad)}"
    if k == "Un":
        inner = lua_of(ct[2], width_of, pad)
        return UOPSRC[ct[1]] + (" " if UOPSRC[ct[1]] == "-" and inner.startswith("-") else "") + inner      # `- -x`, never `--x`
    if k == "Par": return "(" + pad + lua_of(ct[1], width_of, pad) + pad + ")"
    if k == "TA": return lua_of(ct[1], width_of, pad) + " :: number"
    kind, sym, lid = ct[1], ct[2], ct[3]
    w = width_of(lid)
    nm = chr(ord("a") + lid % 26) * max(1, w)
    if kind == "Var": return nm
    if kind == "Number": return "1" + "0" * max(0, w - 1)
    if kind == "String": return '"' + nm + '"'
    if kind == "FunctionCall": return nm + "()"
    if kind == "TableConstructor": return "{}" if w <= 2 else "{ " + nm + " }"
    if kind == "Function": return "function() end"
    if kind == "Symbol": return {"Ellipsis": "...", "Nil": "nil", "True": "true", "False": "false"}.get(sym, "nil")
    if kind == "IfExpression": return f"if {nm} then 1 else 2"
    if kind == "InterpolatedString": return "`" + nm + "`"
    return nm


def leaf_ids(ct):
    if ct[0] == "Leaf": return [ct[3]]
    return [i for c in ct[1:] if isinstance(c, tuple) for i in leaf_ids(c)]


def replay_tree(ct, entry, fs, release=False):
    """search a small grid of identifier lengths and column widths for a layout that makes the real formatter produce an output
    whose normal form differs from the input's. -> (violation text or None, record)"""
    binp = common.native_build("full" if fs == "full" else "default", release=release)
    ids = leaf_ids(ct)
    prefix = "Prefix" in entry
    tried = 0
    syntaxes = [[]] if fs == "default" else [["--syntax", "luau"], ["--syntax", "lua54"]]
    for syn in syntaxes:
        if syn == ["--syntax", "lua54"] and ("TA" in repr(ct) or "IfExpression" in repr(ct) or "Interpolated" in repr(ct)):
            continue
        if syn == ["--syntax", "luau"] and re.search(r"'(DoubleLessThan|DoubleGreaterThan|Ampersand|Pipe)'|\('Bin', 'Tilde'|\('Un', 'Tilde'", repr(ct)):
            continue
        for lens, pad in itertools.chain([(None, ""), (None, " ")], ((l, "") for l in itertools.product((1, 12, 30, 40), repeat=min(len(ids), 3)))):
            wmap = {i: 1 for i in ids} if lens is None else {i: lens[j % len(lens)] for j, i in enumerate(ids)}
            expr = lua_of(ct, lambda i: wmap[i], pad)
            src = f"local x = {expr}" + (".k" if prefix else "") + "\n"
            if prefix and lens is not None and lens[0] == 40:
                src = f"local x = {expr}:dot(other)\n"
            try:
                ein, _ = luaexpr.parse_local_expr(src)
            except luaexpr.LuaSyntaxError:
                continue          # the model's tree is not valid source in this dialect
            for cw in (120, 100, 90, 80, 70, 60, 50, 40, 30, 25, 12, 1):
                tried += 1
                rc, out, err = common.run_stylua(binp, src, syn + ["--column-width", str(cw)])
                if rc != 0:
                    if "error parsing" in err or "failed to format" in err:
                        break     # dialect does not accept the input
                    continue
                v = None
                try:
                    eout, comments = luaexpr.parse_local_expr(out)
                    if comments:
                        v = f"code ended up in a comment: {comments[0][:40]!r}"
                    elif luaexpr.strip(eout) != luaexpr.strip(ein):
                        v = "expression grouping/truncation changed"
                except luaexpr.LuaSyntaxError as e:
                    v = f"output does not parse: {e}"
                if v:
                    return v, {"source": src, "args": syn + ["--column-width", str(cw)], "output": out, "tried": tried}
    return None, {"tried": tried}


# ------------------------------------------------------------------------------------------------ worker
_W = {}


def shape_filter(name):
    """named slices of the shape space (quick tier: a slice of the next bound instead of all of it)"""
    if name is None:
        return lambda root: True
    if name == "unary-3ops-1paren":      # three operators of which at least one is unary, exactly one parenthesised edge
        def f(root):
            k = {"Par": 0, "Un": 0, "Bin": 0}
            def w(n):
                k[n.kind] = k.get(n.kind, 0) + 1
                for c in n.kids:
                    w(c)
            w(root)
            return k["Par"] == 1 and k["Un"] >= 1 and k["Un"] + k["Bin"] == 3
        return f
    if name == "assertion-3ops-1paren":  # a Luau type assertion among three operators, exactly one parenthesised edge (`a and (b :: T) < c`)
        def f(root):
            k = {"Par": 0, "Un": 0, "Bin": 0, "TA": 0}
            def w(n):
                k[n.kind] = k.get(n.kind, 0) + 1
                for c in n.kids:
                    w(c)
            w(root)
            return k["Par"] == 1 and k["TA"] >= 1 and k["Un"] + k["Bin"] + k["TA"] == 3
        return f
    raise ValueError(name)


def _work(job):
    fs, entry_list, idx_list, max_ops, max_par, with_ta = job[:6]
    keep = shape_filter(job[6] if len(job) > 6 else None)
    R, O = _W["R"][fs], _W["O"][fs]
    out = {"queries": 0, "solver_s": 0.0, "sat": [], "inconclusive": [], "instances": 0, "shapes": 0, "vacuous": 0}
    want = set(idx_list)
    for si, mk in enumerate(shapes(max_ops, max_par, with_ta)):
        if si not in want or not keep(mk()):
            continue
        out["shapes"] += 1
        for entry, ctx, prefix in entry_list:
            root = mk()
            if prefix and root.kind != "Par":
                continue
            C = Composer(R, root)
            try:
                alts = C.eval(entry, root, ctx)
            except Inconclusive as e:
                out["inconclusive"].append(f"{root.show()}/{entry}: {e}")
                continue
            tin = C.in_pt(root)
            out["instances"] += C.instances
            if C.inconclusive:
                out["inconclusive"].append(f"{root.show()}/{entry}: {C.inconclusive[0]}")
            base = O.valid_ops(root) + [O.wf(tin, source=True)]
            s = z3.Solver()
            s.set("timeout", 60000)
            s.add(base)
            s.add(z3.Or([g for g, _ in alts]) if alts else z3.BoolVal(False))
            t0 = time.time()
            r0 = s.check()
            out["queries"] += 1
            if r0 != z3.sat:
                out["vacuous"] += 1            # no well-formed input of this shape reaches an output (e.g. TA around an operator)
                out["solver_s"] += time.time() - t0
                continue
            s.add(z3.Or([z3.And(g, z3.Not(O.good(tin, t, prefix))) for g, t in alts]))
            r = s.check()
            out["queries"] += 1
            out["solver_s"] += time.time() - t0
            if r == z3.unknown:
                out["inconclusive"].append(f"{root.show()}/{entry}: solver timeout")
            elif r == z3.sat:
                m = s.model()
                bad = None
                for g, t in alts:
                    if z3.is_true(m.eval(z3.And(g, z3.Not(O.good(tin, t, prefix))), model_completion=True)):
                        bad = t
                        break
                out["sat"].append({"shape": root.show(), "entry": f"{entry}/{ctx}" + ("@Prefix" if prefix and "Prefix" not in ctx else ""), "fs": fs,
                                   "in": concrete_tree(tin, m, R), "out": concrete_tree(bad, m, R) if bad else None})
    return out


def discover_prefix_entries(R):
    """which (function, context) pairs format_prefix applies to the parenthesised expression of a Prefix::Expression"""
    ex = R.ex
    fn = ex.resolve("format_prefix")
    if fn is None:
        return []
    R.extract("format_prefix")
    ents = set()
    for r in R.raw_rules["format_prefix"]:
        for c in r.calls.values():
            if c["ctx"] and c["ctx"][0] == "const":
                ents.add((c["fn"], c["ctx"][1], True))
            elif c["ctx"] is None and c["fn"] in ("format_expression", "hang_expression"):
                # the wrappers without a context argument format under ExpressionContext::Standard: for a prefix this drops the
                # "a prefix always keeps its parentheses" rule, so the entry is checked as a prefix entry all the same
                ents.add((c["fn"], "Standard", True))
    return sorted(ents)


def run(ses, rep, plan=None):
    quick = rep.tier == "quick"
    if plan is None:
        plan = [("default", 2 if quick else 3, 1, False), ("full", 2 if quick else 3, 1, True)]
        if quick:
            plan.append(("default", 3, 0, False))     # 3 operators, no redundant parentheses: all precedence/associativity triples
            plan.append(("default", 2, 2, False))     # up to two nested parentheses per edge
            plan.append(("full", 3, 1, True, "assertion-3ops-1paren"))
            plan.append(("default", 3, 1, False, "unary-3ops-1paren"))   # a slice of the thorough bound: `a + (-b) ^ c` and its relatives
        else:
            plan.append(("full", 2, 2, True))
    rep.bounds.update({"tiers": [{"features": p[0], "max_operators": p[1], "max_nested_parens_per_edge": p[2], "type_assertions": p[3],
                                  **({"slice": p[4]} if len(p) > 4 else {})} for p in plan]})
    rep.assumptions += ["width measurement, comment predicates and shape arithmetic are unconstrained (havoc): every layout path is explored",
                        "leaf formatters (format_var, format_function_call, format_table_constructor, format_token_reference, ...) return a node of the variant they are wrapped in; trivia updates return the same node (summaries)",
                        "BinOp::precedence / is_right_associative summarised from full_moon's make_bin_op! table",
                        "two calls of the same function on the same node with the same context choose the same layout (memoised instance)"]
    rep.outside += ["trees deeper than the bound; interaction with comments; format_function_args' own parentheses (C11)",
                    "if-expression *operands* and interpolated-string segments are leaves"]
    _W["R"], _W["O"] = {}, {}
    entries = {}
    for fs in sorted({p[0] for p in plan}):
        R = ExprRules(ses, fs)
        for f in ENCODED:
            R.extract(f)
        ents = [("format_expression", "Standard", False), ("hang_expression", "Standard", False)] + discover_prefix_entries(R)
        entries[fs] = ents
        _W["R"][fs], _W["O"][fs] = R, Oracle(R)
        rep.extra.setdefault("rules", {})[fs] = {f: len(R.rules[f]) for f in R.rules}
        rep.extra.setdefault("inlined_helpers", {})[fs] = sorted(R.inline_names)
        rep.extra.setdefault("entries", {})[fs] = [f"{a}/{b}" for a, b, _ in ents]
        # sanity: the rule table must contain what the property is about
        for f in ENCODED:
            if not any(r.kind == "return" for r in R.rules[f]):
                raise Inconclusive(f"no returning rule extracted for {f}")
    rep.samples.append({"rule_sample": [_W["R"][plan[0][0]].describe(r) for r in _W["R"][plan[0][0]].raw_rules["format_expression_internal"][:3]]})
    ncpu = min(16, os.cpu_count() or 4)
    jobs = []
    for p_ in plan:
        fs, max_ops, max_par, with_ta = p_[:4]
        sl = p_[4] if len(p_) > 4 else None
        n = sum(1 for _ in shapes(max_ops, max_par, with_ta))
        keep = shape_filter(sl)
        rep.bounds.setdefault("shapes", {})[f"{fs}/{max_ops}/{max_par}" + (f"/{sl}" if sl else "")] = n if sl is None else sum(1 for mk in shapes(max_ops, max_par, with_ta) if keep(mk()))
        chunks = [list(range(k, n, ncpu * 4)) for k in range(ncpu * 4)]
        for ch in chunks:
            if ch:
                jobs.append((fs, entries[fs], ch, max_ops, max_par, with_ta, sl))
    ctx = multiprocessing.get_context("fork")
    with ctx.Pool(ncpu) as pool:
        results = pool.map(_work, jobs, chunksize=1)
    sats, inc = [], []
    nq = 0
    for r in results:
        rep.queries += r["queries"]
        rep.solver_s += r["solver_s"]
        nq += r["shapes"]
        sats += r["sat"]
        inc += r["inconclusive"]
    rep.extra["shape_instances"] = nq
    rep.extra["vacuous_shape_entries"] = sum(r["vacuous"] for r in results)
    for i, x in enumerate(inc[:5]):
        rep.add(f"stage2/inconclusive{i}", "inconclusive", x)
    # one obligation per (featureset, entry): all shapes
    by = {}
    for s_ in sats:
        by.setdefault((s_["fs"], s_["entry"]), []).append(s_)
    for fs in entries:
        for e, c, _ in entries[fs]:
            key = (fs, f"{e}/{c}" + ("@Prefix" if _ and "Prefix" not in c else ""))
            if key not in by:
                rep.add(f"{fs}/{e}/{c}/all-shapes", "unsat", "no shape/operator/layout assignment violates the oracle")
    # replay
    seen = {}
    for s_ in sats:
        pat = pattern(s_["in"])
        role = {"obligation": "grouping", "entry": s_["entry"].split("/")[0], "pattern": pat}
        rk = json.dumps(role, sort_keys=True)
        if rk in seen:
            continue
        v, rec = replay_tree(s_["in"], s_["entry"], s_["fs"])
        seen[rk] = v
        oid = f"{s_['fs']}/{s_['entry']}/{pat}"
        rep.samples.append({"model": {"in": pattern(s_["in"]), "out": pattern(s_["out"]) if s_["out"] else None, "entry": s_["entry"]}, "replay": v})
        if v is None:
            rep.add(oid, "inconclusive", f"solver model {pat} -> {pattern(s_['out']) if s_['out'] else '?'} did not reproduce on the native build ({rec['tried']} layouts tried)")
        else:
            status = rep.violation(role, {"tree": s_["in"], "entry": s_["entry"], "fs": s_["fs"], "observed": v, **rec})
            rep.add(oid, status, v)
        if len(seen) > 40:
            break


def replay(path):
    d = json.load(open(path))
    r = d["replay"]
    def tup(x):
        return tuple(tup(y) for y in x) if isinstance(x, list) else x
    v, rec = replay_tree(tup(r["tree"]), r["entry"], r["fs"])
    print(v or "property holds for the recorded tree on the current build")
    if v:
        print(f"VIOLATION property=C05 replay={path}")
        return 1
    return 0

"""C01 — formatted output is always syntactically valid: claimed for four named output-breaking mechanisms (DESIGN.md section 5).

 O1  `;` before `(`: check_stmt_requires_semicolon over all statement variants x next statements; format_block emits Some(;) when required
 O2  no `--` from nested unary minus: the C05 tree oracle (wf: Minus~Minus) on both layout paths
 O3  `[ [[`: is_brackets_string == "the formatted key starts with a long-bracket string"; format_index/format_field pad such keys
 O4  a leading single-line comment / shebang is always followed by a newline (format_token)
 O5  format_if collapses `if c then stmt end` onto one line only when no comment sits on if/condition/then/block
"""
import json, re, z3

from .. import common, luaexpr
from ..common import Inconclusive
from ..mirsym import Sym, Str, Agg, Lazy, Ref, RefV, UNIT, vkey
from ..summaries import canon, deref_val, opt_some, opt_none
from ..session import find_calls

NEEDS = ["Assignment", "LocalAssignment", "FunctionCall", "Repeat", "CompoundAssignment"]


def ghost(ex, name_suffix, arg):
    """result object of a (memoised, pure) havoc'd call `..name_suffix(arg)`, created on demand with the same key the code uses"""
    k = vkey(arg)
    for key, v in ex.havoc_memo.items():
        if key[0].endswith(name_suffix) and key[2] and key[2][0] == k:
            return v
    return None


def token_type_hook(ex, st, callee, args, dty):
    c = canon(callee)
    if c in ("Token::token_type", "full_moon::tokenizer::Token::token_type"):
        tok = deref_val(ex, st, args[0])
        if isinstance(tok, Lazy):
            return RefV(ex.lazy_child(st, tok, ("get", "token_type"), "full_moon::tokenizer::TokenType", ".token_type"))
    return NotImplemented


# ------------------------------------------------------------------------------------------------ O1
def o1_semicolon(ses, rep, fs):
    flagged = []
    ex = ses.executor("lib", fs, inline=lambda n, f: canon(n).split("::")[-1] == "var_has_parentheses")
    T = ex.enums
    fn = ses.need(ex, "check_stmt_requires_semicolon")
    stmt = ex.fresh_lazy("full_moon::ast::Stmt", "stmt")
    pair = ex.fresh_lazy("(full_moon::ast::Stmt, Option<TokenReference>)", "next")
    has_next = z3.Bool("has_next")
    outs = []
    for nxt, cond in ((opt_some("Option", RefV(RefV(pair))), has_next), (opt_none("Option"), z3.Not(has_next))):
        for o in ex.run(fn, [RefV(stmt), nxt]):
            o.pc = [cond] + list(o.pc)
            outs.append(o)
    S = lambda v: z3.BitVecVal(T.index("Stmt", v), 64)
    d1 = ex.discr(None, stmt)
    stmt2 = ex.lazy_child(None, pair, ("field", 0), "full_moon::ast::Stmt", ".0")
    d2 = ex.discr(None, stmt2)
    PE = z3.BitVecVal(T.index("Prefix", "Expression"), 64)
    VE = z3.BitVecVal(T.index("Var", "Expression"), 64)

    def prefix_is_paren(owner_variant, field_ty, getter):
        obj = ex.lazy_child(None, stmt2, ("vfield", owner_variant, 0), field_ty, f".{owner_variant}.0")
        pre = ghost(ex, getter, RefV(obj))
        return obj, pre
    starts = []
    # f(...)-statement whose prefix is a parenthesised expression
    fc, pre = prefix_is_paren("FunctionCall", "full_moon::ast::FunctionCall", "FunctionCall::prefix")
    if pre is not None:
        starts.append(z3.And(d2 == S("FunctionCall"), ex.discr(None, deref_val(ex, None, pre)) == PE))
    else:
        starts.append(z3.And(d2 == S("FunctionCall"), z3.Bool("ghost:call-prefix-is-paren")))

    def var_is_paren(var):
        if var is None:
            return None
        var = deref_val(ex, None, var)
        ve = ex.lazy_tab.get((var.oid, ("vfield", "Expression", 0)))
        if ve is None:
            return None
        vex = deref_val(ex, None, ve)
        pre_ = ghost(ex, "VarExpression::prefix", RefV(vex)) or ghost(ex, "VarExpression::prefix", vex)
        if pre_ is None:
            return None
        return z3.And(ex.discr(None, var) == VE, ex.discr(None, deref_val(ex, None, pre_)) == PE)
    asg = ex.lazy_child(None, stmt2, ("vfield", "Assignment", 0), "full_moon::ast::Assignment", ".Assignment.0")
    vs = ghost(ex, "Assignment::variables", RefV(asg))
    it = ghost(ex, "::iter", vs) if vs is not None else None
    nx = None
    if it is not None:
        for key, v in ex.havoc_memo.items():
            if key[0].endswith("as Iterator>::next") and "Var" in key[0]:
                nx = v
    if nx is not None:
        first = ex.lazy_tab.get((nx.oid, ("vfield", "Some", 0)))
        c = var_is_paren(first)
        if c is not None:
            starts.append(z3.And(d2 == S("Assignment"), ex.discr(None, nx) == 1, c))
    else:
        starts.append(z3.And(d2 == S("Assignment"), z3.Bool("ghost:assignment-first-var-is-paren")))
    if T.index("Stmt", "CompoundAssignment") is not None:
        ca = ex.lazy_child(None, stmt2, ("vfield", "CompoundAssignment", 0), "full_moon::ast::CompoundAssignment", ".CompoundAssignment.0")
        lhs = ghost(ex, "CompoundAssignment::lhs", RefV(ca))
        c = var_is_paren(lhs)
        starts.append(z3.And(d2 == S("CompoundAssignment"), c if c is not None else z3.Bool("ghost:compound-lhs-is-paren")))
    # parser contract: a Prefix::Expression holds `( expr )`
    contract = []
    PAR = z3.BitVecVal(T.index("Expression", "Parentheses"), 64)
    for (oid, key), v in list(ex.lazy_tab.items()):
        if key == ("vfield", "Expression", 0) and isinstance(v, Lazy) and "Expression" in v.ty and "Box" in v.ty:
            own = [o_ for (o2, k2), o_ in ex.lazy_tab.items() if isinstance(o_, Lazy) and o_.oid == oid]
            if own and "Prefix" in own[0].ty:
                inner = ex.lazy_child(None, v, ("deref",), "full_moon::ast::Expression", "*")
                contract.append(ex.discr(None, inner) == PAR)
    for v in list(ex.havoc_memo.values()):
        if isinstance(v, Lazy) and "Prefix" in v.ty:
            pv = deref_val(ex, None, v)
            bx = ex.lazy_tab.get((pv.oid, ("vfield", "Expression", 0)))
            if bx is not None:
                inner = ex.lazy_child(None, bx, ("deref",), "full_moon::ast::Expression", "*")
                contract.append(ex.discr(None, inner) == PAR)
    next_paren = z3.And(has_next, z3.Or(starts))
    needs = z3.Or([d1 == S(v) for v in NEEDS if T.index("Stmt", v) is not None])
    base = [z3.ULT(d1, z3.BitVecVal(len(T.variants("Stmt")), 64)), z3.ULT(d2, z3.BitVecVal(len(T.variants("Stmt")), 64))] + ex.all_discr_ranges() + contract
    n = 0
    for pi, o in enumerate(outs):
        if o.kind != "return":
            continue
        if not ses.reachable(base + list(o.pc) + [needs, next_paren]):
            continue
        n += 1
        r, m = ses.obligation(f"{fs}/semicolon/path{pi}/required-when-ambiguous", base + list(o.pc) + [needs, next_paren], z3.Not(o.value.t),
                              "statement that can end in an expression + next statement starting with `(` => true")
        if r == "sat":
            cur = T.name("Stmt", m.eval(d1, model_completion=True).as_long())
            nx_ = T.name("Stmt", m.eval(d2, model_completion=True).as_long())
            flagged.append((f"{fs}/semicolon/path{pi}/required-when-ambiguous", f"no semicolon required between {cur} and a following {nx_} starting with `(`",
                            "semicolon", {"current": cur, "next": nx_, "fs": fs}))
    rep.bounds[f"{fs}/semicolon_paths"] = n
    return flagged


def o1_block_emits(ses, rep):
    """format_block: when check_stmt_requires_semicolon is true the pushed semicolon is Some(..)"""
    from .. import ignoremodel
    M = ignoremodel.Model(ses, "default")
    flagged = []
    ex = M.new_executor(extra_hooks=[M.hook_sfn])
    fn = ses.need(ex, "format_block")
    item = ex.fresh_lazy("(Stmt, Option<TokenReference>)", "item")

    def hook(ex_, st, callee, args, dty):
        c = canon(callee)
        if re.fullmatch(r"<Peekable<.*> as Iterator>::next", c):
            k = st.aux.get("it", 0)
            st.aux["it"] = k + 1
            return opt_some(dty, RefV(item)) if k == 0 else opt_none(dty)
        if c.endswith("Block::last_stmt_with_semicolon"):
            return opt_none(dty)
        return NotImplemented
    ex.hooks = [hook] + ex.hooks
    ex.max_block_visits = 3
    args = [RefV(ex.fresh_lazy(t.lstrip("&"), p)) if t.startswith("&") else ex.fresh_lazy(t, p) for p, t in fn.params]
    normal = z3.BitVecVal(ex.enums.index("FormatNode", "Normal"), 64)
    n = 0
    for pi, o in enumerate(ex.run(fn, args)):
        if o.kind != "return":
            continue
        req = find_calls(o.trace, lambda x: x.split("::")[-1] == "check_stmt_requires_semicolon")
        pushes = find_calls(o.trace, lambda x: re.search(r"Vec::push$", x) is not None)
        if not req or not pushes:
            continue
        n += 1
        if not ses.reachable(list(o.pc) + [req[-1][2].t]):
            continue
        tup = deref_val(ex, o.state, pushes[0][1][1])
        semi = deref_val(ex, o.state, tup.fields[1]) if isinstance(tup, Agg) and len(tup.fields) == 2 else None
        is_some = isinstance(semi, Agg) and semi.variant == "Some"
        r, m = ses.obligation(f"format_block/path{pi}/semicolon-emitted-when-required", list(o.pc) + [req[-1][2].t], z3.BoolVal(not is_some),
                              "required => Some(;) is pushed with the statement")
        if r == "sat":
            flagged.append((f"format_block/path{pi}/semicolon-emitted-when-required", "format_block drops a required semicolon", "semicolon",
                            {"current": "FunctionCall", "next": "FunctionCall", "fs": "default"}))
    if n == 0:
        raise Inconclusive("format_block: check_stmt_requires_semicolon is not consulted on any path")
    return flagged


# ------------------------------------------------------------------------------------------------ O3
def starts_with_long_bracket(ex, e, depth, bound=None):
    """oracle: the printed form of e (after redundant parentheses are removed) begins with `[[` / `[=[`.
    `bound` collects the assumption that the key is not nested deeper than `depth` wrappers."""
    T = ex.enums
    E = lambda v: z3.BitVecVal(T.index("Expression", v), 64)
    d = ex.discr(None, e)
    res = z3.BoolVal(False)
    wrappers = [E(v) for v in ("Parentheses", "BinaryOperator", "TypeAssertion") if T.index("Expression", v) is not None]
    if depth <= 0 and bound is not None:
        bound.append(z3.And([d != w for w in wrappers]))
    # String leaf
    tok = ex.lazy_child(None, e, ("vfield", "String", 0), "full_moon::tokenizer::TokenReference", ".String.0")
    t0 = ex.lazy_child(None, tok, ("derefto", "Token"), "full_moon::tokenizer::Token", ".deref")
    tt = ex.lazy_child(None, t0, ("get", "token_type"), "full_moon::tokenizer::TokenType", ".token_type")
    sl = T.index("TokenType", "StringLiteral")
    fields = [f[0] for f in T.variants("TokenType")[sl][2]]
    qi = fields.index("quote_type")
    qt = ex.lazy_child(None, tt, ("vfield", "StringLiteral", qi), "StringLiteralQuoteType", ".quote_type")
    is_br = z3.And(ex.discr(None, tt) == z3.BitVecVal(sl, 64), ex.discr(None, qt) == z3.BitVecVal(T.index("StringLiteralQuoteType", "Brackets"), 64))
    res = z3.If(d == E("String"), is_br, res)
    if depth <= 0:
        return res

    def kid(variant, fname):
        vs = T.variants("Expression")[T.index("Expression", variant)][2]
        i = [f[0] for f in vs].index(fname)
        bx = ex.lazy_child(None, e, ("vfield", variant, i), "Box<full_moon::ast::Expression>", f".{variant}.{i}")
        return ex.lazy_child(None, bx, ("deref",), "full_moon::ast::Expression", "*")
    res = z3.If(d == E("Parentheses"), starts_with_long_bracket(ex, kid("Parentheses", "expression"), depth - 1, bound), res)
    res = z3.If(d == E("BinaryOperator"), starts_with_long_bracket(ex, kid("BinaryOperator", "lhs"), depth - 1, bound), res)
    if T.index("Expression", "TypeAssertion") is not None:
        res = z3.If(d == E("TypeAssertion"), starts_with_long_bracket(ex, kid("TypeAssertion", "expression"), depth - 1, bound), res)
    return res


def o3_brackets(ses, rep, fs):
    flagged = []
    D = 3
    ex = ses.executor("lib", fs, hooks=[token_type_hook], inline=lambda n, f: canon(n).split("::")[-1] == "is_brackets_string", lazy_depth=9)
    fn = ses.need(ex, "is_brackets_string")
    e = ex.fresh_lazy("full_moon::ast::Expression", "key")
    outs = [o for o in ex.run(fn, [RefV(e)]) if o.kind != "depth"]
    bound = []
    want = starts_with_long_bracket(ex, e, D, bound)
    base = ex.all_discr_ranges() + bound
    n = 0
    for pi, o in enumerate(outs):
        if o.kind != "return":
            continue
        if not ses.reachable(base + list(o.pc) + ex.all_discr_ranges()):
            continue          # the path needs a key nested deeper than the bound
        n += 1
        r, m = ses.obligation(f"{fs}/is_brackets_string/path{pi}/=starts-with-long-bracket", base + list(o.pc) + ex.all_discr_ranges(), o.value.t != want,
                              f"true iff the key's leftmost token is a long-bracket string (depth <= {D})")
        if r == "sat":
            T = ex.enums
            shape = describe_key(ex, e, m, D)
            flagged.append((f"{fs}/is_brackets_string/path{pi}/=starts-with-long-bracket",
                            f"is_brackets_string={m.eval(o.value.t, model_completion=True)} for key shape {shape}", "brackets", {"shape": shape, "fs": fs}))
    rep.bounds[f"{fs}/is_brackets_string_paths"] = n
    # call sites pad the key when it is a brackets string
    for site, keyty in (("format_index", "Index"), ("format_field", "Field")):
        ex2 = ses.executor("lib", fs, inline=lambda n_, f: False)
        fn2 = ses.need(ex2, site)
        args = [RefV(ex2.fresh_lazy(t.lstrip("&"), p)) if t.startswith("&") else ex2.fresh_lazy(t, p) for p, t in fn2.params]
        ex2.max_block_visits = 3
        for pi, o in enumerate(ex2.run(fn2, args)):
            if o.kind != "return":
                continue
            ibs = find_calls(o.trace, lambda x: x.split("::")[-1] == "is_brackets_string")
            if not ibs:
                continue
            sp = find_calls(o.trace, lambda x: x.endswith("TokenType::spaces"))
            lead = find_calls(o.trace, lambda x: x.endswith("update_leading_trivia") and "Expression" in x)
            trail = find_calls(o.trace, lambda x: x.endswith("update_trailing_trivia") and "Expression" in x)
            padded = len(sp) >= 2 and bool(lead) and bool(trail)
            multiline = bool(find_calls(o.trace, lambda x: x.split("::")[-1] == "create_newline_trivia"))
            if not ses.reachable(list(o.pc) + [ibs[-1][2].t]):
                continue
            r, m = ses.obligation(f"{fs}/{site}/path{pi}/brackets-key-is-padded", list(o.pc) + [ibs[-1][2].t], z3.BoolVal(not (padded or multiline)),
                                  "is_brackets_string(key) => a space is appended on both sides of the key (or the brackets go multi-line)")
            if r == "sat":
                flagged.append((f"{fs}/{site}/path{pi}/brackets-key-is-padded", f"{site} does not pad a long-bracket key", "brackets",
                                {"shape": "String", "fs": fs}))
    return flagged


def describe_key(ex, e, m, depth):
    T = ex.enums
    d = m.eval(ex.discr(None, e), model_completion=True).as_long()
    nm = T.name("Expression", d) or "?"
    def kid(variant, fname):
        vs = T.variants("Expression")[T.index("Expression", variant)][2]
        i = [f[0] for f in vs].index(fname)
        bx = ex.lazy_tab.get((e.oid, ("vfield", variant, i)))
        return ex.lazy_tab.get((bx.oid, ("deref",))) if bx is not None else None
    if depth <= 0:
        return nm
    if nm == "Parentheses":
        k = kid("Parentheses", "expression")
        return "(" + (describe_key(ex, k, m, depth - 1) if k is not None else "?") + ")"
    if nm == "BinaryOperator":
        k = kid("BinaryOperator", "lhs")
        return "[" + (describe_key(ex, k, m, depth - 1) if k is not None else "?") + " .. x]"
    if nm == "TypeAssertion":
        k = kid("TypeAssertion", "expression")
        return (describe_key(ex, k, m, depth - 1) if k is not None else "?") + " :: T"
    if nm == "String":
        return "[[s]]"
    return nm


# ------------------------------------------------------------------------------------------------ O4
def o4_comment_newline(ses, rep):
    flagged = []
    tts = []

    def hook(ex_, st, callee, args, dty):
        c = canon(callee)
        if c in ("Token::token_type", "full_moon::tokenizer::Token::token_type"):
            tok = deref_val(ex_, st, args[0])
            if isinstance(tok, Lazy):
                tt = ex_.lazy_child(st, tok, ("get", "token_type"), "full_moon::tokenizer::TokenType", ".token_type")
                tts.append(tt)
                return RefV(tt)
        return NotImplemented
    ex = ses.executor("lib", "default", hooks=[hook], inline=lambda n, f: False)
    ex.max_paths = 6000
    fn = ses.need(ex, "format_token")
    args = [RefV(ex.fresh_lazy(t.lstrip("&"), p)) if t.startswith("&") else ex.fresh_lazy(t, p) for p, t in fn.params]
    fti = [i for i, (p, t) in enumerate(fn.params) if "FormatTokenType" in t]
    if len(fti) != 1:
        raise Inconclusive("format_token signature changed")
    outs = ex.run(fn, args)
    if not tts:
        raise Inconclusive("format_token does not inspect token_type()")
    T = ex.enums
    d = ex.discr(None, tts[0])
    ft = ex.discr(None, args[fti[0]])
    lead = z3.BitVecVal(T.index("FormatTokenType", "LeadingTrivia"), 64)
    kinds = z3.Or(d == z3.BitVecVal(T.index("TokenType", "SingleLineComment"), 64), d == z3.BitVecVal(T.index("TokenType", "Shebang"), 64))
    n = 0
    for pi, o in enumerate(outs):
        if o.kind != "return":
            continue
        pc = list(o.pc) + [kinds, ft == lead]
        if not ses.reachable(pc):
            continue
        n += 1
        v = o.value
        tr = deref_val(ex, o.state, v.fields[2]) if isinstance(v, Agg) and len(v.fields) == 3 else None
        nl = find_calls(o.trace, lambda x: x.split("::")[-1] == "create_newline_trivia")
        good = isinstance(tr, Agg) and tr.variant == "Some" and bool(nl)
        r, m = ses.obligation(f"format_token/path{pi}/leading-line-comment-gets-newline", pc, z3.BoolVal(not good),
                              "single-line comment / shebang as leading trivia => trailing trivia Some([newline])")
        if r == "sat":
            flagged.append((f"format_token/path{pi}/leading-line-comment-gets-newline", "a leading line comment is not followed by a newline", "comment", {}))
    if n == 0:
        raise Inconclusive("format_token: no path for leading single-line comments")
    return flagged


# ------------------------------------------------------------------------------------------------ O5 (collapse next to comments)
def o5_collapse(ses, rep):
    """format_if: the one-line `if c then stmt end` form is only chosen when no comment sits on `if` (trailing), the condition, `then`
    (either side) or inside the block - otherwise a line comment would swallow the rest of the collapsed line"""
    flagged = []
    ghosts = {}

    def who(ex_, st, v):
        v = deref_val(ex_, st, v)
        hc = ex_.havoc_calls.get(v.oid) if isinstance(v, Lazy) else None
        if hc:
            return hc[0].split("::")[-1]
        if isinstance(v, Lazy):
            m_ = re.match(r"ret:([^*.]+)", v.label)
            return m_.group(1).split("::")[-1] if m_ else v.label
        return None

    def g(kind, name):
        return ghosts.setdefault((kind, name), z3.Bool(f"comment:{kind}:{name}"))

    def hook(ex_, st, callee, args, dty):
        c = canon(callee)
        last = c.split("::")[-1]
        if last in ("has_trailing_comments", "has_leading_comments") and args:
            nm = who(ex_, st, args[0])
            if nm:
                return Sym(g("trail" if last == "has_trailing_comments" else "lead", nm), "bool")
        if last == "contains_comments" and args:
            nm = who(ex_, st, args[0])
            if nm in ("then_token", "if_token", "end_token"):
                return Sym(z3.Or(g("lead", nm), g("trail", nm)), "bool")
            if nm:
                return Sym(g("any", nm), "bool")
        if last == "remove_condition_parentheses":
            return deref_val(ex_, st, args[0])
        if re.fullmatch(r"<.* as (ToOwned|Clone)>::(to_owned|clone)", c):
            v = deref_val(ex_, st, args[0])
            if isinstance(v, Lazy):
                return v
        return NotImplemented
    ex = ses.executor("lib", "default", hooks=[hook], inline=lambda n, f: canon(n).split("::")[-1] in ("is_if_guard", "should_collapse_simple_conditionals", "config"))
    ex.max_block_visits = 3
    ex.max_paths = 40000
    fn = ses.need(ex, "format_if")
    args = [RefV(ex.fresh_lazy(t.lstrip("&"), p)) if t.startswith("&") else ex.fresh_lazy(t, p) for p, t in fn.params]
    outs = ex.run(fn, args)
    n = 0
    for pi, o in enumerate(outs):
        if o.kind != "return":
            continue
        names = [t[1].split("::")[-1] for t in o.trace if t[0] == "havoc"]
        collapsed = "format_block" not in names and ("format_last_stmt" in names or "format_stmt" in names or "format_last_stmt_no_trivia" in names
                                                     or "format_stmt_no_trivia" in names)
        if not collapsed:
            continue
        n += 1
        need_clear = [g("trail", "if_token"), g("lead", "then_token"), g("trail", "then_token"), g("any", "condition"), g("any", "block")]
        r, m = ses.obligation(f"format_if/path{pi}/collapse-only-without-comments", list(o.pc), z3.Or(need_clear),
                              "collapsed `if c then stmt end` => no comment on if/condition/then/block")
        if r == "sat":
            where = [str(x) for x in need_clear if z3.is_true(m.eval(x, model_completion=True))]
            flagged.append((f"format_if/path{pi}/collapse-only-without-comments", f"an if statement is collapsed onto one line although {where} holds",
                            "collapse", {"where": where}))
    rep.bounds["format_if_collapse_paths"] = n
    if n == 0:
        raise Inconclusive("format_if: collapse branch not recognised")
    return flagged


def replay_collapse(info):
    binp = common.native_build("default")
    srcs = ["if ready then -- c\n\tstart()\nend\nfinish()\n", "if ready --[[c]] then\n\treturn\nend\n", "if -- c\n\tready then\n\treturn\nend\n",
            "if ready then\n\treturn -- c\nend\n", "if ready -- c\nthen\n\treturn\nend\nfinish()\n",
            "local function f()\n\tif ready then -- c\n\t\treturn\n\tend\n\tg()\nend\n"]
    for src in srcs:
        for mode in ("Always", "ConditionalOnly"):
            rc, out, err = common.run_stylua(binp, src, ["--collapse-simple-statement", mode])
            if rc != 0:
                continue
            ok, perr = parses(binp, out, "lua51")
            try:
                same = [t for t in luaexpr.tokenize(out) if t[0] != "comment"] == [t for t in luaexpr.tokenize(src) if t[0] != "comment"]
            except luaexpr.LuaSyntaxError:
                same = False
            if not ok or not same:
                return f"--collapse-simple-statement {mode}: {src!r} -> {out!r} (code swallowed by a comment / does not re-parse)", {"source": src, "mode": mode, "output": out}
    return None, {}


# ------------------------------------------------------------------------------------------------ replay
def parses(binp, text, syn):
    """does the text re-parse under the syntax? (a second formatting pass is the parser's verdict)"""
    rc, out, err = common.run_stylua(binp, text, ["--syntax", syn])
    return rc == 0, err


SEMI_SRC = {
    "Assignment": "a = b", "LocalAssignment": "local a = b", "FunctionCall": "f(a)", "Repeat": "repeat x() until a", "CompoundAssignment": "a += b",
}
NEXT_SRC = {"FunctionCall": "(c)()", "Assignment": "(c).k = 1", "CompoundAssignment": "(c).k += 1"}
# further shapes of the next statement (the solver's model fixes only its kind): several targets, the parenthesis on the first one only
NEXT_VARIANTS = {"Assignment": ["(c).k, d.m = 1, 2", "(c).k, (d).m = 1, 2", "(c)[1], d = 1, 2"], "FunctionCall": ["(c):m()", "(c).k()", "(c)[1]()", "(c) 'x'"],
                 "CompoundAssignment": ["(c)[1] += 1"]}


def replay_semicolon(info):
    binp = common.native_build("full")
    cur, nx = SEMI_SRC.get(info["current"]), NEXT_SRC.get(info["next"], "(c)()")
    if cur is None:
        return None, {"note": "no source template for " + info["current"]}
    src = ""
    for nx in [nx] + NEXT_VARIANTS.get(info["next"], []):
        src = f"{cur};\n{nx}\n"
        for syn in (["luau"] if "+=" in src else ["lua51", "luau", "lua54"]):
            rc, out, err = common.run_stylua(binp, src, ["--syntax", syn])
            if rc != 0:
                continue
            flat = re.sub(r"\s+", "", out)
            if ";" + re.sub(r"\s+", "", nx)[:3] not in flat:
                return f"the semicolon between `{cur}` and `{nx}` was removed ({syn}): the two statements merge into one call", {"source": src, "syntax": syn, "output": out}
    return None, {"source": src}


BRACKET_SRC = {"[[s]]": "[[s]]", "([[s]])": "([[s]])", "[[[s]] .. x]": '[[s]] .. "x"', "(([[s]]))": "(([[s]]))", "[([[s]]) .. x]": '([[s]]) .. "x"',
               "[[[[s]] .. x] .. x]": '[[s]] .. "x" .. "y"', "[[s]] :: T": "[[s]] :: string", "([[s]] :: T)": "([[s]] :: string)"}


def replay_brackets(info):
    binp = common.native_build("full")
    keys = []
    if info.get("shape") in BRACKET_SRC:
        keys.append(BRACKET_SRC[info["shape"]])
    keys += [v for v in BRACKET_SRC.values() if v not in keys]
    for key in keys:
        for tmpl in ("local v = t[ %s ]\n", "local w = { [ %s ] = 1 }\n", "local v = t[ [=[s]=] ]\n" if key == "[[s]]" else None):
            if tmpl is None:
                continue
            src = tmpl % key if "%s" in tmpl else tmpl
            syn = "luau" if "::" in src else "lua51"
            rc, out, err = common.run_stylua(binp, src, ["--syntax", syn])
            if rc != 0:
                continue
            ok, perr = parses(binp, out, syn)
            if not ok:
                return f"output does not parse: {out.strip()!r}", {"source": src, "syntax": syn, "output": out}
            try:
                a = [t for t in luaexpr.tokenize(src) if t[0] != "comment"]
                b = [t for t in luaexpr.tokenize(out) if t[0] != "comment"]
            except luaexpr.LuaSyntaxError:
                continue
            if [t for t in a if t[1] not in "()"] != [t for t in b if t[1] not in "()"]:
                return f"token stream changed: {out.strip()!r}", {"source": src, "syntax": syn, "output": out}
    return None, {}


def replay_comment(info):
    binp = common.native_build("default")
    for src in ("-- c\nlocal x = 1\n", "#!/usr/bin/lua\nlocal x = 1\n", "local t = {\n\t-- c\n\ta = 1,\n}\n", "f(\n\t-- c\n\ta\n)\n"):
        rc, out, err = common.run_stylua(binp, src, [])
        if rc != 0:
            continue
        ok, perr = parses(binp, out, "lua51")
        strip = lambda s_: s_[s_.index("\n") + 1:] if s_.startswith("#!") and "\n" in s_ else s_       # (the shebang line is no Lua token)
        toks_in = [t for t in luaexpr.tokenize(strip(src)) if t[0] != "comment"]
        try:
            toks_out = [t for t in luaexpr.tokenize(strip(out)) if t[0] != "comment"]
        except luaexpr.LuaSyntaxError:
            toks_out = None
        if not ok or toks_out != toks_in:
            return f"code swallowed by a comment / output invalid: {out!r}", {"source": src, "output": out}
    return None, {}


def o7_parenthesis_line_comment(ses, rep):
    """O7: parentheses that are kept with their content on the same line: `( -- c` would swallow the expression and the `)`. On every path
    of format_expression_internal / format_hanging_expression_ that returns Expression::Parentheses whose span is format_contained_span's
    result as it is (nothing appended to `(`), some comment test over the span's trivia is FALSE on the path."""
    from .c07 import mk_variant, lazy_args
    from . import c02
    flagged = []
    for fs in ("default", "full"):
        funcs = ses.mir("lib", fs)
        for fname in ("format_expression_internal", "format_hanging_expression_"):
            f = [g for g in funcs.get(fname, []) if g.kind == "fn"]
            if len(f) != 1:
                raise Inconclusive(f"{fname} not found")
            f = f[0]
            ex = ses.executor("lib", fs, inline=lambda n, fn: False)
            ex.max_block_visits = 2
            node = mk_variant(ex, "Expression", "Parentheses", "paren")
            span = node.fields[0]
            args = [RefV(node) if re.fullmatch(r"&(\w+::)*Expression", t.strip()) else a for (p_, t), a in zip(f.params, lazy_args(ex, f))]
            outs = ex.run(f, args)
            rep.fn(f)
            n = 0
            for pi, o in enumerate(outs):
                if o.kind != "return":
                    continue
                v = deref_val(ex, o.state, o.value)
                if not (isinstance(v, Agg) and v.variant == "Parentheses"):
                    continue
                c = deref_val(ex, o.state, v.fields[0])
                if not (isinstance(c, Lazy) and c.oid in ex.havoc_calls and ex.havoc_calls[c.oid][0].split("::")[-1] == "format_contained_span"):
                    continue          # the span was rebuilt (ContainedSpan::new with newline / indent trivia): the multi-line layout
                n += 1
                P = c02.Prov(ex, o)
                tests = [t for t in o.trace if t[0] == "havoc" and isinstance(t[3], Sym) and z3.is_bool(t[3].t)
                         and t[1].split("::")[-1] in ("any", "contains_comments", "has_trailing_comments", "has_leading_comments", "token_contains_comments", "trivia_contains_comments")
                         and any(isinstance(span, Lazy) and span.oid in P.of(a_) for a_ in (t[4] if len(t) > 4 else t[2]))]
                some_false = [t for t in tests if not ses.reachable(list(o.pc) + [t[3].t])]
                oid = f"paren-line-comment/{fs}/{fname}/path{pi}/inline-only-without-a-comment-after-the-bracket"
                r, m = ses.obligation(oid, list(o.pc), z3.BoolVal(not some_false), "content stays on the line of `(` only if a comment test over the span said no")
                if r == "sat":
                    flagged.append((oid, f"{fname} keeps parentheses with their content on the same line although a comment may follow `(`: a line comment there "
                                         "swallows the expression and the `)`", "paren-comment", {"fn": fname}))
            if n == 0:
                raise Inconclusive(f"{fname}: no path returns parentheses laid out on one line")
    return flagged


def replay_paren_comment(info):
    binp = common.native_build("default")
    for src in ("local x = ( -- c\n y)\n", "local x = ( -- c\n a + b) * d\n", "local v = -( -- c\n -x)\n", "f(( -- c\n a or b) and c)\n", "local s = ( -- c\n 'str'):rep(2)\n",
                "local x = ( --[[ block ]] y) * 2\n", "return ( -- c\n a + b) * 2, 1\n"):
        for w in (120, 40, 20):
            rc, out, err = common.run_stylua(binp, src, ["--column-width", str(w)])
            if rc != 0:
                continue
            ok, perr = parses(binp, out, "lua51")
            from . import c02
            same = c02.normal_form(out) == c02.normal_form(src)       # (code tokens in order; parentheses, separators, comments and quote spelling aside)
            if not ok or not same:
                return f"--column-width {w}: {src!r} is printed as {out!r} (code swallowed by the comment / does not re-parse)", {"source": src, "args": ["--column-width", str(w)], "output": out}
    return None, {}


def o6_prefix_context(ses, rep):
    """O6: a parenthesised prefix keeps its parentheses on every layout path: format_prefix hands the expression to the expression
    formatters only under ExpressionContext::Prefix (`(function() end)()`, `("x"):rep(2)`, `({}).x` do not parse without them)"""
    from ..exprmodel import ExprRules, ENCODED
    from . import c05
    flagged = []
    for fs in ("default", "full"):
        R = ExprRules(ses, fs)
        for f in ENCODED:
            R.extract(f)
        ents = c05.discover_prefix_entries(R)
        if not ents:
            raise Inconclusive("format_prefix: no call of an expression formatter found")
        for fn_, ctx_, _ in ents:
            r, m = ses.obligation(f"prefix-context/{fs}/{fn_}/{ctx_}", [], z3.BoolVal(ctx_ != "Prefix"), "format_prefix passes ExpressionContext::Prefix")
            if r == "sat":
                flagged.append((f"prefix-context/{fs}/{fn_}/{ctx_}", f"format_prefix calls {fn_} under ExpressionContext::{ctx_}: the parentheses of a prefix can be removed",
                                "prefix", {"fn": fn_, "ctx": ctx_}))
    return flagged


def replay_prefix(info):
    binp = common.native_build("default")
    progs = ["local x = (function(argument_one) return argument_one end)()\n", "local y = (\"some_rather_long_string_value_here\"):rep(2)\n",
             "local z = ({ first_field_name = 1, second_field_name = 2 }).first_field_name\n", "(function() end)()\n"]
    for src in progs:
        for w in (120, 60, 30, 12, 5):
            rc, out, err = common.run_stylua(binp, src, ["--column-width", str(w)])
            if rc != 0:
                continue
            ok, perr = parses(binp, out, "lua51")
            if not ok:
                return f"--column-width {w}: {src.strip()!r} is printed as {out.strip()!r}, which does not parse", {"source": src, "args": ["--column-width", str(w)], "output": out}
    return None, {}


def o8_interpolated_brace(ses, rep):
    """O8  Luau: `{{` does not lex inside an interpolated string. format_interpolated_string must separate the brace of the segment from an
    expression that is PRINTED starting with `{`: on every path, if the expression format_expression returned is a table constructor, a
    blank was put in front of it. The test has to look at the formatted expression: redundant parentheses `{({ .. })}` are gone by then."""
    flagged = []
    ex = ses.executor("lib", "full", inline=lambda n, f: False)
    ex.max_block_visits = 2
    ex.stateful_next = True
    try:
        fn = ses.need(ex, "format_interpolated_string")
    except Inconclusive:
        return flagged
    T = ex.enums
    TC = T.index("Expression", "TableConstructor")
    args = [RefV(ex.fresh_lazy(t.lstrip("&").strip(), p)) if t.startswith("&") else ex.fresh_lazy(t, p) for p, t in fn.params]
    outs = ex.run(fn, args)
    n = 0
    for pi, o in enumerate(outs):
        if o.kind not in ("return", "loopbound"):       # (a path cut at the loop bound has formatted its segments all the same)
            continue
        fes = find_calls(o.trace, lambda x: x.split("::")[-1] == "format_expression")
        for ci, (nm, a, res) in enumerate(fes):
            if not isinstance(res, Lazy):
                continue
            d = ex.discr(o.state, res)
            if not ses.reachable(list(o.pc) + [d == TC]):
                continue
            n += 1
            padded = False
            for t in o.trace:
                if t[0] in ("havoc", "effect") and t[1].split("::")[-1] in ("update_leading_trivia", "update_trivia"):
                    snap = t[4] if len(t) > 4 else t[2]
                    x0 = deref_val(ex, o.state, snap[0]) if snap else None
                    if x0 is res:
                        padded = True
            r, m = ses.obligation(f"interp/path{pi}/expr{ci}/table-constructor-is-padded", list(o.pc) + [d == TC], z3.BoolVal(not padded),
                                  "a segment expression printed as a table constructor gets a blank in front")
            if r == "sat":
                flagged.append((f"interp/path{pi}/expr{ci}/table-constructor-is-padded", "an interpolated-string segment whose FORMATTED expression is a table constructor "
                                "is not separated from the segment's brace (`{{` does not lex)", "interp", {}))
    if n == 0 and outs:
        raise Inconclusive("format_interpolated_string: no path formats a segment expression")
    return flagged


def replay_interp(info):
    binp = common.native_build("full")
    for body in ("{({ a = 1 })}", "{ ({}) }", "{(({ 1, 2 }))}", "x {({ a = 1 })} y {{ b = 2 }}", "{ {1} }", "{({ a = 1 }).a}"):
        src = "local s = `" + body + "`\n"
        for cfg in ([], ["--column-width", "20"]):
            rc, out, err = common.run_stylua(binp, src, ["--syntax", "luau"] + cfg)
            if rc != 0:
                continue
            if "{{" in out or not parses(binp, out, "luau")[0]:
                return f"interpolated string {src.strip()!r} is printed as {out.strip()!r}, which does not lex (`{{{{`)", {"source": src, "flags": ["--syntax", "luau"] + cfg, "output": out}
    return None, {}


REPLAYS = {"interp": replay_interp, "paren-comment": replay_paren_comment, "prefix": replay_prefix, "semicolon": replay_semicolon, "brackets": replay_brackets, "comment": replay_comment, "collapse": replay_collapse}


def run(ses, rep):
    rep.assumptions += ["Prefix::Expression always holds a parenthesised expression (parser contract)", "callee results are unconstrained unless summarised",
                        "O2 is decided by the C05 encoding (reduced bound here: <=2 operators, default features)"]
    rep.outside += ["everything else that could make output unparseable: the property as a whole (parser x printer) is not claimed",
                    "the ~10 sites that move comments to a trailing position (O4 covers format_token only)"]
    flagged = []
    for fs in ("default", "full"):
        flagged += o1_semicolon(ses, rep, fs)
    flagged += o1_block_emits(ses, rep)
    for fs in ("default", "full"):
        flagged += o3_brackets(ses, rep, fs)
    flagged += o4_comment_newline(ses, rep)
    flagged += o5_collapse(ses, rep)
    flagged += o6_prefix_context(ses, rep)
    flagged += o7_parenthesis_line_comment(ses, rep)
    flagged += o8_interpolated_brace(ses, rep)
    # O2 through the C05 machinery (reduced)
    o2 = run_o2(ses, rep)
    try:
        run_o9(ses, rep)
    except Inconclusive as e:
        rep.add("assertion-before-less-than/encodable", "inconclusive", str(e)[:300], nontrivial=False)
    rep.samples.append({"flagged": [(f[0], f[1]) for f in flagged][:6]})
    seen = {}
    for oid, what, kind, info in flagged:
        key = (kind, json.dumps(info, sort_keys=True))
        if key not in seen:
            seen[key] = REPLAYS[kind](info)
        v, rec = seen[key]
        if v is None:
            rep.add(oid, "inconclusive", f"solver model ({what}) did not reproduce on the native build")
            continue
        role = {"obligation": kind, **{k: v_ for k, v_ in info.items() if k in ("current", "next", "shape", "fn", "ctx")}}
        status = rep.violation(role, {"what": what, "observed": v, "kind": kind, "info": info, **rec})
        rep.add(oid, status, f"{what}; {v}")


def run_o2(ses, rep):
    """O2: Minus~Minus never adjacent in the output: the C05 composer restricted to unary chains on both layout paths"""
    from ..exprmodel import ExprRules, Composer, Oracle, Node, ENCODED
    R = ExprRules(ses, "default")
    for f in ENCODED:
        R.extract(f)
    O = Oracle(R)
    shapes_ = []
    def chain(k, paren_mask):
        n = Node("Leaf")
        for i in range(k):
            if paren_mask >> i & 1:
                n = Node("Par", [n])
            n = Node("Un", [n])
        return n
    for k in (2, 3):
        for mask in range(2 ** k):
            shapes_.append(lambda k=k, mask=mask: chain(k, mask))
            shapes_.append(lambda k=k, mask=mask: Node("Bin", [chain(k, mask), Node("Leaf")]))
            shapes_.append(lambda k=k, mask=mask: Node("Bin", [Node("Leaf"), chain(k, mask)]))
    bad = 0
    for mk in shapes_:
        for entry in ("format_expression", "hang_expression"):
            root = mk()
            C = Composer(R, root)
            alts = C.eval(entry, root, "Standard")
            tin = C.in_pt(root)

            def mm(t):
                if t[0] == "Un":
                    here = z3.And(t[1] == O.minus, t[2][1] == O.minus) if t[2][0] == "Un" else z3.BoolVal(False)
                    return z3.Or(here, mm(t[2]))
                if t[0] == "Bin":
                    return z3.Or(mm(t[2]), mm(t[3]))
                if t[0] in ("Par", "TA"):
                    return mm(t[1])
                return z3.BoolVal(False)
            cons = O.valid_ops(root) + [O.wf(tin, source=True)]
            oid = f"minus-minus/{entry}/{root.show()}"
            if not alts or not ses.reachable(cons + [z3.Or([g for g, _ in alts])]):
                continue
            r, m = ses.obligation(oid, cons + [z3.Or([g for g, _ in alts])], z3.Or([z3.And(g, mm(t)) for g, t in alts]), "no `- -` adjacency in any output alternative")
            if r == "sat":
                bad += 1
                v, rec = replay_minus_minus({})
                if v:
                    rep.add(oid, rep.violation({"obligation": "minus-minus"}, {"what": "`- -` can come out adjacent", "observed": v, "kind": "minus-minus", "info": {}, **rec}), v)
                else:
                    rep.add(oid, "inconclusive", "`--` reachable in the rule composition; the nested-negation programs all re-parse on the native build")
    return bad


def run_o9(ses, rep):
    """O9 (Luau): `x :: T < y` does not parse (`<` after a type name opens generic arguments). On no layout path may the parentheses of a type
    assertion be dropped when the assertion ends the left operand of `<`. Decided on the C05 composer (full feature set), trees of <= 3
    operators with one type assertion; only THIS ill-formedness is asserted here (changed grouping that still parses is C05 / C02)."""
    from ..exprmodel import ExprRules, Composer, Oracle, Node, ENCODED, BV
    R = ExprRules(ses, "full")
    for f in ENCODED:
        R.extract(f)
    O = Oracle(R)
    if "LessThan" not in O.bops:
        return
    LT = BV(O.bops["LessThan"])
    ta = lambda: Node("Par", [Node("TA", [Node("Leaf")])])
    shapes_ = [lambda: Node("Bin", [ta(), Node("Leaf")]),
               lambda: Node("Bin", [Node("Leaf"), Node("Bin", [ta(), Node("Leaf")])]),
               lambda: Node("Bin", [Node("Bin", [Node("Leaf"), ta()]), Node("Leaf")]),
               lambda: Node("Bin", [Node("Bin", [ta(), Node("Leaf")]), Node("Leaf")]),
               lambda: Node("Bin", [Node("Un", [ta()]), Node("Leaf")]),
               lambda: Node("Bin", [Node("Par", [Node("Un", [Node("TA", [Node("Leaf")])])]), Node("Leaf")]),
               lambda: Node("Bin", [Node("Un", [Node("Bin", [Node("Leaf"), ta()])]), Node("Leaf")]),        # -a ^ (b :: T) < c
               lambda: Node("Bin", [Node("Leaf"), Node("Bin", [Node("Bin", [Node("Leaf"), ta()]), Node("Leaf")])]),
               lambda: Node("Bin", [Node("Bin", [Node("Leaf"), Node("Bin", [ta(), Node("Leaf")])]), Node("Leaf")])]

    def ends_in_ta(t):
        if t[0] == "TA":
            return z3.BoolVal(True)
        if t[0] == "Bin":
            return ends_in_ta(t[3])
        if t[0] == "Un":
            return ends_in_ta(t[2])
        return z3.BoolVal(False)

    def unparseable(t):
        if t[0] == "Bin":
            return z3.Or(z3.And(t[1] == LT, ends_in_ta(t[2])), unparseable(t[2]), unparseable(t[3]))
        if t[0] == "Un":
            return unparseable(t[2])
        if t[0] in ("Par", "TA"):
            return unparseable(t[1])
        return z3.BoolVal(False)
    bad = 0
    for mk in shapes_:
        for entry in ("format_expression", "hang_expression"):
            root = mk()
            C = Composer(R, root)
            try:
                alts = C.eval(entry, root, "Standard")
            except Inconclusive:
                continue
            tin = C.in_pt(root)
            cons = O.valid_ops(root) + [O.wf(tin), z3.Not(unparseable(tin))]
            oid = f"assertion-before-less-than/{entry}/{root.show()}"
            if not alts or not ses.reachable(cons + [z3.Or([g for g, _ in alts])]):
                continue
            r, m = ses.obligation(oid, cons + [z3.Or([g for g, _ in alts])], z3.Or([z3.And(g, unparseable(t)) for g, t in alts]),
                                  "no output alternative prints `:: T <`")
            if r == "sat":
                bad += 1
                v, rec = replay_assertion_lt({})
                if v:
                    rep.add(oid, rep.violation({"obligation": "assertion-before-less-than"}, {"what": "a type assertion loses its parentheses in front of `<`", "observed": v,
                                                                                          "kind": "assertion-lt", "info": {}, **rec}), v)
                else:
                    rep.add(oid, "inconclusive", f"solver model ({root.show()} through {entry}: `:: T <` in the output) did not reproduce on the native build")


def replay_assertion_lt(info):
    binp = common.native_build("full")
    L = lambda c, n: c * n
    progs = ["local v = (x :: number) < y\n", "local v = a and (b :: number) < c\n", "local v = -(x :: number) < y\n", "local v = (-x :: number) < y\n",
             "local v = a + (b :: number) < c\n", "local v = (a :: number) < b and c\n", "local v = (a :: number) < b == c\n"]
    for n in (1, 12, 30):
        progs.append(f"local v = {L('a', n)}() and ({L('b', n)}() :: {('T' * min(n, 6))}) < {L('c', n)}\n")
        progs.append(f"local v = {L('a', n)} and {L('d', n)} and ({L('b', n)} :: number) < {L('c', n)}\n")
        progs.append(f"local v = {L('a', n)} or {L('d', n)}.field and -({L('b', n)} :: number) < {L('c', n)} or {L('e', n)}\n")
        progs.append(f"if {L('a', n)} and ({L('b', n)}.x :: number) < {L('c', n)} then\n\tf()\nend\n")
        progs.append(f"return {L('a', n)} and ({L('b', n)} :: number) < {L('c', n)}\n")
        progs.append(f"f({L('a', n)} and ({L('b', n)} :: number) < {L('c', n)}, {L('e', n)})\n")
    for n in (4, 16, 28, 40):      # the assertion is the right operand of an operator that binds tighter than the unary operator in front
        progs += [f"local x = -{L('a', n)} ^ ({L('b', n + 9)} :: number) < {L('c', n + 14)}\n", f"return -{L('a', n)} ^ ({L('b', n + 9)} :: number) < {L('c', n + 14)}\n",
                  f"local x = {L('d', n)} + -{L('a', n)} ^ ({L('b', n)} :: number) < {L('c', n)}\n"]
    for n in (8, 14, 24, 40):      # a long chain whose LAST comparison is short (it fits on its own line once the chain hangs)
        chain = f"{L('a', n)}.alt ~= nil and {L('d', n)}.mode ~= Mode.None and {L('e', n)}.duration ~= nil"
        progs += [f"local v = {chain} and (x.start :: number) < 0\n", f"return {chain} and (x.start :: number) < now\n", f"if {chain} and (x.start :: number) < now then\n\tf()\nend\n",
                  f"while {chain} or (rest :: number) < now do\n\tf()\nend\n", f"local v = {chain} and -(x.start :: number) < 0\n", f"call({chain} and (x.start :: number) < 0)\n"]
    for src in progs:
        for w in ("120", "60", "40", "20"):
            rc, out, err = common.run_stylua(binp, src, ["--syntax", "luau", "--column-width", w])
            if rc != 0:
                continue
            if not parses(binp, out, "luau")[0]:
                return f"{src.strip()!r} at width {w} is printed as {out.strip()!r}, which does not parse", {"source": src, "flags": ["--syntax", "luau", "--column-width", w], "output": out}
    return None, {}


def replay_minus_minus(info):
    binp = common.native_build("default")
    for src in ("local y = -(-x)\n", "local y = - -x\n", "local y = -((-x)) + 1\n", "local t = { value = -((-offset)), other = 1 }\n", "return a * -(((-b))), 2\n", "local z = a - -b\n",
                "local z = a - (-b)\n", "local w = -(-(-c))\n", "local v = -(-aaaaaaaaaaaaaaaaaaaa) + bbbbbbbbbbbbbbbbbbbbbbbbbbbbbb + cccccccccccccccccccccccccccccc\n",
                "local v = - -aaaaaaaaaaaaaaaaaaaa + bbbbbbbbbbbbbbbbbbbbbbbbbbbbbb + cccccccccccccccccccccccccccccc\n", "return - -aaaaaaaaaaaaaaaaaaaa() * bbbbbbbbbbbbbbbbbbbbbbbbbbbbbb, cccccccccccccccccccccccccccccc\n",
                "local t = {\n\tvalue = - -offset_offset_offset_offset + another_long_name_another_long_name + third_name_third_name_third,\n}\n",
                "call(- -aaaaaaaaaaaaaaaaaaaa + bbbbbbbbbbbbbbbbbbbbbbbbbbbbbb, - - -cccccccccccccccccccccccccccccc .. dddddddddddddddddddd)\n"):
        for w in (120, 60, 30):
            rc, out, err = common.run_stylua(binp, src, ["--column-width", str(w)])
            if rc != 0:
                continue
            ok, perr = parses(binp, out, "lua51")
            try:
                same = not any(t[0] == "comment" for t in luaexpr.tokenize(out))        # (the programs hold no comment)
            except luaexpr.LuaSyntaxError:
                same = False
            if not ok or not same:
                return f"--column-width {w}: {src!r} is printed as {out!r} (`--` starts a comment)", {"source": src, "args": ["--column-width", str(w)], "output": out}
    return None, {}


REPLAYS["minus-minus"] = replay_minus_minus
REPLAYS["assertion-lt"] = replay_assertion_lt


def fallback(rep):
    """kernels undecided: the replays that need no solver model are run over all their programs; only output that does not re-parse is reported"""
    for kind in ("minus-minus", "assertion-lt", "interp", "paren-comment", "prefix"):
        try:
            v, rec = REPLAYS[kind]({})
        except (KeyError, TypeError, IndexError):
            continue
        if v:
            rep.add(f"battery/{kind}", rep.violation({"obligation": "battery-after-undecided-kernel", "scenario": kind}, {"what": "kernel undecided; replay programs", "observed": v,
                                                                                                                   "kind": kind, "info": {}, **rec}), v)


def replay(path):
    d = json.load(open(path))
    r = d["replay"]
    if "tree" in r and "entry" in r:        # recorded by C05's composer (O2)
        from . import c05
        tup = lambda x: tuple(tup(y) for y in x) if isinstance(x, list) else x
        v, rec = c05.replay_tree(tup(r["tree"]), r["entry"], r["fs"])
    else:
        v, rec = REPLAYS[r["kind"]](r["info"])
    print(v or "property holds for the recorded scenario")
    if v:
        print(f"VIOLATION property=C01 replay={path}")
        return 1
    return 0

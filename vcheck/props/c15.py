"""C15 — each file is formatted with the configuration the documented search finds (precedence kernels; DESIGN.md section 5).

File system abstraction: a directory chain d0 (the file's directory) .. dm (the root), m <= 3; a symbolic Bool per (directory, file
name in {stylua.toml, .stylua.toml}) for existence; cwd = some chain index (symbolic) or search_parent_directories (no root).
Path::parent / join / exists / == and the HashMap cache are summarised over chain indices.  Encoded (bin MIR): find_config_file
(recursion inlined), lookup_config_file_in_directory, find_toml_file, get_configuration_search_root, load_configuration,
load_configuration_for_stdin.  Two successive lookups exercise the cache.
"""
import json, re, z3

from .. import common, clireplay, clihooks
from ..common import Inconclusive
from ..mirsym import Sym, Str, Agg, Lazy, Ref, RefV, UNIT, State
from ..summaries import canon, deref_val, opt_some, opt_none
from ..session import find_calls

M_DEPTH = 3
NAMES = ["stylua.toml", ".stylua.toml"]


class FS:
    """symbolic directory chain"""
    def __init__(self, ex):
        self.ex = ex
        self.dirs = [Lazy(2000000 + i, "Path", f"dir{i}", 0, {"dir": i}) for i in range(M_DEPTH + 1)]
        self.exists = {(i, k): z3.Bool(f"exists_d{i}_{NAMES[k]}") for i in range(M_DEPTH + 1) for k in range(2)}
        self.root = z3.BitVec("root_index", 8)          # index of the cwd in the chain; M_DEPTH+1 = no root (search parents)
        self.cfgs = {}
        self.xdg = z3.Bool("xdg_or_home_config_found")

    def cfg(self, i, k):
        if (i, k) not in self.cfgs:
            self.cfgs[(i, k)] = Lazy(3000000 + i * 2 + k, "Config", f"config@d{i}/{NAMES[k]}", 0, {"cfg": (i, k)})
        return self.cfgs[(i, k)]

    def hook(self, ex, st, callee, args, dty):
        c = canon(callee)
        last = c.split("::")[-1]
        a0 = deref_val(ex, st, args[0]) if args else None
        if isinstance(a0, Agg) and a0.ty == "PathBufOf" :
            a0 = a0.fields[0]
        if c.endswith("Path::parent") and isinstance(a0, Lazy) and "dir" in a0.tags:
            i = a0.tags["dir"]
            return opt_some(dty, RefV(self.dirs[i + 1])) if i < M_DEPTH else opt_none(dty)
        if c.endswith("Path::join") and isinstance(a0, Lazy) and "dir" in a0.tags:
            nm = deref_val(ex, st, args[1])
            nm = deref_val(ex, st, nm)
            if isinstance(nm, Str) and nm.s in NAMES:
                return Lazy(next(ex.oid_counter), "PathBuf", f"d{a0.tags['dir']}/{nm.s}", 0, {"file": (a0.tags["dir"], NAMES.index(nm.s))})
            return NotImplemented
        if c.endswith("Path::exists") and isinstance(a0, Lazy) and "file" in a0.tags:
            return Sym(self.exists[a0.tags["file"]], "bool")
        if re.fullmatch(r"<PathBuf as Deref>::deref", c) or c.endswith("PathBuf::as_path") or c.endswith("Path::to_path_buf") or \
                re.fullmatch(r"<(std::path::)?Path as ToOwned>::to_owned", c) or re.fullmatch(r"<PathBuf as Clone>::clone", c) or \
                re.fullmatch(r"<PathBuf as AsRef<(std::path::)?Path>>::as_ref", c):
            if isinstance(a0, Lazy) and ("dir" in a0.tags or "file" in a0.tags):
                return RefV(a0) if dty.strip().startswith("&") else a0
        if c.endswith("Option::as_deref"):
            v = a0
            if isinstance(v, Agg) and v.variant == "Some":
                return opt_some(dty, RefV(deref_val(ex, st, v.fields[0])))
            if isinstance(v, Agg) and v.variant == "None":
                return opt_none(dty)
        if re.fullmatch(r"<(std::option::)?Option<&(std::path::)?Path> as PartialEq>::eq", c):
            x, y = deref_val(ex, st, args[0]), deref_val(ex, st, args[1])
            def idx(o):
                if isinstance(o, Agg) and o.variant == "Some":
                    p = deref_val(ex, st, o.fields[0])
                    return z3.BitVecVal(p.tags["dir"], 8) if isinstance(p, Lazy) and "dir" in p.tags else (self.root if isinstance(p, Lazy) and p.tags.get("root") else None)
                if isinstance(o, Agg) and o.variant == "None":
                    return z3.BitVecVal(255, 8)
                return None
            ix, iy = idx(x), idx(y)
            if ix is not None and iy is not None:
                return Sym(ix == iy, "bool")
        if c.endswith("read_and_apply_overrides") and isinstance(a0, Lazy) and "file" in a0.tags:
            st.trace.append(("read-config", a0.tags["file"]))
            return Agg(dty, "Ok", [self.cfg(*a0.tags["file"])])
        if re.search(r"HashMap(<.*>)?::get$", c):
            k = deref_val(ex, st, args[1])
            if isinstance(k, Lazy) and "dir" in k.tags:
                cache = st.aux.get("cache", {})
                if k.tags["dir"] in cache:
                    st.trace.append(("cache-hit", k.tags["dir"]))
                    return opt_some(dty, RefV(cache[k.tags["dir"]]))
                return opt_none(dty)
        if re.search(r"HashMap(<.*>)?::insert$", c):
            k = deref_val(ex, st, args[1])
            if isinstance(k, Lazy) and "dir" in k.tags:
                cache = dict(st.aux.get("cache", {}))
                cache[k.tags["dir"]] = args[2]
                st.aux["cache"] = cache
                return opt_none(dty) if dty.startswith(("std::option::Option", "Option")) else UNIT
        if c.endswith("search_config_locations"):
            st.trace.append(("xdg-search",))
            return [(self.xdg, Agg(dty, "Ok", [opt_some("Option<Config>", Lazy(3999999, "Config", "config@xdg/home", 0, {"cfg": "xdg"}))])),
                    (z3.Not(self.xdg), Agg(dty, "Ok", [opt_none("Option<Config>")]))]
        return NotImplemented

    def root_value(self):
        """Option<PathBuf> handed to find_config_file: Some(cwd) or None"""
        cwd = Lazy(2999999, "PathBuf", "cwd", 0, {"root": True})
        return cwd

    def oracle(self, start):
        """(found?, which config) by the documented rule, as z3 terms: nearest directory at or above `start` with a config file, not
        above the root index; with no root the search continues to the top and then to the XDG/HOME locations. Config identity is
        encoded as an Int: 2*i+k for files of the chain, 100 for XDG/HOME, -1 for none"""
        V = lambda v: z3.BitVecVal(v % 256, 8)
        res = z3.If(z3.And(z3.UGT(self.root, V(M_DEPTH)), self.xdg), V(100), V(-1))
        for i in range(M_DEPTH, start - 1, -1):
            here = z3.If(self.exists[(i, 0)], V(2 * i), z3.If(self.exists[(i, 1)], V(2 * i + 1), V(-2)))
            allowed = z3.Or(z3.UGT(self.root, V(M_DEPTH)), z3.UGE(self.root, V(i)))
            stop_here = z3.And(z3.ULE(self.root, V(M_DEPTH)), self.root == V(i))
            res = z3.If(z3.And(allowed, here != V(-2)), here, z3.If(stop_here, V(-1), res))
        # a start directory above the root is never searched upwards past ... (start > root): documented as "stopping at the cwd";
        # files outside the cwd: search only the file's own chain until the top is not documented -> assume start <= root
        return res

    def ident(self, ex, st, v):
        v = deref_val(ex, st, v)
        if isinstance(v, Agg) and v.variant == "Some":
            c = deref_val(ex, st, v.fields[0])
            if isinstance(c, Lazy) and "cfg" in c.tags:
                return z3.BitVecVal(100, 8) if c.tags["cfg"] == "xdg" else z3.BitVecVal(2 * c.tags["cfg"][0] + c.tags["cfg"][1], 8)
            return None
        if isinstance(v, Agg) and v.variant == "None":
            return z3.BitVecVal(255, 8)
        return None


def search(ses, rep):
    flagged = []
    total = 0
    for start in range(0, 2):
        for root_mode in ("cwd", "none"):
            ex = ses.executor("bin", "default", inline=lambda n, f: canon(n).split("::")[-1] in
                              ("find_config_file", "lookup_config_file_in_directory", "find_toml_file"), max_depth=12)
            fs = FS(ex)
            ex.hooks = [fs.hook, clihooks.context_passthrough, clihooks.silence_logging]
            ex.max_paths = 60000
            fn = ses.need(ex, "ConfigResolver::find_config_file")
            me = ex.fresh_lazy("ConfigResolver", "self")
            opt = ex.lazy_child(None, me, ("field", ex.enums.field_index("ConfigResolver", "opt")), "&Opt", ".opt")
            spd = ex.lazy_child(None, deref_val(ex, None, opt), ("field", ex.enums.field_index("Opt", "search_parent_directories")), "bool", ".spd")
            if root_mode == "cwd":
                rootv = opt_some("Option<PathBuf>", fs.root_value())
                pre = [z3.UGE(fs.root, z3.BitVecVal(start, 8)), z3.ULE(fs.root, z3.BitVecVal(M_DEPTH, 8)), z3.Not(spd.t)]
            else:
                rootv = opt_none("Option<PathBuf>")
                pre = [fs.root == z3.BitVecVal(M_DEPTH + 1, 8), spd.t]
            st0 = State()
            st0.pc = list(pre)
            outs1 = ex.run(fn, [RefV(me), RefV(fs.dirs[start]), rootv], st=st0)
            want = fs.oracle(start)
            for pi, o in enumerate(outs1):
                if o.kind != "return":
                    if o.kind == "panic" and ses.reachable(list(o.pc)):
                        rep.add(f"search/start={start}/{root_mode}/path{pi}/no-panic", "inconclusive", f"find_config_file can panic: {o.value}")
                    continue
                v = deref_val(ex, o.state, o.value)
                if not (isinstance(v, Agg) and v.variant == "Ok"):
                    continue
                got = fs.ident(ex, o.state, v.fields[0])
                total += 1
                oid = f"search/start={start}/{root_mode}/path{pi}/nearest-config-up-to-root"
                if got is None:
                    r, m = ses.obligation(oid, list(o.pc), z3.BoolVal(True))
                    if r == "sat":
                        flagged.append((oid, "find_config_file returns a configuration of unknown origin", "search", {}))
                    continue
                r, m = ses.obligation(oid, list(o.pc), got != want, "nearest stylua.toml/.stylua.toml from the file's directory up to the cwd (or the top, then XDG/HOME)")
                if r == "sat":
                    ev = lambda t: m.eval(t, model_completion=True)
                    info = {"start": start, "root": ev(fs.root).as_long(), "exists": sorted(f"d{i}/{NAMES[k]}" for (i, k), b in fs.exists.items() if z3.is_true(ev(b))),
                            "got": ev(got).as_signed_long(), "want": ev(want).as_signed_long(), "xdg": z3.is_true(ev(fs.xdg))}
                    flagged.append((oid, f"configuration search picks {info['got']} instead of {info['want']} for {info}", "search", info))
                # second lookup from the same state: the cache must not change the answer
                if pi < 40:
                    st2 = o.state.fork()
                    st2.stack = []
                    st2.trace = []
                    outs2 = [(start, o_) for o_ in ex.run(fn, [RefV(me), RefV(fs.dirs[start]), rootv], st=st2)]
                    if start + 1 <= M_DEPTH and root_mode == "none":
                        st3 = o.state.fork()
                        st3.stack = []
                        st3.trace = []
                        outs2 += [(start + 1, o_) for o_ in ex.run(fn, [RefV(me), RefV(fs.dirs[start + 1]), rootv], st=st3)]
                    for pj, (s2, o2) in enumerate(outs2):
                        if o2.kind != "return":
                            continue
                        v2 = deref_val(ex, o2.state, o2.value)
                        if not (isinstance(v2, Agg) and v2.variant == "Ok"):
                            continue
                        got2 = fs.ident(ex, o2.state, v2.fields[0])
                        oid2 = f"search/start={start}/{root_mode}/path{pi}.{pj}/cached-lookup-agrees"
                        if got2 is None:
                            continue
                        r, m = ses.obligation(oid2, list(o2.pc), got2 != (want if s2 == start else fs.oracle(s2)),
                                              "a second lookup (through the cache; same directory or its parent) gives the configuration the rule gives")
                        if r == "sat":
                            flagged.append((oid2, "the configuration cache changes the result of a lookup", "cache", {}))
    rep.bounds.update({"directory_chain_length": M_DEPTH + 1, "config_file_names": 2, "search_paths": total})
    if total == 0:
        raise Inconclusive("find_config_file: no returning path")
    return flagged


def precedence(ses, rep):
    """load_configuration: forced (--config-path) first; then the search; then .editorconfig unless disabled; then the defaults"""
    flagged = []
    for fname in ("ConfigResolver::load_configuration", "ConfigResolver::load_configuration_for_stdin"):
        ex = ses.executor("bin", "default", hooks=[clihooks.context_passthrough, clihooks.silence_logging],
                          inline=lambda n, f: canon(n).split("::")[-1] == "get_configuration_search_root" or
                          # helpers of the resolver that are not part of the documented search are executed in place
                          (f.name.startswith("config::<impl") and "{closure" not in f.name and
                           f.name.split("::")[-1] not in ("find_config_file", "lookup_config_file_in_directory", "search_config_locations",
                                                          "load_configuration", "load_configuration_for_stdin", "new")))
        T = ex.enums
        fn = ses.need(ex, fname)
        me = ex.fresh_lazy("ConfigResolver", "self")
        args = [RefV(me)] + [RefV(ex.fresh_lazy(t.lstrip("&"), p)) for p, t in fn.params[1:]]
        ex.max_block_visits = 3
        outs = ex.run(fn, args)
        forced = ex.lazy_child(None, me, ("field", T.field_index("ConfigResolver", "forced_configuration")), "Option<Config>", ".forced")
        dflt = ex.lazy_child(None, me, ("field", T.field_index("ConfigResolver", "default_configuration")), "Config", ".default")
        has_forced = ex.discr(None, forced) == 1
        n = 0
        for pi, o in enumerate(outs):
            if o.kind != "return":
                continue
            v = deref_val(ex, o.state, o.value)
            if not (isinstance(v, Agg) and v.variant == "Ok"):
                continue
            n += 1
            cfgv = deref_val(ex, o.state, v.fields[0])
            searches = find_calls(o.trace, lambda x: x.endswith("find_config_file"))
            ecs = find_calls(o.trace, lambda x: x.endswith("editorconfig::parse"))
            nested = find_calls(o.trace, lambda x: x.endswith("::load_configuration"))
            pc = list(o.pc) + ex.all_discr_ranges()
            is_forced = isinstance(cfgv, Lazy) and ex.parent.get(cfgv.oid, (None,))[0] == forced.oid
            oid = f"{fname.split('::')[-1]}/path{pi}"
            if ses.reachable(pc + [has_forced]):
                r, m = ses.obligation(oid + "/forced-wins", pc + [has_forced], z3.BoolVal(not is_forced), "--config-path beats everything")
                if r == "sat":
                    flagged.append((oid + "/forced-wins", "--config-path does not win", "forced", {}))
            if ses.reachable(pc + [z3.Not(has_forced)]):
                if nested:
                    ok = isinstance(cfgv, Lazy) and any(ex.parent.get(cfgv.oid, (None,))[0] == deref_val(ex, o.state, n_[2]).oid or
                                                        ex.parent.get(ex.parent.get(cfgv.oid, (None,))[0], (None,))[0] == n_[2].oid for n_ in nested)
                    continue
                if not searches:
                    r, m = ses.obligation(oid + "/search-is-consulted", pc + [z3.Not(has_forced)], z3.BoolVal(True))
                    if r == "sat":
                        flagged.append((oid + "/search-is-consulted", "a configuration is chosen without searching for stylua.toml", "search", {}))
                    continue
                # the search starts in a directory computed from the working directory (relative targets are resolved against it)
                cd = ex.lazy_tab.get((me.oid, ("field", T.field_index("ConfigResolver", "current_directory"))))
                from .c02 import Prov
                start_dir = searches[-1][1][1]
                starts_at_cwd = cd is not None and isinstance(cd, Lazy) and cd.oid in Prov(ex, o).of(start_dir)
                r, m = ses.obligation(oid + "/search-starts-from-the-working-directory", pc + [z3.Not(has_forced)], z3.BoolVal(not starts_at_cwd),
                                      "find_config_file is given current_directory.join(path).parent() (or the cwd itself for plain stdin)")
                if r == "sat":
                    flagged.append((oid + "/search-starts-from-the-working-directory", "the configuration search does not start from a path resolved against the working directory", "search", {}))
                # .. and it is the LEXICAL directory of that path ("walking up from the file's directory"): built with join / parent only; a call
                # that asks the file system where the path really lives (canonicalize, read_link, metadata) moves a symlinked file into another tree
                P_ = Prov(ex, o)
                via = sorted({ex.havoc_calls[o_][0].split("::")[-1] for o_ in P_.of(start_dir) if o_ in ex.havoc_calls})
                resolving = [c_ for c_ in via if c_ in ("canonicalize", "read_link", "symlink_metadata", "metadata", "absolutize", "realpath")]
                r, m = ses.obligation(oid + "/search-directory-is-lexical", pc + [z3.Not(has_forced)], z3.BoolVal(bool(resolving)),
                                      "the start directory is computed from (working directory, path) without consulting the file system")
                if r == "sat":
                    flagged.append((oid + "/search-directory-is-lexical", f"the search directory goes through {resolving}: a symlinked file is configured from where its target lives", "symlink", {}))
                sres = searches[-1][2]
                okv = ex.lazy_child(o.state, sres, ("vfield", "Ok", 0), "Option<Config>", ".Ok.0")
                found = ex.discr(o.state, okv) == 1
                from_search = isinstance(cfgv, Lazy) and ex.parent.get(cfgv.oid, (None,))[0] == okv.oid
                def through_maps(v, depth=0):
                    """objects the value was taken from, looking through .map(load_overrides) / .context(..) wrappers"""
                    seen = set()
                    while isinstance(v, Lazy) and depth < 8:
                        o_ = v.oid
                        while o_ is not None:
                            seen.add(o_)
                            root = o_
                            o_ = ex.parent.get(o_, (None,))[0]
                        nm = ex.havoc_calls.get(root, ("",))[0].split("::")[-1]
                        if nm in ("map", "context", "with_context", "map_err"):
                            v = deref_val(ex, o.state, ex.havoc_snap[root][0])
                            depth += 1
                            continue
                        break
                    return seen
                from_ec = bool(ecs) and isinstance(cfgv, Lazy) and any(e[2].oid in through_maps(cfgv) for e in ecs)
                is_default = isinstance(cfgv, Lazy) and cfgv.oid == dflt.oid
                opt = ex.lazy_child(None, me, ("field", T.field_index("ConfigResolver", "opt")), "&Opt", ".opt")
                noec = ex.lazy_child(None, deref_val(ex, None, opt), ("field", T.field_index("Opt", "no_editorconfig")), "bool", ".no_editorconfig")
                want_ok = z3.If(found, z3.BoolVal(from_search), z3.If(noec.t, z3.BoolVal(is_default), z3.BoolVal(from_ec)))
                r, m = ses.obligation(oid + "/toml-then-editorconfig-then-default", pc + [z3.Not(has_forced)], z3.Not(want_ok),
                                      "found stylua.toml, else .editorconfig (unless --no-editorconfig), else the defaults")
                if r == "sat":
                    flagged.append((oid + "/toml-then-editorconfig-then-default", "fallback order after the stylua.toml search is wrong", "fallback", {}))
                if ecs:
                    base_ok = any(isinstance(deref_val(ex, o.state, a), Lazy) and deref_val(ex, o.state, a).oid == dflt.oid for e in ecs for a in e[1])
                    r, m = ses.obligation(oid + "/editorconfig-on-top-of-defaults", pc, z3.BoolVal(not base_ok), "editorconfig is applied to the default (override-carrying) configuration")
                    if r == "sat":
                        flagged.append((oid + "/editorconfig-on-top-of-defaults", "editorconfig is not applied on top of the CLI-overridden defaults", "fallback", {}))
        if n == 0:
            raise Inconclusive(f"{fname}: no Ok-returning path")
    return flagged


# ------------------------------------------------------------------------------------------------ replay
W2 = 'indent_type = "Spaces"\nindent_width = 2\n'
W3 = 'indent_type = "Spaces"\nindent_width = 3\n'
W5 = 'indent_type = "Spaces"\nindent_width = 5\n'
SRC = "do\nlocal x = 1\nend\n"
def OUT(ind):
    return "do\n" + ind + "local x = 1\nend\n"


def battery():
    """(name, files, argv, cwd-relative expectations: path -> text)"""
    binp = common.native_build("default")
    cases = [
        ("nearest-wins", {"stylua.toml": W2, "a/stylua.toml": W3, "a/b/f.lua": SRC, "f.lua": SRC}, ["a/b/f.lua", "f.lua"], {"a/b/f.lua": OUT("   "), "f.lua": OUT("  ")}),
        ("dot-name", {".stylua.toml": W2, "f.lua": SRC}, ["f.lua"], {"f.lua": OUT("  ")}),
        ("plain-name-preferred", {"stylua.toml": W2, ".stylua.toml": W3, "f.lua": SRC}, ["f.lua"], {"f.lua": OUT("  ")}),
        ("config-path-wins", {"stylua.toml": W2, "other.toml": W5, "f.lua": SRC}, ["--config-path", "other.toml", "f.lua"], {"f.lua": OUT("     ")}),
        ("flag-overrides-found", {"stylua.toml": W2, "f.lua": SRC}, ["--indent-width", "4", "f.lua"], {"f.lua": OUT("    ")}),
        ("editorconfig-fallback", {".editorconfig": "root = true\n[*.lua]\nindent_style = space\nindent_size = 3\n", "f.lua": SRC}, ["f.lua"], {"f.lua": OUT("   ")}),
        ("toml-beats-editorconfig", {".editorconfig": "root = true\n[*.lua]\nindent_style = space\nindent_size = 3\n", "stylua.toml": W2, "f.lua": SRC}, ["f.lua"], {"f.lua": OUT("  ")}),
        ("no-editorconfig", {".editorconfig": "root = true\n[*.lua]\nindent_style = space\nindent_size = 3\n", "f.lua": SRC}, ["--no-editorconfig", "f.lua"], {"f.lua": OUT("\t")}),
        ("defaults", {"f.lua": SRC}, ["f.lua"], {"f.lua": OUT("\t")}),
        ("editorconfig-per-file", {".editorconfig": "root = true\n[*.lua]\nindent_style = space\nindent_size = 3\n[*_spec.lua]\nindent_style = space\nindent_size = 2\n",
                                   "d/u.lua": SRC, "d/u_spec.lua": SRC}, ["--num-threads", "1", "d/u.lua", "d/u_spec.lua"], {"d/u.lua": OUT("   "), "d/u_spec.lua": OUT("  ")}),
        ("editorconfig-per-file-reversed", {".editorconfig": "root = true\n[*.lua]\nindent_style = space\nindent_size = 3\n[*_spec.lua]\nindent_style = space\nindent_size = 2\n",
                                            "d/u.lua": SRC, "d/u_spec.lua": SRC}, ["--num-threads", "1", "d/u_spec.lua", "d/u.lua"], {"d/u.lua": OUT("   "), "d/u_spec.lua": OUT("  ")}),
        ("two-files-same-dir-cache", {"a/stylua.toml": W3, "a/f.lua": SRC, "a/g.lua": SRC, "h.lua": SRC}, ["a/f.lua", "h.lua", "a/g.lua"],
         {"a/f.lua": OUT("   "), "a/g.lua": OUT("   "), "h.lua": OUT("\t")}),
        ("dotted-nearer-than-plain", {"stylua.toml": W2, "pkg/.stylua.toml": W3, "pkg/a.lua": SRC, "pkg/sub/b.lua": SRC, "c.lua": SRC}, ["pkg/a.lua", "pkg/sub", "c.lua"],
         {"pkg/a.lua": OUT("   "), "pkg/sub/b.lua": OUT("   "), "c.lua": OUT("  ")}),
        ("plain-nearer-than-dotted", {".stylua.toml": W2, "pkg/stylua.toml": W3, "pkg/a.lua": SRC, "c.lua": SRC}, ["pkg/a.lua", "c.lua"], {"pkg/a.lua": OUT("   "), "c.lua": OUT("  ")}),
        ("symlinked-file-uses-the-directory-it-is-in", {"src/stylua.toml": W3, "vendor/real.lua": SRC, "src/link.lua": ("symlink", "../vendor/real.lua")}, ["src/link.lua"],
         {"vendor/real.lua": OUT("   ")}),
        ("sibling-not-used", {"a/stylua.toml": W3, "b/f.lua": SRC}, ["b/f.lua"], {"b/f.lua": OUT("\t")}),
        ("stdin-cwd", {"stylua.toml": W2}, ["-"], None),
    ]
    # stdin with a relative --stdin-filepath: the search starts at cwd/<dir of the path> and, with --search-parent-directories, goes above the cwd
    WQ = "quote_style = 'AutoPreferSingle'\n"
    for spath in ("sub/foo.lua", "foo.lua", "./sub/new.lua"):
        r = clireplay.run_cli(binp, {"proj/.stylua.toml": WQ, "proj/pkg/sub/foo.lua": "x = 1\n"}, ["--search-parent-directories", "--stdin-filepath", spath, "-"],
                              stdin='local x = "hello"\n', cwd_rel="proj/pkg", env={"XDG_CONFIG_HOME": "/nonexistent-xdg"})
        if r["out"] != "local x = 'hello'\n":
            return "stdin-filepath-above-cwd", f"--search-parent-directories --stdin-filepath {spath} (configuration one level above the cwd): stdin formatted as {r['out']!r}", clireplay.describe(r)
    r = clireplay.run_cli(binp, {"proj/pkg/sub/.stylua.toml": WQ}, ["--stdin-filepath", "sub/foo.lua", "-"], stdin='local x = "hello"\n', cwd_rel="proj/pkg")
    if r["out"] != "local x = 'hello'\n":
        return "stdin-filepath-subdir", f"--stdin-filepath sub/foo.lua with sub/.stylua.toml: stdin formatted as {r['out']!r}", clireplay.describe(r)
    for name, files, argv, want in cases:
        if want is None:
            r = clireplay.run_cli(binp, files, argv, stdin=SRC)
            if r["out"] != OUT("  "):
                return name, f"scenario {name}: stdin formatted as {r['out']!r}", clireplay.describe(r)
            continue
        r = clireplay.run_cli(binp, files, argv)
        for pth, text in want.items():
            got = r["after"][pth][0].decode()
            if got != text:
                return name, f"scenario {name}: {pth} formatted as {got!r}, expected {text!r}", clireplay.describe(r)
    # configuration above the cwd is ignored unless --search-parent-directories
    import os, tempfile, subprocess, shutil
    d = tempfile.mkdtemp(dir=common.SCRATCH, prefix="c15.")
    try:
        os.makedirs(os.path.join(d, "proj", "sub"))
        open(os.path.join(d, "stylua.toml"), "w").write(W5)
        for rel in ("sub/f.lua", "g.lua"):
            for spd, want in ((False, OUT("\t")), (True, OUT("     "))):
                open(os.path.join(d, "proj", rel), "w").write(SRC)
                e = dict(os.environ, HOME=os.path.join(d, "nohome"), XDG_CONFIG_HOME=os.path.join(d, "noxdg"))
                subprocess.run([binp, "--no-editorconfig"] + (["--search-parent-directories"] if spd else []) + [rel], cwd=os.path.join(d, "proj"), env=e, capture_output=True)
                got = open(os.path.join(d, "proj", rel)).read()
                if got != want:
                    return "above-cwd", f"configuration above the cwd, file {rel}, search_parent_directories={spd}: {got!r}, expected {want!r}", {}
        # two files: nested first, then its parent directory's file - the cache must not leak the nested result upwards
        os.makedirs(os.path.join(d, "p2", "a", "b"))
        open(os.path.join(d, "p2", "a", "b", "stylua.toml"), "w").write(W3)
        open(os.path.join(d, "p2", "a", "b", "f.lua"), "w").write(SRC)
        open(os.path.join(d, "p2", "a", "g.lua"), "w").write(SRC)
        e = dict(os.environ, HOME=os.path.join(d, "nohome"), XDG_CONFIG_HOME=os.path.join(d, "noxdg"))
        for spd in (False, True):
            open(os.path.join(d, "p2", "a", "b", "f.lua"), "w").write(SRC)
            open(os.path.join(d, "p2", "a", "g.lua"), "w").write(SRC)
            subprocess.run([binp, "--no-editorconfig", "--num-threads", "1"] + (["--search-parent-directories"] if spd else []) + ["a/b/f.lua", "a/g.lua"], cwd=os.path.join(d, "p2"), env=e, capture_output=True)
            g1, g2 = open(os.path.join(d, "p2", "a", "b", "f.lua")).read(), open(os.path.join(d, "p2", "a", "g.lua")).read()
            want_g2 = OUT("     ") if spd else OUT("\t")
            if g1 != OUT("   ") or g2 != want_g2:
                return "cache-leak", f"nested file then parent-directory file (search_parent_directories={spd}): {g1!r} / {g2!r}", {}
    finally:
        shutil.rmtree(d, ignore_errors=True)
    return None, None, {}


def run(ses, rep):
    global M_DEPTH
    M_DEPTH = 3 if rep.tier == "quick" else 5           # thorough: chains of 6 directories
    rep.assumptions += ["the file's directory is at or below the working directory (start index <= root index)",
                        "read_and_apply_overrides(file) succeeds and yields that file's configuration (+ overrides: C20)",
                        "HashMap get/insert behave as a map keyed by directory"]
    rep.outside += ["toml decoding, ec4rs file discovery, the XDG/HOME probing order inside search_config_locations (one symbolic Bool)",
                    "files outside the working directory without --search-parent-directories"]
    flagged = []
    for kern in (search, precedence):
        try:
            flagged += kern(ses, rep)
        except Inconclusive as e:
            # the search is written in a way the engine cannot follow within its budgets (e.g. collected into a Vec first): nothing is
            # decided symbolically; the directory-tree battery says whether the documented search is still what the binary does
            flagged.append((f"{kern.__name__}/encodable", f"{kern.__name__} kernel not applicable to the current implementation ({str(e)[:120]})", "engine", {}))
    # "with command-line format options overriding whichever was found": every route ends in load_overrides
    from .. import cfgorigin
    routes = cfgorigin.analyse(ses, rep)
    cfgorigin.confirm(rep, routes, "C15")
    try:
        pf = per_file_configuration(ses, rep)
    except Inconclusive as e:
        rep.add("format/per-file-configuration", "inconclusive", str(e)[:300], nontrivial=False)
        pf = []
    if pf:
        v, rec = replay_per_file()
        for oid, what, kind, info in pf:
            if v:
                rep.add(oid, rep.violation({"obligation": "per-file-configuration"}, {"what": what, "observed": v, "replay_kind": "per-file", "run": rec}), f"{what}; {v}")
            else:
                rep.add(oid, "inconclusive", f"{what}: files told apart by .editorconfig sections still get their own settings on the native build")
    try:
        ul = user_locations(ses, rep)
    except Inconclusive as e:
        rep.add("user-locations/encodable", "inconclusive", str(e)[:300], nontrivial=False)
        ul = []
    if ul:
        v, rec = replay_user_locations()
        for oid, what, kind, info in ul:
            if v:
                rep.add(oid, rep.violation({"obligation": "user-locations"}, {"what": what, "observed": v, "replay_kind": "user-locations", "run": rec}), f"{what}; {v}")
            else:
                rep.add(oid, "inconclusive", f"{what}: every combination of user-level configurations still resolves in the documented order on the native build")
    rep.samples.append({"flagged": [(f[0], f[1]) for f in flagged + routes][:6]})
    if flagged:
        sc, v, rec = battery()
        for oid, what, kind, info in flagged:
            if v is None:
                rep.add(oid, "inconclusive", f"solver model ({what}) did not reproduce on the native build (configuration battery)")
            else:
                status = rep.violation({"obligation": kind, "scenario": sc}, {"what": what, "observed": v, "run": rec})
                rep.add(oid, status, v)


def per_file_configuration(ses, rep):
    """format(): the configuration captured by a job closure is, by its ONLY definition, the Ok payload of a ConfigResolver::load_configuration
    (load_configuration_for_stdin) call of the same loop iteration - and for a file job that call is made on the very path the job gets.
    (A configuration kept from a previous file - same directory, `same` settings - is not what the documented search finds for THIS file:
    .editorconfig sections select by file name.)"""
    flagged = []
    funcs = ses.mir("bin", "default")
    fn = [f for f in funcs.get("format", []) if f.kind == "fn"]
    if len(fn) != 1:
        raise Inconclusive("format(): not found")
    fn = fn[0]
    defs = {}
    for sts in fn.blocks.values():
        for s_ in sts:
            if s_[0] in ("call", "assign") and s_[1] is not None and not s_[1].proj:
                defs.setdefault(s_[1].local, []).append(s_)

    def origin(loc, steps=8):
        """follow single-definition moves back to a call result: -> (callee, call statement) or (None, why)"""
        while steps > 0 and loc is not None:
            steps -= 1
            ds = defs.get(loc.local, [])
            if len(ds) != 1:
                return None, f"{len(ds)} definitions of {loc.local}"
            d_ = ds[0]
            if d_[0] == "call":
                last = canon(d_[2]).split("::")[-1]
                if last in ("branch", "map_err", "context", "with_context", "into_result", "clone", "deref", "as_ref", "as_path", "borrow") and d_[3]:
                    a0 = d_[3][0]
                    loc = a0[1] if isinstance(a0, tuple) and len(a0) > 1 and hasattr(a0[1], "local") else None
                    continue
                return canon(d_[2]), d_
            rv = d_[2]
            if isinstance(rv, tuple) and rv[0] in ("use", "ref") and len(rv) > 1:
                src = rv[-1] if rv[0] == "ref" else (rv[1][1] if isinstance(rv[1], tuple) and len(rv[1]) > 1 else None)
                loc = src if hasattr(src, "local") else None
                continue
            return None, f"{loc.local} = {str(rv)[:60]}"
        return None, "chain too long"
    n = 0
    for sts in fn.blocks.values():
        for s_ in sts:
            if not (s_[0] == "assign" and isinstance(s_[2], tuple) and s_[2][0] == "aggregate" and s_[2][1] == "closure"):
                continue
            fields = dict((k, v) for k, v in s_[2][4])
            if "config" not in fields:
                continue
            n += 1
            op = fields["config"]
            loc = op[1] if isinstance(op, tuple) and len(op) > 1 and hasattr(op[1], "local") else None
            callee, why = origin(loc)
            ok = callee is not None and callee.split("::")[-1] in ("load_configuration", "load_configuration_for_stdin")
            same_path = True
            if ok and callee.split("::")[-1] == "load_configuration" and "path" in fields:
                # the path argument of the call and the path moved into the closure are the same local (or a borrow of it)
                pl = fields["path"][1].local if hasattr(fields["path"][1], "local") else None
                arg = why[3][1] if len(why[3]) > 1 else None
                al = arg[1] if isinstance(arg, tuple) and len(arg) > 1 and hasattr(arg[1], "local") else None
                seen_ = set()
                while al is not None and al.local != pl and al.local not in seen_:
                    seen_.add(al.local)
                    ds = defs.get(al.local, [])
                    nxt = None
                    if len(ds) == 1:
                        d_ = ds[0]
                        if d_[0] == "assign" and isinstance(d_[2], tuple) and d_[2][0] == "ref":
                            nxt = d_[2][-1]
                        elif d_[0] == "assign" and isinstance(d_[2], tuple) and d_[2][0] == "use" and isinstance(d_[2][1], tuple) and len(d_[2][1]) > 1:
                            nxt = d_[2][1][1]
                        elif d_[0] == "call" and canon(d_[2]).split("::")[-1] in ("deref", "as_ref", "as_path", "borrow") and d_[3]:
                            nxt = d_[3][0][1] if isinstance(d_[3][0], tuple) and len(d_[3][0]) > 1 else None
                    al = nxt if hasattr(nxt, "local") else None
                same_path = al is not None and al.local == pl
            oid = f"format/job-{n}/configuration-is-this-entry's-lookup"
            r, m = ses.obligation(oid, [], z3.BoolVal(not (ok and same_path)), "job.config = Ok payload of load_configuration(<this path>) of this iteration, its only definition")
            if r == "sat":
                flagged.append((oid, "the configuration handed to a job is not (only) the result of the configuration search for that job's own path: "
                                + (why if callee is None else callee.split("::")[-1] + ("" if same_path else " on another path")), "per-file", {}))
    if n == 0:
        raise Inconclusive("format(): no job closure captures a configuration")
    return flagged


USER_PROBES = [("XDG_CONFIG_HOME", ""), ("XDG_CONFIG_HOME", "stylua"), ("HOME", ".config"), ("HOME", ".config/stylua")]


def user_locations(ses, rep):
    """search_config_locations probes the four documented user-level directories, in the documented order: read off the function's MIR as the
    sequence of (environment variable, joined components) in front of each lookup_config_file_in_directory call. A different sequence (or
    a probe that cannot be read off any more) is left to the user-location replay."""
    flagged = []
    funcs = ses.mir("bin", "default")
    fn = [f for n_, l in funcs.items() for f in l if n_.split("::")[-1] == "search_config_locations" and f.kind == "fn"]
    if len(fn) != 1:
        raise Inconclusive("search_config_locations not found")
    fn = fn[0]
    from . import c14
    succ = c14.cfg_succ(fn)
    order, seen_ = [], set()

    def dfs(b):        # reverse post-order over the non-unwind CFG = an execution-compatible order of the blocks
        if b in seen_:
            return
        seen_.add(b)
        for c_ in reversed(succ.get(b, [])):
            dfs(c_)
        order.append(b)
    dfs("bb0")
    order.reverse()
    consts = lambda s_: [a[1].strip('"') for a in s_[3] if isinstance(a, tuple) and a and a[0] == "const" and isinstance(a[1], str)]
    # which local holds which path: propagate (env, parts) through Path::new / join / deref / as_ref and plain moves
    val = {}
    probes = []
    for bb in order:
        for s_ in fn.blocks[bb]:
            dst = s_[1].local if s_[0] in ("call", "assign") and s_[1] is not None and not s_[1].proj else None
            if s_[0] == "assign" and dst and isinstance(s_[2], tuple):
                rv = s_[2]
                src = rv[-1] if rv[0] == "ref" else (rv[1][1] if rv[0] == "use" and isinstance(rv[1], tuple) and len(rv[1]) > 1 else None)
                if hasattr(src, "local") and src.local in val:
                    val[dst] = val[src.local]
                continue
            if s_[0] != "call":
                continue
            last = canon(s_[2]).split("::")[-1]
            a0 = s_[3][0][1].local if s_[3] and isinstance(s_[3][0], tuple) and len(s_[3][0]) > 1 and hasattr(s_[3][0][1], "local") else None
            if last.startswith("var") and consts(s_):
                val[dst] = (consts(s_)[0], [])
            elif last == "join" and a0 in val and consts(s_):
                val[dst] = (val[a0][0], val[a0][1] + [consts(s_)[0]])
            elif last in ("new", "deref", "as_ref", "as_path", "borrow", "clone", "to_path_buf", "unwrap", "branch") and a0 in val:
                val[dst] = val[a0]
            elif last == "lookup_config_file_in_directory":
                a1 = s_[3][1][1].local if len(s_[3]) > 1 and isinstance(s_[3][1], tuple) and len(s_[3][1]) > 1 and hasattr(s_[3][1][1], "local") else None
                e_ = val.get(a1, (None, []))
                probes.append((e_[0], "/".join(e_[1])))
    ok = probes == USER_PROBES
    r, m = ses.obligation("user-locations/probes-in-the-documented-order", [], z3.BoolVal(not ok), f"probes read off the MIR: {probes}")
    if r == "sat":
        flagged.append(("user-locations/probes-in-the-documented-order", f"search_config_locations probes {probes}, documented: {USER_PROBES}", "user-locations", {}))
    return flagged


def replay_user_locations():
    """every combination of the four user-level locations holding / not holding a configuration (directories present either way):
    the first of $XDG_CONFIG_HOME, $XDG_CONFIG_HOME/stylua, $HOME/.config, $HOME/.config/stylua that has one wins"""
    binp = common.native_build("default")
    locs = [".xdg", ".xdg/stylua", ".config", ".config/stylua"]
    for mask in range(1, 16):
        for xdg_exists in (True, False):
            files = {"proj/a.lua": SRC}
            want = None
            for i, loc in enumerate(locs):
                if not xdg_exists and loc.startswith(".xdg"):
                    continue
                files[f"{loc}/.keep"] = ""
                if mask >> i & 1:
                    files[f"{loc}/stylua.toml"] = f'indent_type = "Spaces"\nindent_width = {i + 5}\n'
                    if want is None:
                        want = OUT(" " * (i + 5))
            if want is None:
                want = OUT("\t")
            for argv, stdin in ((["--search-parent-directories", "proj/a.lua"], None), (["--search-parent-directories", "--stdin-filepath", "proj/a.lua", "-"], SRC)):
                r = clireplay.run_cli(binp, files, argv, stdin=stdin)
                got = r["out"] if stdin else r["after"]["proj/a.lua"][0].decode()
                if got != want:
                    have = [l for i, l in enumerate(locs) if mask >> i & 1 and (xdg_exists or not l.startswith(".xdg"))]
                    return (f"configurations in {have} ($XDG_CONFIG_HOME {'exists' if xdg_exists else 'does not exist'}): {argv} gives {got!r}, the documented order asks for {want!r}",
                            {"argv": argv, "files": sorted(files)})
    return None, {}


def replay_per_file():
    """two files of one directory that an .editorconfig tells apart by name, in one run, in both orders and through the directory"""
    binp = common.native_build("default")
    ec = "root = true\n\n[*.lua]\nindent_style = space\nindent_size = 2\n\n[*_spec.lua]\nindent_style = space\nindent_size = 7\n\n[special.lua]\nindent_style = tab\n"
    files = {".editorconfig": ec, "d/plain.lua": SRC, "d/x_spec.lua": SRC, "d/special.lua": SRC, "d/other.lua": SRC}
    want = {"d/plain.lua": OUT("  "), "d/other.lua": OUT("  "), "d/x_spec.lua": OUT(" " * 7), "d/special.lua": OUT("\t")}
    for argv in (["d"], ["d/plain.lua", "d/x_spec.lua", "d/special.lua", "d/other.lua"], ["d/special.lua", "d/other.lua", "d/x_spec.lua", "d/plain.lua"],
                 ["--num-threads", "1", "d/x_spec.lua", "d/plain.lua"], ["--num-threads", "1", "d/plain.lua", "d/x_spec.lua"]):
        r = clireplay.run_cli(binp, files, argv)
        for k, w in want.items():
            if any(k == a or a == "d" for a in argv) and r["after"][k][0].decode() != w:
                return f"{argv}: {k} is formatted as {r['after'][k][0].decode()!r}, its .editorconfig section asks for {w!r}", {"argv": argv, "files": sorted(files)}
    return None, {}


def fallback(rep):
    """kernels undecided: the configuration batteries are run; only a failing concrete oracle is reported"""
    v, rec = replay_user_locations()
    if v:
        rep.add("battery/user-locations", rep.violation({"obligation": "battery-after-undecided-kernel", "scenario": "user-locations"}, {"what": "kernel undecided; user-level locations", "observed": v, "run": rec}), v)
    v, rec = replay_per_file()
    if v:
        rep.add("battery/per-file", rep.violation({"obligation": "battery-after-undecided-kernel", "scenario": "per-file"}, {"what": "kernel undecided; per-file configuration replay", "observed": v, "run": rec}), v)
    sc, v, rec = battery()
    if v:
        rep.add(f"battery/{sc}", rep.violation({"obligation": "battery-after-undecided-kernel", "scenario": sc}, {"what": "kernel undecided; configuration battery", "observed": v, "run": rec}), v)
    from .. import cfgorigin
    for name, v, rec in cfgorigin.battery(common.native_build("default"))[:3]:
        rep.add(f"battery/{name}", rep.violation({"obligation": "battery-after-undecided-kernel", "scenario": name}, {"what": "kernel undecided; origin battery", "observed": v, **rec}), v)


def replay(path):
    sc, v, rec = battery()
    if not v:
        v, _ = replay_per_file()
    if not v:
        v, _ = replay_user_locations()
    if not v:
        from .. import cfgorigin
        fails = cfgorigin.battery(common.native_build("default"))
        if fails:
            v = f"scenario {fails[0][0]}: {fails[0][1]}"
    print(v or "configuration battery: every file got the documented configuration")
    if v:
        print(f"VIOLATION property=C15 replay={path}")
        return 1
    return 0

"""C19 — results do not depend on thread count or scheduling (DESIGN.md section 5).

Thread programs are read off the bin MIR: for each kind of result the output thread can receive, the set of paths of one
receive-loop iteration with their sequence of atomic operations on EXIT_CODE (loads return fresh symbols); the logger closure for
Level::Error (what the directory-walking main thread runs when it reports an error).  The interleaving is symbolic: one Int per
atomic operation (its position in the SeqCst total order), program order per thread, reads-from = the latest earlier write.
Oracle: final status = max severity, for every schedule.
"""
import itertools, json, os, re, z3

from .. import clihooks, clireplay, clistatus, common
from ..mirsym import Lazy, Agg, Ref, RefV, Sym
from ..common import Inconclusive
from ..summaries import canon
from . import c13, c14

KINDS = ["Complete", "SuccessBufferedOutput", "Diff", "Err"]
SEV = {"Complete": 0, "SuccessBufferedOutput": 0, "Diff": 1, "Err": 2}


def free_vars(t, acc=None):
    acc = acc if acc is not None else {}
    todo = [t]
    seen = set()
    while todo:
        e = todo.pop()
        if e.get_id() in seen:
            continue
        seen.add(e.get_id())
        if z3.is_const(e) and e.decl().kind() == z3.Z3_OP_UNINTERPRETED:
            acc[e.decl().name()] = e
        todo.extend(e.children())
    return acc


def thread_paths(ses, funcs, kind, logger, outcl):
    """paths of one output-thread iteration for a result of `kind`: list of dict(events, pc, logged_error)"""
    ex = ses.executor("bin", "default", inline=clihooks.inline_cli_helpers)      # helpers that wrap the atomics are executed in place
    item = clistatus.format_result(ex, kind)
    ex.hooks = clistatus.make_hooks(funcs, [item], logger, fresh_loads=True)
    env = ex.fresh_lazy(outcl.params[0][1], "closure-env")
    res = []
    for o in ex.run(outcl, [env]):
        if o.kind != "return":
            continue
        evs = [t[1] for t in o.trace if t[0] == "atomic"]
        logged = z3.Or([l[1] == z3.BitVecVal(1, 64) for l in o.trace if l[0] == "log"] + [z3.BoolVal(False)])
        res.append({"events": evs, "pc": list(o.pc), "logged": logged})
    # de-duplicate paths with identical event shapes and merge their conditions (keeps the encoding small)
    return res


def logger_paths(ses, funcs, logger):
    ex = ses.executor("bin", "default", inline=clihooks.inline_cli_helpers)
    ex.hooks = clistatus.make_hooks(funcs, [], logger, fresh_loads=True)
    rec = Lazy(next(ex.oid_counter), "Record<'_>", "record", 0, {"level": z3.BitVecVal(1, 64)})
    args = [RefV(rec) if "Record<" in t else ex.fresh_lazy(t, "logger." + p) for p, t in logger.params]
    res = []
    for o in ex.run(logger, args):
        if o.kind != "return":
            continue
        evs = [t[1] for t in o.trace if t[0] == "atomic"]
        res.append({"events": evs, "pc": list(o.pc), "logged": z3.BoolVal(True)})
    return res


def shape(p):
    return tuple((e[0], e[1], e[2] if e[0] == "rmw" else None) for e in p["events"])


def rename(terms, suffix):
    """fresh copy of all free symbols in the given terms"""
    fv = {}
    for t in terms:
        free_vars(t, fv)
    sub = []
    for n, v in fv.items():
        if n == "EXIT_CODE_init":
            continue
        nv = z3.Const(n + suffix, v.sort())
        sub.append((v, nv))
    return lambda t: z3.substitute(t, *sub) if sub else t


def encode(out_paths, log_paths, k, j):
    """-> (constraints, final, expected, decode) for k results handled by the output thread and j walker error logs"""
    cons = []
    events = []          # dict(thread, act, kind, t, rd, wr)
    kinds = [z3.Int(f"kind_{i}") for i in range(k)]
    sev_terms = []
    io_err = []
    info = []
    for i in range(k):
        cons.append(z3.And(kinds[i] >= 0, kinds[i] <= 3))
        sels = []
        for ki, kind in enumerate(KINDS):
            for pi, p in enumerate(out_paths[kind]):
                sel = z3.Bool(f"sel_{i}_{kind}_{pi}")
                sels.append(sel)
                terms = list(p["pc"]) + [p["logged"]] + [x for e in p["events"] for x in e[2:] if z3.is_expr(x)]
                rn = rename(terms, f"@{i}")
                cons.append(z3.Implies(sel, z3.And([kinds[i] == ki] + [rn(c) for c in p["pc"]])))
                sev_terms.append(z3.If(z3.And(sel, rn(p["logged"])), 2, z3.If(sel, SEV[kind], 0)))
                if kind != "Err":
                    io_err.append((sel, rn(p["logged"])))
                for ei, e in enumerate(p["events"]):
                    t = z3.Int(f"t_O{i}_{kind}_{pi}_{ei}")
                    ev = {"thread": "O", "path": (kind, pi), "ei": ei, "act": sel, "t": t, "name": f"O{i}.{kind}.p{pi}.{e[0]}{ei}", "item": i, "cell": e[1]}
                    if e[0] == "load":
                        ev.update(kind="load", rd=rn(e[2]))
                    elif e[0] == "store":
                        ev.update(kind="store", wr=rn(e[2]))
                    else:
                        ev.update(kind="rmw", rd=rn(e[4]), wr=rn(e[5]), op=e[2])
                    events.append(ev)
        cons.append(z3.PbEq([(s, 1) for s in sels], 1))
    nlogs = z3.Int("walker_errors")
    cons.append(z3.And(nlogs >= 0, nlogs <= j))
    for q in range(j):
        act = nlogs > q
        sels = []
        for pi, p in enumerate(log_paths):
            sel = z3.Bool(f"lsel_{q}_{pi}")
            sels.append(sel)
            terms = list(p["pc"]) + [x for e in p["events"] for x in e[2:] if z3.is_expr(x)]
            rn = rename(terms, f"@L{q}")
            cons.append(z3.Implies(sel, z3.And([act] + [rn(c) for c in p["pc"]])))
            for ei, e in enumerate(p["events"]):
                t = z3.Int(f"t_L{q}_{pi}_{ei}")
                ev = {"thread": "M", "path": pi, "ei": ei, "act": sel, "t": t, "name": f"M{q}.p{pi}.{e[0]}{ei}", "item": q, "cell": e[1]}
                if e[0] == "load":
                    ev.update(kind="load", rd=rn(e[2]))
                elif e[0] == "store":
                    ev.update(kind="store", wr=rn(e[2]))
                else:
                    ev.update(kind="rmw", rd=rn(e[4]), wr=rn(e[5]), op=e[2])
                events.append(ev)
        cons.append(z3.Implies(act, z3.PbEq([(s, 1) for s in sels], 1)))
        cons.append(z3.Implies(z3.Not(act), z3.And([z3.Not(s) for s in sels])))
        sev_terms.append(z3.If(act, 2, 0))
    # total order + program order
    if events:
        cons.append(z3.Distinct([e["t"] for e in events]))
    for e in events:
        cons.append(z3.And(e["t"] >= 0, e["t"] < 4 * len(events) + 4))
    for a, b in itertools.combinations(events, 2):
        if a["thread"] != b["thread"]:
            continue
        if a["item"] != b["item"]:
            cons.append(a["t"] < b["t"] if a["item"] < b["item"] else b["t"] < a["t"])
        elif a["path"] == b["path"]:
            cons.append(a["t"] < b["t"] if a["ei"] < b["ei"] else b["t"] < a["t"])
    init = z3.BitVecVal(0, 32)
    writes = [e for e in events if e["kind"] in ("store", "rmw")]

    def value_before(tr, exclude=None, cell="EXIT_CODE"):
        """value of the cell just before time tr (single-location coherence per cell)"""
        v = init
        cands = [w for w in writes if w is not exclude and w["cell"] == cell]
        res = init
        # nested ite: for each candidate w: it is the last write before tr
        for w in cands:
            is_last = z3.And([w["act"], w["t"] < tr] + [z3.Or(z3.Not(w2["act"]), w2["t"] < w["t"], w2["t"] >= tr) for w2 in cands if w2 is not w])
            res = z3.If(is_last, w["wr"], res)
        return res
    for e in events:
        if e["kind"] in ("load", "rmw"):
            cons.append(z3.Implies(e["act"], e["rd"] == value_before(e["t"], exclude=e, cell=e["cell"])))
    final = value_before(z3.IntVal(10 ** 6))
    expected = z3.IntVal(0)
    for s_ in sev_terms:
        expected = z3.If(s_ > expected, s_, expected)
    no_io_errors = z3.And([z3.Not(z3.And(sel_, lg_)) for sel_, lg_ in io_err])
    return cons, final, expected, events, kinds, nlogs, no_io_errors


def schedule_from_model(m, events, kinds, nlogs):
    act = [e for e in events if z3.is_true(m.eval(e["act"], model_completion=True))]
    act.sort(key=lambda e: m.eval(e["t"], model_completion=True).as_long())
    return {"kinds": [KINDS[m.eval(k_, model_completion=True).as_long()] for k_ in kinds],
            "walker_errors": m.eval(nlogs, model_completion=True).as_long(),
            "order": [(e["thread"], e["name"]) for e in act if e["cell"] == "EXIT_CODE"],
            "all_events": [(e["thread"], e["name"], e["cell"]) for e in act]}


def replay_schedule(sched):
    """run the hooked build (--cfg stylua_verif) with the schedule's thread order on EXIT_CODE operations"""
    binp = common.native_build("default", cfg_verif=True)
    kinds, nerr = sched["kinds"], sched["walker_errors"]
    files, argv = {}, ["--check"]
    for i, kd in enumerate(kinds):
        nm = f"f{i}.lua"
        files[nm] = {"Complete": clireplay.FORMATTED, "SuccessBufferedOutput": clireplay.FORMATTED, "Diff": clireplay.UNFORMATTED,
                     "Err": clireplay.BROKEN}[kd]
        argv.append(nm)
    for q in range(nerr):
        argv.append(f"missing{q}.lua")
    want = 2 if (nerr or "Err" in kinds) else 1 if "Diff" in kinds else 0
    script = ",".join(t for t, _ in sched["order"])
    res = clireplay.run_cli(binp, files, argv, env={"STYLUA_VERIF_SCHED": script})
    ok = res["rc"] == want
    return (None if ok else f"exit status {res['rc']} (expected {want}) under schedule {script}"), res, want


# state that outlives the formatting of one file: allowed classes, by the type of the static
STATE_OK = [
    (r"^Atomic<(i32|u32)>$", {"EXIT_CODE", "UNFORMATTED_FILE_COUNT"}, "status / counter atomics (decided by the schedule kernel above and by C13)"),
    (r"^\[&str; \d+\]$", None, "immutable table"),
    (r"^&?(\[?&?str\]?|usize|u32|i32|bool)$", None, "immutable scalar"),
]
LAZY_STATIC = re.compile(r"lazy_static-[\d.]+/src/lib\.rs")


def persistent_state(ses, rep):
    """S  nothing but the two status atomics survives from one file to the next, on any thread: census of every `static` item and of every
    thread-local access (`LocalKey::with`..) in the MIR of the library and the binary. lazy_static values are write-once and built from
    constants only (their initialiser closures take no argument); everything else (thread_local!, Mutex/RefCell/OnceCell statics, static mut)
    would make a file's result depend on which worker formatted what before."""
    flagged = []
    n = 0
    for crate in ("lib", "bin"):
        funcs = ses.mir(crate, "default")
        for name, l in sorted(funcs.items()):
            for f in l:
                if f.kind != "fn" and f.text.lstrip().startswith("static"):
                    n += 1
                    m_ = re.match(r"^static (?:mut )?([^:]+): (.*?) = \{", f.text.strip().split("\n")[0])
                    sname, sty = (m_.group(1).strip(), m_.group(2).strip()) if m_ else (name, "?")
                    mutable = f.text.strip().startswith("static mut")
                    ok = False
                    if not mutable:
                        for pat, names, why in STATE_OK:
                            if re.match(pat, sty) and (names is None or sname.split("::")[-1] in names):
                                ok = True
                        if LAZY_STATIC.search(sname) or sty == sname.split("::")[-1]:       # lazy_static!: `static RE: RE`, and its inner LAZY cell
                            ok = True
                    r, m = ses.obligation(f"state/{crate}/static/{sname[-60:]}", [], z3.BoolVal(not ok), "a static item is immutable data, a lazy_static, or a status atomic")
                    if r == "sat":
                        flagged.append((f"state/{crate}/static/{sname[-60:]}", f"static `{sname}`: {sty} can carry state from one file to the next", "state", {"where": sname}))
                    continue
                for bb, sts in f.blocks.items():
                    for s_ in sts:
                        if s_[0] == "call" and re.search(r"(^|[<:\s])LocalKey::<", s_[2]):
                            n += 1
                            oid = f"state/{crate}/thread-local/{f.name[-50:]}/{bb}"
                            r, m = ses.obligation(oid, [], z3.BoolVal(True), "no thread-local state")
                            if r == "sat":
                                flagged.append((oid, f"{f.name} keeps thread-local state ({canon(s_[2])[:80]}): what a worker formatted before can change the next file's result",
                                                "state", {"where": f.name}))
    rep.bounds["static_items_and_thread_local_sites"] = n
    if n < 4:
        raise Inconclusive(f"state census: only {n} static items found")
    return flagged


def replay_state():
    """directories with different configurations formatted in one run, for several thread counts, against each directory formatted alone"""
    binp = common.native_build("default")
    body = "local function f(a)\n\tif a then\n\t\treturn {\n\t\t\tkey = a,\n\t\t\tother = function()\n\t\t\t\treturn 1\n\t\t\tend,\n\t\t}\n\tend\nend\n"
    cfgs = {"d1": 'indent_type = "Spaces"\nindent_width = 2\n', "d2": 'indent_type = "Spaces"\nindent_width = 8\n', "d3": 'indent_type = "Tabs"\nline_endings = "Windows"\n',
            "d4": 'indent_type = "Spaces"\nindent_width = 3\nquote_style = "AutoPreferSingle"\n'}
    files = {}
    for d_, c_ in cfgs.items():
        files[f"{d_}/stylua.toml"] = c_
        for i in range(3):
            files[f"{d_}/f{i}.lua"] = body + f'local s{i} = "x"\n'
    want = {}
    for d_ in cfgs:
        r = clireplay.run_cli(binp, {k: v for k, v in files.items() if k.startswith(d_ + "/")}, ["--num-threads", "1", d_])
        want.update({k: v[0] for k, v in r["after"].items() if k.endswith(".lua")})
    for nt in ("1", "2", "3", "8"):
        for rep_ in range(3):
            r = clireplay.run_cli(binp, files, ["--num-threads", nt] + sorted(cfgs))
            bad = sorted(k for k in want if r["after"].get(k, (None,))[0] != want[k])
            if bad or r["rc"] != 0:
                return (f"--num-threads {nt}: {bad[:4]} differ from the result of formatting each directory on its own (exit status {r['rc']})",
                        {"argv": r["argv"], "files": sorted(files), "differs": bad})
    return None, {}


def jobs_run_on_the_pool(ses, rep):
    """J  the closures that format a file / stdin are only ever handed to ThreadPool::execute: a job that runs on the walking thread for some
    thread count changes what a crash in it does (the pool isolates a panic; main does not) and which stack it runs on"""
    flagged = []
    funcs = ses.mir("bin", "default")
    fn = [f for f in funcs.get("format", []) if f.kind == "fn"][0]
    jobs = []
    calls_fmt = lambda g: any(s_[0] == "call" and canon(s_[2]).split("::")[-1] in ("format_file", "format_string") for sts in g.blocks.values() for s_ in sts)
    for n_, l in funcs.items():
        for f in l:
            if not re.fullmatch(r"format::\{closure#\d+\}", n_):
                continue
            nested = [g for n2, l2 in funcs.items() if n2.startswith(n_ + "::{closure") for g in l2]
            if calls_fmt(f) or any(calls_fmt(g) for g in nested):
                m_ = re.search(r"\{closure@[^}]*\}", f.params[0][1]) if f.params else None
                if m_:
                    jobs.append((f, m_.group(0)))
    if not jobs:
        raise Inconclusive("no job closure calling format_file / format_string found in format()")
    for f, cid in jobs:
        uses = [(bb, s_[2]) for bb, sts in fn.blocks.items() for s_ in sts if s_[0] == "call" and cid in s_[2]]
        direct = [u for u in uses if re.search(r" as Fn(Once|Mut)?<", u[1])]
        pooled = [u for u in uses if canon(u[1]).split("::<")[0].endswith("ThreadPool::execute")]
        oid = f"jobs/{f.name}/only-handed-to-the-pool"
        r, m = ses.obligation(oid, [], z3.BoolVal(bool(direct) or not pooled), "the job closure is passed to ThreadPool::execute and never called directly")
        if r == "sat":
            flagged.append((oid, f"{f.name} (a file job) is {'called directly on the walking thread' if direct else 'not handed to the pool'} in format()", "jobs", {"where": f.name}))
    rep.bounds["job_closures"] = len(jobs)
    return flagged


def replay_jobs():
    """a worker that panics (debug build: arithmetic overflow with an absurd indent_width) must not change what happens to the other files, for any thread count"""
    binp = common.native_build("default")
    files = {"huge/stylua.toml": "indent_width = 9223372036854775807\n", "huge/x.lua": "do\n\tdo\n\t\tdo\n\t\t\tlocal   a = 1\n\t\tend\n\tend\nend\n",
             "plain/y.lua": clireplay.UNFORMATTED}
    seen = {}
    for nt in ("1", "2", "4"):
        r = clireplay.run_cli(binp, files, ["--num-threads", nt, "huge", "plain"])
        seen[nt] = (r["rc"], r["after"]["plain/y.lua"][0] == clireplay.FORMATTED.encode(), "panicked" in r["err"])
    if not any(v[2] for v in seen.values()):
        return None, {"note": "no worker panicked on this build"}
    if len({v[:2] for v in seen.values()}) > 1 or any(v[0] != 2 or not v[1] for v in seen.values()):
        return (f"a panicking file job: (exit status, other file formatted) per --num-threads = { {k: v[:2] for k, v in seen.items()} }; expected (2, True) for every thread count"), {"files": sorted(files)}
    return None, {}


def run(ses, rep):
    quick = rep.tier == "quick"
    K, J = (2, 1) if quick else (3, 2)
    rep.bounds.update({"results_handled_by_output_thread": K, "walker_error_logs": J, "threads_writing_status": 2})
    rep.assumptions += ["the status is a single atomic location: per-location coherence gives interleaving semantics for any Ordering",
                        "threadpool/crossbeam deliver each result once; pool.join() happens-after all handlers",
                        "log!(Error) reaches the logger closure of main (see C13)"]
    rep.outside += ["file contents per file are functions of the input (C14 control dependence); thread pool / channel internals"]
    funcs = ses.mir("bin", "default")
    logger = clistatus.find_logger(funcs)
    outcl = clistatus.find_output_closure(funcs)
    out_paths = {k_: thread_paths(ses, funcs, k_, logger, outcl) for k_ in KINDS}
    log_paths = logger_paths(ses, funcs, logger)
    if not log_paths:
        raise Inconclusive("logger closure has no returning path for Level::Error")
    rep.extra["thread_programs"] = {k_: sorted({str(shape(p)) for p in v}) for k_, v in out_paths.items()}
    rep.extra["thread_programs"]["walker-error"] = sorted({str(shape(p)) for p in log_paths})
    # reduce: keep one representative per (event shape, logged?) - conditions are disjoined
    for k_ in KINDS:
        red = {}
        for p in out_paths[k_]:
            red.setdefault((shape(p), str(z3.simplify(p["logged"]))), p)
        out_paths[k_] = list(red.values()) if all(len(p["events"]) == 0 for p in out_paths[k_]) else out_paths[k_]
    flagged = None
    unreplayable = None
    for k in range(1, K + 1):
        for j in range(0, J + 1):
            cons, final, expected, events, kinds, nlogs, no_io = encode(out_paths, log_paths, k, j)
            oid = f"schedules/k={k}/j={j}/final-status=max-severity"
            neg = final != z3.Int2BV(expected, 32)
            # first the schedules that can be replayed (stdout writes succeed), then everything
            r1, m1 = ses.check(cons + [no_io, neg], 120)
            if r1 == "sat":
                sched = schedule_from_model(m1, events, kinds, nlogs)
                sched["final"] = str(m1.eval(final, model_completion=True))
                sched["expected"] = str(m1.eval(expected, model_completion=True))
                flagged = (oid, sched)
                break
            r, m = ses.obligation(oid, cons, neg, f"{len(events)} atomic events, all interleavings", timeout_s=120)
            if r == "sat" and unreplayable is None:
                sched = schedule_from_model(m, events, kinds, nlogs)
                sched["final"] = str(m.eval(final, model_completion=True))
                sched["expected"] = str(m.eval(expected, model_completion=True))
                unreplayable = (oid, sched)
        if flagged:
            break
    if flagged is None and unreplayable is not None:
        oid, sched = unreplayable
        rep.add(oid, "inconclusive", f"the status is wrong only on a schedule that needs a failing stdout write inside the output thread "
                f"(not replayable): {sched}")
    rep.samples.append({"thread_programs": rep.extra["thread_programs"]})
    st_flagged = persistent_state(ses, rep)
    if st_flagged:
        v, rec = replay_state()
        for oid_, what, kind, info in st_flagged:
            if v:
                rep.add(oid_, rep.violation({"obligation": "persistent-state", "where": info["where"]}, {"what": what, "observed": v, "replay_kind": "state", **rec}), f"{what}; {v}")
            else:
                rep.add(oid_, "inconclusive", f"{what}: directories with different configurations come out the same for 1, 2, 3 and 8 threads")
    try:
        w_flagged = work_units(ses, rep)
    except Inconclusive as e:
        rep.add("work-units/one-file-per-job", "inconclusive", str(e)[:300], nontrivial=False)
        w_flagged = []
    if w_flagged:
        v, rec = replay_sweep()
        for item in w_flagged:
            oid_, what = item[0], item[1]
            if v:
                rep.add(oid_, rep.violation({"obligation": "work-units"}, {"what": what, "observed": v, "replay_kind": "sweep", **rec}), f"{what}; {v}")
            else:
                rep.add(oid_, "inconclusive", f"{what}: the thread-count sweep shows the same outcome for 1..16 threads")
    j_flagged = jobs_run_on_the_pool(ses, rep)
    if j_flagged:
        v, rec = replay_jobs()
        for oid_, what, kind, info in j_flagged:
            if v:
                rep.add(oid_, rep.violation({"obligation": "jobs-on-the-pool"}, {"what": what, "observed": v, "replay_kind": "jobs", **rec}), f"{what}; {v}")
            else:
                rep.add(oid_, "inconclusive", f"{what}: a panicking job gives the same outcome for 1, 2 and 4 threads on this build")
    if flagged:
        oid, sched = flagged
        rep.samples.append({"counterexample_schedule": sched})
        v, res, want = replay_schedule(sched)
        if v is None:
            rep.add(oid, "inconclusive", f"schedule {sched} did not reproduce on the hooked native build")
        else:
            role = {"obligation": "final-status=max-severity", "masked": "error masked by diff" if sched["final"] == "1" and sched["expected"] == "2" else f"{sched['final']} instead of {sched['expected']}"}
            status = rep.violation(role, {"schedule": sched, "observed": v, "run": clireplay.describe(res)})
            rep.add(oid, status, v)


def replay_sweep():
    """one file set (unformatted files, an unparseable one, a formatted one, a missing path), every output mode, several orders and thread counts:
    the exit status is the maximal severity and every file ends up as when it is formatted alone - whatever the thread count"""
    binp = common.native_build("default")
    base = {"a.lua": clireplay.UNFORMATTED, "b.lua": clireplay.UNFORMATTED, "bad.lua": clireplay.BROKEN, "ok.lua": clireplay.FORMATTED,
            "sub/c.lua": clireplay.UNFORMATTED, "sub/d.lua": clireplay.UNFORMATTED}
    orders = [["bad.lua", "a.lua", "b.lua", "ok.lua", "sub"], ["a.lua", "b.lua", "ok.lua", "sub", "bad.lua"], ["a.lua", "bad.lua", "sub", "b.lua", "ok.lua"],
              ["a.lua", "bad.lua", "b.lua", "missing.lua"], ["a.lua", "ok.lua"], ["ok.lua", "a.lua", "bad.lua"]]
    modes = [[], ["--check"], ["--check", "--output-format", "json"], ["--check", "--output-format", "unified"], ["--check", "--output-format", "summary"],
             ["--output-format", "json"]]
    for order in orders:
        named = [f for f in order if f != "sub"] + (["sub/c.lua", "sub/d.lua"] if "sub" in order else [])
        has_err = "bad.lua" in order or "missing.lua" in order
        has_diff = any(base.get(f) == clireplay.UNFORMATTED for f in named)
        for mode in modes:
            want_rc = 2 if has_err else (1 if ("--check" in mode and has_diff) else 0)
            for nt in ("1", "2", "3", "8", "16"):
                r = clireplay.run_cli(binp, base, ["--num-threads", nt] + mode + order)
                bad = []
                for f in named:
                    if f not in base:
                        continue
                    want = base[f] if ("--check" in mode or base[f] != clireplay.UNFORMATTED) else clireplay.FORMATTED
                    if r["after"][f][0].decode() != want:
                        bad.append(f)
                if r["rc"] != want_rc or bad:
                    return (f"--num-threads {nt} {' '.join(mode)} {' '.join(order)}: exit status {r['rc']} (expected {want_rc})" +
                            (f", files not as when formatted alone: {bad}" if bad else ""), {"argv": ["--num-threads", nt] + mode + order})
    return None, {}


def work_units(ses, rep):
    """a job handed to the pool formats ONE file and forwards its result, Ok or Err, exactly once (C14's sender kernel): with jobs that bundle
    several files the fate of a file depends on how the files were split, i.e. on the thread count"""
    from . import c14
    funcs = ses.mir("bin", "default")
    ex = ses.executor("bin", "default", hooks=c14.HOOKS, inline=lambda n, fn: False)
    return c14.analyse_senders(ses, rep, ex, funcs)


def fallback(rep):
    v, rec = replay_sweep()
    if v:
        rep.add("battery/sweep", rep.violation({"obligation": "battery-after-undecided-kernel", "scenario": "sweep"}, {"what": "kernel undecided; thread-count sweep", "observed": v,
                                                                                                                 "replay_kind": "sweep", **rec}), v)
    """kernels undecided: the thread-count replays are run; only a failing concrete oracle is reported"""
    for kind, fn_ in (("state", replay_state), ("jobs", replay_jobs)):
        v, rec = fn_()
        if v:
            rep.add(f"battery/{kind}", rep.violation({"obligation": "battery-after-undecided-kernel", "scenario": kind}, {"what": "kernel undecided; thread-count replay", "observed": v,
                                                                                                                      "replay_kind": kind, **(rec if isinstance(rec, dict) else {})}), v)


def replay(path):
    d = json.load(open(path))
    if d["replay"].get("replay_kind") == "jobs":
        v, rec = replay_jobs()
        print(v or "a panicking job has the same effect for every thread count")
        if v:
            print(f"VIOLATION property=C19 replay={path}")
            return 1
        return 0
    if d["replay"].get("replay_kind") == "sweep":
        v, rec = replay_sweep()
        print(v or "exit status and file contents are the same for every thread count")
        if v:
            print(f"VIOLATION property=C19 replay={path}")
            return 1
        return 0
    if d["replay"].get("replay_kind") == "state":
        v, rec = replay_state()
        print(v or "results do not depend on the thread count for directories with different configurations")
        if v:
            print(f"VIOLATION property=C19 replay={path}")
            return 1
        return 0
    v, res, want = replay_schedule(d["replay"]["schedule"])
    print(v or "property holds under the recorded schedule")
    if v:
        print(f"VIOLATION property=C19 replay={path}")
        return 1
    return 0

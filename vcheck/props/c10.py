"""C10 — output whitespace obeys line_endings and the indent settings (kernel scope: the single sources of whitespace).

K1  line_ending_character / create_newline_trivia: "\\n" for Unix, "\\r\\n" for Windows, nothing else
K2  create_plain_indent_trivia / create_indent_trivia: tabs(level) under Tabs, spaces(level * indent_width) under Spaces,
    level = block_indent + additional_indent
K3  format_token over ALL comment / long-string texts up to N characters (bounded symbolic strings, vcheck/bstr.py):
    single-line comments and the shebang lose every trailing white-space character (so no CR survives from a CRLF file);
    block comments and long strings come out with every line break equal to the configured one; a leading comment is wrapped in
    [indent] .. [newline], a trailing line comment is preceded by one space
K4  load_token_trivia, one loop step from an arbitrary position: input Whitespace trivia is never copied - the only tokens pushed are
    create_newline_trivia, spaces(1) and format_token results for non-whitespace trivia
K5  format_eof: nothing but comments (and their indent/newline) survives before EOF, trailing whitespace is popped and exactly one
    newline appended; pop_until_no_whitespace stops at the first non-whitespace token
A   adjacency: in every token list assembled by a function that places indents (vec!/push/append/extend followed in path order) an
    indent is never directly followed by white space or by a comment list whose elements carry a leading space
S   site census over the whole library MIR (both feature sets): TokenType::Whitespace is built only in create_newline_trivia (and
    format_token's unreachable pass-through arm), tabs() only in create_plain_indent_trivia, every other spaces(n) has n in {0,1},
    no symbol text contains a tab, CR or LF
"""
import re, z3

from .. import bstr, common
from ..bstr import BStr
from ..common import Inconclusive
from ..mirsym import Agg, Lazy, Ref, RefV, Str, Sym, decode_rust_str
from ..session import find_calls
from ..summaries import canon, deref_val

INLINE_CTX = lambda n, f: canon(n).split("::")[-1] in ("config", "line_ending_character", "create_newline_trivia", "create_indent_trivia",
                                                       "create_plain_indent_trivia", "indent", "block_indent", "additional_indent",
                                                       "format_single_line_comment_string")


def str_identity(ex, st, callee, args, dty):
    """conversions between &str / String / ShortString keep the text"""
    c = canon(callee)
    if len(args) == 1 and (re.search(r"as (Into|From)<.*>>::(into|from)$", c) or c.split("::")[-1] in ("to_string", "to_owned", "as_str", "deref", "clone")):
        v = deref_val(ex, st, args[0])
        if isinstance(v, (Str, BStr)):
            return v
    return NotImplemented


def vec_elems(ex, o, vec):
    """elements of a `vec![..]` value: the Token::new results between its Box::new_uninit and box_assume_init_into_vec_unsafe"""
    vec = deref_val(ex, o.state, vec)
    ev = [t for t in o.trace if t[0] in ("havoc", "effect")]
    for i, t in enumerate(ev):
        if t[3] is vec and "into_vec" in t[1]:
            box = t[2][0]
            j = max(k for k in range(i) if ev[k][3] is box)
            return [e[3] for e in ev[j + 1:i] if e[1].endswith("Token::new") or e[1].split("::")[-1].startswith("create_")]
    return None


def lazy_args(ex, f):
    return [RefV(ex.fresh_lazy(t_.lstrip("&").replace("mut ", "", 1).strip(), p)) if t_.startswith("&") and t_ != "&str" else ex.fresh_lazy(t_, p)
            for p, t_ in f.params]


def cfg_field(ex, ctx, name):
    T = ex.enums
    cfg = ex.lazy_child(None, ctx, ("field", T.field_index("Context", "config")), "Config", ".config")
    return ex.lazy_tab.get((cfg.oid, ("field", T.field_index("Config", name))))


def whitespace_text(ex, st, tok):
    """Token::new(TokenType::Whitespace{characters}) -> the characters value, or ('tabs'|'spaces', n)"""
    tok = deref_val(ex, st, tok)
    if isinstance(tok, Lazy) and tok.oid in ex.havoc_calls:
        nm, a = ex.havoc_calls[tok.oid]
        if nm.endswith("Token::new"):
            return whitespace_text(ex, st, a[0])
        if nm.endswith("TokenType::tabs"):
            return ("tabs", a[0])
        if nm.endswith("TokenType::spaces"):
            return ("spaces", a[0])
    if isinstance(tok, Agg) and tok.variant == "Whitespace":
        return ("text", deref_val(ex, st, tok.fields[0]))
    return None


def k1_k2(ses, rep):
    flagged = []
    T = ses.enums("default")
    # K1
    ex = ses.executor("lib", "default", inline=INLINE_CTX)
    ex.hooks = [str_identity]
    f = ses.need(ex, "create_newline_trivia")
    args = lazy_args(ex, f)
    ctx = args[0].v
    outs = [o for o in ex.run(f, args) if o.kind == "return"]
    le = cfg_field(ex, ctx, "line_endings")
    if le is None or not outs:
        raise Inconclusive("create_newline_trivia does not read config.line_endings")
    d = ex.discr(None, le)
    seen = set()
    for pi, o in enumerate(outs):
        w = whitespace_text(ex, o.state, o.value)
        txt = w[1] if w and w[0] == "text" else None
        while isinstance(txt, Lazy) and txt.oid in ex.havoc_calls and ex.havoc_calls[txt.oid][0].split("::")[-1] in ("into", "from"):
            txt = deref_val(ex, o.state, ex.havoc_calls[txt.oid][1][0])
        for i, (vn, *_r) in enumerate(T.variants("LineEndings")):
            want = {"Unix": "\n", "Windows": "\r\n"}[vn]
            ok = isinstance(txt, Str) and txt.s == want
            if not ses.reachable(list(o.pc) + [d == z3.BitVecVal(i, 64)]):
                continue
            r, m = ses.obligation(f"newline/path{pi}/{vn}", list(o.pc) + [d == z3.BitVecVal(i, 64)], z3.BoolVal(not ok), f"create_newline_trivia = {want!r}")
            if r in ("sat", "unsat"):
                seen.add(vn)
            if r == "sat":
                flagged.append((f"newline/{vn}", f"create_newline_trivia yields {txt!r} for LineEndings::{vn}", "newline", {"line_endings": vn}))
    if seen != {"Unix", "Windows"}:
        raise Inconclusive(f"create_newline_trivia: line endings reached {seen}")
    # K2
    ex = ses.executor("lib", "default", inline=INLINE_CTX)
    f = ses.need(ex, "create_indent_trivia")
    args = lazy_args(ex, f)
    ctx, shape = args[0].v, args[1]
    outs = [o for o in ex.run(f, args) if o.kind == "return"]
    it = cfg_field(ex, ctx, "indent_type")
    iw = cfg_field(ex, ctx, "indent_width")
    ind = ex.lazy_tab.get((shape.oid, ("field", T.field_index("Shape", "indent"))))
    if it is None or ind is None:
        raise Inconclusive("create_indent_trivia does not read indent_type / shape.indent")
    blk = ex.lazy_tab.get((ind.oid, ("field", T.field_index("Indent", "block_indent"))))
    add = ex.lazy_tab.get((ind.oid, ("field", T.field_index("Indent", "additional_indent"))))
    d = ex.discr(None, it)
    small = [z3.ULT(x.t, z3.BitVecVal(2 ** 20, 64)) for x in (blk, add, iw) if x is not None]
    seen = set()
    for pi, o in enumerate(outs):
        w = whitespace_text(ex, o.state, o.value)
        for i, (vn, *_r) in enumerate(T.variants("IndentType")):
            if w is None or w[0] not in ("tabs", "spaces") or blk is None or add is None:
                bad = z3.BoolVal(True)
            else:
                level = blk.t + add.t
                want = level if vn == "Tabs" else level * iw.t
                bad = z3.Or(z3.BoolVal(w[0] != vn.lower()), w[1].t != want)
            if not ses.reachable(list(o.pc) + small + [d == z3.BitVecVal(i, 64)]):
                continue
            r, m = ses.obligation(f"indent/path{pi}/{vn}", list(o.pc) + small + [d == z3.BitVecVal(i, 64)], bad,
                                  "tabs(block+additional) / spaces((block+additional) * indent_width)")
            if r in ("sat", "unsat"):
                seen.add(vn)
            if r == "sat":
                flagged.append((f"indent/{vn}", f"create_indent_trivia yields {w and w[0]} of the wrong amount for IndentType::{vn}", "indent", {"indent_type": vn}))
    if seen != {"Tabs", "Spaces"}:
        raise Inconclusive(f"create_indent_trivia: indent types reached {seen}")
    return flagged


KIND_TEXT = {"SingleLineComment": "comment", "Shebang": "line", "MultiLineComment": "comment", "StringLiteral": "literal"}


def k3(ses, rep, N):
    """format_token on comment / long string tokens with bounded symbolic text"""
    flagged = []
    T = ses.enums("default")
    FT = [v[0] for v in T.variants("FormatTokenType")]
    extra_inline = set()           # in-crate helpers found to stand between the input text and the output text (demand-driven)
    work = ["SingleLineComment", "Shebang", "MultiLineComment", "StringLiteral"]
    tries = {}
    while work:
        kind = work.pop(0)
        ex = ses.executor("lib", "default", inline=lambda n, f, extra=frozenset(extra_inline): INLINE_CTX(n, f) or f.name in extra)
        text = BStr.fresh("text", N)
        vdef = [v for v in T.variants("TokenType") if v[0] == kind][0]
        fields = []
        for fname, fty in vdef[2]:
            if fname == KIND_TEXT[kind]:
                fields.append(text)
            elif fname == "quote_type":
                fields.append(Agg("StringLiteralQuoteType", "Brackets", []))
            else:
                fields.append(ex.fresh_lazy(fty, fname))
        tok = Agg("TokenType", kind, fields, [f_[0] for f_ in vdef[2]])

        def tt(ex_, st, callee, args, dty, tok=tok):
            if canon(callee).endswith("Token::token_type"):
                return RefV(tok)
            return NotImplemented
        ex.hooks = [tt, str_identity, bstr.hook]
        f = ses.need(ex, "format_token")
        args = lazy_args(ex, f)
        ctx = args[0].v
        ftype = args[2]
        outs = [o for o in ex.run(f, args) if o.kind == "return"]
        if not outs:
            raise Inconclusive(f"format_token({kind}): no returning path")
        le = cfg_field(ex, ctx, "line_endings")
        n_ok = 0
        retry = False
        for pi, o in enumerate(outs):
            res = o.value
            if not (isinstance(res, Agg) and len(res.fields) == 3):
                raise Inconclusive(f"format_token({kind}) result shape {res!r}")
            newtok = deref_val(ex, o.state, res.fields[0])
            tv = None
            if isinstance(newtok, Lazy) and newtok.oid in ex.havoc_calls and ex.havoc_calls[newtok.oid][0].endswith("Token::new"):
                tv = deref_val(ex, o.state, ex.havoc_calls[newtok.oid][1][0])
            out_text = None
            if isinstance(tv, Agg) and tv.variant == kind:
                idx = [f_[0] for f_ in vdef[2]].index(KIND_TEXT[kind])
                out_text = deref_val(ex, o.state, tv.fields[idx])
                while isinstance(out_text, Lazy) and out_text.oid in ex.havoc_calls and ex.havoc_calls[out_text.oid][0].split("::")[-1] in ("into", "from", "to_owned", "clone"):
                    out_text = deref_val(ex, o.state, ex.havoc_calls[out_text.oid][1][0])
            base = list(o.pc) + [text.wellformed()]
            oid = f"format_token/{kind}/path{pi}"
            if not isinstance(out_text, BStr):
                # an extracted helper? inline it and analyse this token kind again
                opaque = out_text if isinstance(out_text, Lazy) and out_text.oid in ex.havoc_calls else tv if out_text is None else None
                if isinstance(opaque, Lazy) and opaque.oid in ex.havoc_calls and tries.get(kind, 0) < 3:
                    g = ex.resolve(ex.havoc_raw.get(opaque.oid, ex.havoc_calls[opaque.oid][0]))
                    if g is not None and g.blocks and g.name not in extra_inline:
                        extra_inline.add(g.name)
                        tries[kind] = tries.get(kind, 0) + 1
                        retry = True
                        break
                r, m = ses.obligation(oid + "/text-recognised", base, z3.BoolVal(True), "the output token carries a rewritten text")
                if r == "sat":
                    flagged.append((oid, f"format_token({kind}): output text is {out_text!r}, not a function of the input text", "text", {"kind": kind}))
                continue
            n_ok += 1
            if kind in ("SingleLineComment", "Shebang"):
                pre = base + [bstr.DFA_ONE_LINE.accepts(text)]
                last_ws = z3.Or(*[z3.And(out_text.n == j, bstr.is_rust_whitespace(out_text.chars[j - 1])) for j in range(1, out_text.cap + 1)])
                bad = z3.Or(last_ws, bstr.contains_char(out_text, bstr.CR), bstr.contains_char(out_text, bstr.LF),
                            z3.Not(z3.And(out_text.n <= text.n, *[z3.Implies(i < out_text.n, out_text.chars[i] == text.chars[i]) for i in range(min(text.cap, out_text.cap))])))
                r, m = ses.obligation(oid + "/trimmed", pre, bad, f"all {kind} texts of <= {N} characters: output = input without trailing white space; no CR, no LF")
                if r == "sat":
                    flagged.append((oid + "/trimmed", f"format_token({kind}) on {text.value(m)!r} gives {out_text.value(m)!r}", "line-comment",
                                    {"kind": kind, "text": text.value(m)}))
            else:
                if le is None:
                    flagged.append((oid, f"format_token({kind}) does not read config.line_endings", "block-text", {"kind": kind, "text": "a\nb"}))
                    continue
                d = ex.discr(None, le)
                for i, (vn, *_r) in enumerate(T.variants("LineEndings")):
                    want = {"Unix": "\n", "Windows": "\r\n"}[vn]
                    pre = base + [bstr.DFA_LF_OR_CRLF.accepts(text), d == z3.BitVecVal(i, 64)]
                    if not ses.reachable(pre):
                        continue
                    # the same text with its line breaks normalised to LF, then to `want` (independent of the code's way to get there)
                    bad = z3.Not(bstr.dfa_lines(want).accepts(out_text))
                    r, m = ses.obligation(oid + f"/{vn}/line-breaks", pre, bad, f"all texts of <= {N} characters written with LF/CRLF: every break in the output is {want!r}")
                    if r == "sat":
                        flagged.append((oid + f"/{vn}", f"format_token({kind}) with {vn} on {text.value(m)!r} gives {out_text.value(m)!r}", "block-text",
                                        {"kind": kind, "text": text.value(m), "line_endings": vn}))
                    # nothing but line breaks changes
                    strip = lambda b: bstr.replace_all(bstr.replace_all(b, "\r", ""), "\n", "")
                    r, m = ses.obligation(oid + f"/{vn}/content-kept", pre, z3.Not(bstr.equal(strip(text), strip(out_text))), "characters other than CR/LF are unchanged")
                    if r == "sat":
                        flagged.append((oid + f"/{vn}/content", f"format_token({kind}) changes the text {text.value(m)!r} to {out_text.value(m)!r}", "block-text",
                                        {"kind": kind, "text": text.value(m), "line_endings": vn}))
            # wrapping trivia
            if kind in ("SingleLineComment", "MultiLineComment"):
                dft = ex.discr(None, ftype)
                lead, trail = res.fields[1], res.fields[2]

                def single(v, what):
                    """Option<Vec<Token>> holding exactly one token produced by `what`"""
                    v = deref_val(ex, o.state, v)
                    if not (isinstance(v, Agg) and v.variant == "Some"):
                        return False
                    el = vec_elems(ex, o, v.fields[0])
                    return el is not None and len(el) == 1 and what(whitespace_text(ex, o.state, el[0]))
                is_nl = lambda w: w is not None and w[0] == "text"
                is_ind = lambda w: w is not None and w[0] in ("tabs", "spaces") and not z3.is_bv_value(z3.simplify(w[1].t))
                is_sp1 = lambda w: w is not None and w[0] == "spaces" and z3.is_bv_value(z3.simplify(w[1].t)) and z3.simplify(w[1].t).as_long() == 1
                li = FT.index("LeadingTrivia")
                ok_lead = single(lead, is_ind) and single(trail, is_nl)
                r, m = ("skip", None) if not ses.reachable(base + [dft == z3.BitVecVal(li, 64)]) else ses.obligation(oid + "/leading-comment-wrapped", base + [dft == z3.BitVecVal(li, 64)], z3.BoolVal(not ok_lead),
                                      "a leading comment is emitted as [indent] comment [newline]")
                if r == "sat":
                    flagged.append((oid + "/wrap", f"a leading {kind} is not wrapped in [indent] .. [newline]", "wrap", {"kind": kind}))
                if kind == "SingleLineComment":
                    ti = FT.index("TrailingTrivia")
                    none_trail = isinstance(deref_val(ex, o.state, trail), Agg) and deref_val(ex, o.state, trail).variant == "None"
                    r, m = ("skip", None) if not ses.reachable(base + [dft == z3.BitVecVal(ti, 64)]) else ses.obligation(oid + "/trailing-comment-spaced", base + [dft == z3.BitVecVal(ti, 64)], z3.BoolVal(not (single(lead, is_sp1) and none_trail)),
                                          "a trailing line comment is preceded by exactly one space and followed by nothing")
                    if r == "sat":
                        flagged.append((oid + "/space", "a trailing line comment is not preceded by exactly one space", "wrap", {"kind": kind}))
        if retry:
            flagged[:] = [f_ for f_ in flagged if f_[3].get("kind") != kind]
            rep.obligations[:] = [o_ for o_ in rep.obligations if f"format_token/{kind}/" not in o_["id"]]
            work.insert(0, kind)
            continue
        if n_ok == 0 and not any(f_[3].get("kind") == kind for f_ in flagged):
            raise Inconclusive(f"format_token({kind}): no path rewrites the text")
    rep.bounds["text_chars"] = N
    if extra_inline:
        rep.extra["inlined_text_helpers"] = sorted(extra_inline)
    return flagged


def k4(ses, rep):
    """load_token_trivia: whitespace trivia of the input never reaches the output"""
    flagged = []
    T = ses.enums("default")
    ex = ses.executor("lib", "default", inline=lambda n, f: False)
    ex.max_block_visits = 2
    trivia = ex.fresh_lazy("Token", "trivia")
    ttype = ex.fresh_lazy("TokenType", "trivia.type")
    state = {"n": 0}

    def h(ex_, st, callee, args, dty):
        c = canon(callee)
        if re.search(r"Peekable<.*> as Iterator>::next$", c):
            k = st.aux.get("it", 0)
            st.aux["it"] = k + 1
            from ..summaries import opt_some, opt_none
            return opt_some(dty, RefV(RefV(trivia))) if k == 0 else opt_none(dty)
        if c.endswith("Token::token_type"):
            v = deref_val(ex_, st, args[0])
            while isinstance(v, RefV):
                v = v.v
            if v is trivia:
                return RefV(ttype)
        return NotImplemented
    ex.hooks = [h]
    f = ses.need(ex, "load_token_trivia")
    outs = ex.run(f, lazy_args(ex, f))
    d = ex.discr(None, ttype)
    wi = T.index("TokenType", "Whitespace")
    n = 0
    for pi, o in enumerate(outs):
        if o.kind != "return":
            continue
        n += 1
        fts = find_calls(o.trace, lambda n_: n_.split("::")[-1] == "format_token")
        pushes = find_calls(o.trace, lambda n_: re.search(r"Vec::<?.*>?::push$|Vec::push$", n_) is not None)
        # (a) a Whitespace trivia is never handed to format_token (whose Whitespace arm copies the characters verbatim)
        for c in fts[:1]:
            r, m = ses.obligation(f"load_token_trivia/path{pi}/whitespace-not-formatted", list(o.pc), d == z3.BitVecVal(wi, 64),
                                  "format_token is not reached with Whitespace trivia")
            if r == "sat":
                flagged.append((f"load_token_trivia/path{pi}", "input Whitespace trivia is passed through format_token (copied verbatim)", "copied-whitespace", {}))
        # (b) what is pushed on a Whitespace step is create_newline_trivia or spaces(1)
        for pu in pushes:
            v = deref_val(ex, o.state, pu[1][1])
            ok = False
            if isinstance(v, Lazy) and v.oid in ex.havoc_calls:
                nm, a = ex.havoc_calls[v.oid]
                if nm.split("::")[-1] == "create_newline_trivia":
                    ok = True
                elif nm.endswith("Token::new"):
                    w = whitespace_text(ex, o.state, v)
                    ok = w is not None and w[0] == "spaces" and z3.is_bv_value(z3.simplify(w[1].t)) and z3.simplify(w[1].t).as_long() == 1
            if isinstance(v, Lazy) and not ok:
                # the token returned by format_token (tuple field 0)
                p = ex.parent.get(v.oid)
                ok = p is not None and any(p[0] == getattr(c[2], "oid", None) for c in fts)
            if not ses.reachable(list(o.pc) + [d == z3.BitVecVal(wi, 64)]):
                continue
            r, m = ses.obligation(f"load_token_trivia/path{pi}/pushed-token-from-a-whitespace-source", list(o.pc) + [d == z3.BitVecVal(wi, 64)], z3.BoolVal(not ok),
                                  "on a Whitespace trivia only create_newline_trivia / spaces(1) are pushed")
            if r == "sat":
                flagged.append((f"load_token_trivia/path{pi}/push", f"a Whitespace step pushes {v!r}", "copied-whitespace", {}))
    if n == 0:
        raise Inconclusive("load_token_trivia: no returning path")
    rep.bounds["load_token_trivia_paths"] = n
    return flagged


def k5(ses, rep):
    """format_eof / pop_until_no_whitespace"""
    flagged = []
    T = ses.enums("default")
    ex = ses.executor("lib", "default", inline=lambda n, f: False)
    f = ses.need(ex, "format_eof")
    outs = ex.run(f, lazy_args(ex, f))
    n = 0
    for pi, o in enumerate(outs):
        if o.kind != "return":
            continue
        sfn = find_calls(o.trace, lambda n_: n_.split("::")[-1] in ("should_format_node", "ne", "eq"))
        ltt = find_calls(o.trace, lambda n_: n_.split("::")[-1] == "load_token_trivia")
        if not ltt:
            continue        # not formatted (ignored / out of range): returned as is
        n += 1
        allw = find_calls(o.trace, lambda n_: n_.split("::")[-1] == "all")
        pops = find_calls(o.trace, lambda n_: n_.split("::")[-1] == "pop_until_no_whitespace")
        nls = find_calls(o.trace, lambda n_: n_.split("::")[-1] == "create_newline_trivia")
        pushes = find_calls(o.trace, lambda n_: re.search(r"Vec::<?.*>?::push$|Vec::push$", n_) is not None)
        news = find_calls(o.trace, lambda n_: n_.endswith("TokenReference::new"))
        if not allw or not news:
            raise Inconclusive("format_eof: shape of the formatted path not recognised")
        only_ws = allw[-1][2].t
        lead = deref_val(ex, o.state, news[-1][1][0])
        trail = deref_val(ex, o.state, news[-1][1][2])
        empty = lambda v: isinstance(v, Lazy) and v.oid in ex.havoc_calls and ex.havoc_calls[v.oid][0].endswith("Vec::new")
        ok_empty = empty(lead) and empty(trail)
        ok_comments = (len(pops) == 1 and len(nls) == 1 and len(pushes) == 1 and deref_val(ex, o.state, pushes[0][1][1]) is nls[0][2]
                       and o.trace.index(next(t for t in o.trace if t[0] in ("havoc", "effect") and t[1] == pops[0][0])) <
                       o.trace.index(next(t for t in o.trace if t[0] in ("havoc", "effect") and t[1] == pushes[0][0])) and empty(trail))
        r, m = ("skip", None) if not ses.reachable(list(o.pc) + [only_ws]) else ses.obligation(f"format_eof/path{pi}/only-whitespace=>empty", list(o.pc) + [only_ws], z3.BoolVal(not ok_empty), "whitespace-only leading trivia is dropped")
        if r == "sat":
            flagged.append((f"format_eof/path{pi}/empty", "whitespace before EOF is kept", "eof", {}))
        r, m = ("skip", None) if not ses.reachable(list(o.pc) + [z3.Not(only_ws)]) else ses.obligation(f"format_eof/path{pi}/comments=>pop-then-one-newline", list(o.pc) + [z3.Not(only_ws)], z3.BoolVal(not ok_comments),
                              "trailing whitespace popped, then exactly one create_newline_trivia pushed; no trailing trivia")
        if r == "sat":
            flagged.append((f"format_eof/path{pi}/newline", "EOF after comments is not terminated by exactly one configured newline", "eof", {}))
    if n == 0:
        raise Inconclusive("format_eof: no formatted path")
    # pop_until_no_whitespace: one step
    ex = ses.executor("lib", "default", inline=lambda n_, f_: False)
    f = ses.need(ex, "pop_until_no_whitespace")
    outs = ex.run(f, lazy_args(ex, f))
    k = 0
    for pi, o in enumerate(outs):
        if o.kind != "return":
            continue
        pops = find_calls(o.trace, lambda n_: n_.split("::")[-1] == "pop")
        kinds = find_calls(o.trace, lambda n_: n_.split("::")[-1] == "token_kind")
        rec = find_calls(o.trace, lambda n_: n_.split("::")[-1] == "pop_until_no_whitespace")
        pushes = find_calls(o.trace, lambda n_: n_.split("::")[-1] == "push")
        if not pops or not kinds:
            continue
        k += 1
        dk = ex.discr(o.state, kinds[-1][2])
        wk = T.index("TokenKind", "Whitespace")
        r, m = ("skip", None) if not ses.reachable(list(o.pc) + [dk == z3.BitVecVal(wk, 64)]) else ses.obligation(f"pop_until_no_whitespace/path{pi}/whitespace=>recurse", list(o.pc) + [dk == z3.BitVecVal(wk, 64)], z3.BoolVal(not (rec and not pushes)),
                              "a popped whitespace token is dropped and popping continues")
        if r == "sat":
            flagged.append((f"pop_until_no_whitespace/path{pi}", "a trailing whitespace token is kept", "eof", {}))
        r, m = ("skip", None) if not ses.reachable(list(o.pc) + [dk != z3.BitVecVal(wk, 64)]) else ses.obligation(f"pop_until_no_whitespace/path{pi}/other=>pushed-back", list(o.pc) + [dk != z3.BitVecVal(wk, 64)], z3.BoolVal(not (pushes and not rec)),
                              "a non-whitespace token is pushed back and popping stops")
        if r == "sat":
            flagged.append((f"pop_until_no_whitespace/path{pi}/keep", "a non-whitespace token before EOF is dropped", "eof", {}))
    if k == 0:
        raise Inconclusive("pop_until_no_whitespace: step not recognised")
    return flagged


def census(ses, rep, fs):
    """S"""
    flagged = []
    funcs = ses.mir("lib", fs)
    n_ws = n_tabs = n_spaces = n_sym = 0
    for name, l in sorted(funcs.items()):
        for f in l:
            for _ in re.findall(r"= (?:full_moon::tokenizer::)?TokenType::Whitespace \{", f.text):
                n_ws += 1
                ok = f.name in ("create_newline_trivia", "format_token")
                rep.add(f"census/{fs}/Whitespace-aggregate/{f.name}", "unsat" if ok else "sat",
                        "TokenType::Whitespace is built only by create_newline_trivia (format_token's pass-through arm is shown unreachable by K4)", nontrivial=False)
                if not ok:
                    flagged.append((f"census/{fs}/{f.name}/Whitespace", f"{f.name} builds a TokenType::Whitespace token of its own", "site", {"function": f.name}))
            if f.name == "format_token":
                # format_token's own Whitespace aggregate is the pass-through arm: its text is the matched token's, never a literal
                for m_ in re.finditer(r"= (?:full_moon::tokenizer::)?TokenType::Whitespace \{ characters: (?:move|copy) (_\d+)", f.text):
                    seen_, todo_, const_ = set(), [m_.group(1)], None
                    while todo_ and len(seen_) < 12:
                        v_ = todo_.pop()
                        if v_ in seen_:
                            continue
                        seen_.add(v_)
                        for rhs in re.findall(r"^\s*" + v_ + r" = (.*)$", f.text, re.M):
                            c_ = re.search(r'const "((?:[^"\\]|\\.)*)"', rhs)
                            if c_:
                                const_ = c_.group(1)
                            todo_ += [x for x in re.findall(r"(?:move|copy) (_\d+)", rhs) if "((" not in rhs.split(x)[0][-3:]]
                    r_ = "sat" if const_ is not None else "unsat"
                    rep.add(f"census/{fs}/format_token/Whitespace-text-is-the-input-token's", r_, "the Whitespace token format_token builds carries the matched token's text, not a literal", nontrivial=False)
                    if const_ is not None:
                        flagged.append((f"census/{fs}/format_token/Whitespace-literal", f"format_token builds white space from the literal {const_!r} instead of the configured line ending / indent", "site", {"function": "format_token"}))
            for bb, sts in f.blocks.items():
                for s in sts:
                    txt = s[2] if s[0] == "call" else None
                    if txt is None:
                        continue
                    c = canon(txt)
                    if c.endswith("TokenType::tabs"):
                        n_tabs += 1
                        if f.name != "create_plain_indent_trivia":
                            flagged.append((f"census/{fs}/{f.name}/{bb}/tabs", f"{f.name} emits tabs outside create_plain_indent_trivia", "site", {"function": f.name}))
                    elif c.endswith("TokenType::spaces"):
                        n_spaces += 1
                        a = s[3][0] if len(s) > 3 and s[3] else None
                        const = re.search(r"^(\d+)_usize$", a[1]) if isinstance(a, tuple) and a[0] == "const" else None
                        if f.name == "create_plain_indent_trivia":
                            continue
                        if not const or int(const.group(1)) > 1:
                            flagged.append((f"census/{fs}/{f.name}/{bb}/spaces", f"{f.name} emits spaces({a}) - not 0 or 1 - outside create_plain_indent_trivia", "site", {"function": f.name}))
                    elif c.endswith("TokenReference::symbol"):
                        n_sym += 1
                        a = s[3][0] if len(s) > 3 and s[3] else None
                        m_ = re.match(r'^"((?:\\.|[^"\\])*)"$', a[1]) if isinstance(a, tuple) and a[0] == "const" else None
                        if m_:
                            v = decode_rust_str(m_.group(1))
                            if any(ch in v for ch in "\t\r\n"):
                                flagged.append((f"census/{fs}/{f.name}/{bb}/symbol", f"{f.name} builds the symbol {v!r} containing a tab / line break", "site", {"function": f.name}))
    rep.bounds[f"sites_{fs}"] = {"Whitespace": n_ws, "tabs": n_tabs, "spaces": n_spaces, "symbol": n_sym}
    if n_ws < 1 or n_tabs < 1 or n_spaces < 20:
        raise Inconclusive(f"site census {fs}: implausible counts {n_ws}/{n_tabs}/{n_spaces}")
    rep.add(f"census/{fs}/spaces-and-tabs", "unsat" if not flagged else "sat", f"{n_spaces} spaces() sites, {n_tabs} tabs() sites, {n_sym} symbol() sites", nontrivial=False)
    return flagged


def space_first_closures(ses, fs):
    """closures that return `vec![<white space token>, ..]` (used under flat_map: every group of the collected list starts with white space)
    and the functions whose result is such a list: the ones that own such a closure and their thin wrappers"""
    funcs = ses.mir("lib", fs)
    clos, fns = set(), set()
    for name, l in funcs.items():
        if "{closure" not in name:
            continue
        for g in l:
            if not g.ret or "Vec<" not in g.ret or "Token" not in g.ret or len(g.blocks) > 40:
                continue
            ex = ses.executor("lib", fs, inline=lambda n_, fn: False)
            try:
                outs = ex.run(g, lazy_args(ex, g))
            except Inconclusive:
                continue
            firsts = []
            for o in outs:
                if o.kind != "return":
                    continue
                el = vec_elems(ex, o, o.value)
                if el:
                    w = whitespace_text(ex, o.state, el[0])
                    firsts.append(w is not None and w[0] in ("spaces", "tabs", "text"))
                else:
                    firsts.append(False)
            if firsts and all(firsts):
                m = re.search(r"\{closure@[^}]*\}", g.params[0][1]) if g.params else None
                if m:
                    clos.add(m.group(0))
                    owner = name.split("::{closure")[0]
                    if any(h.ret and "Vec<" in h.ret and "Token" in h.ret for h in funcs.get(owner, [])):
                        fns.add(owner.split("::")[-1])
    # thin wrappers: a function of at most 4 blocks whose only calls are to space-first functions
    changed = True
    while changed:
        changed = False
        for name, l in funcs.items():
            last = name.split("::")[-1]
            if "{closure" in name or last in fns:
                continue
            for g in l:
                calls = [canon(s_[2]).split("::")[-1] for sts in g.blocks.values() for s_ in sts if s_[0] == "call"]
                if len(g.blocks) <= 4 and g.ret and "Vec<" in g.ret and "Token" in g.ret and calls and all(c_ in fns for c_ in calls):
                    fns.add(last); changed = True
    return clos, fns


def adjacency(ses, rep, fs):
    """A  no white space after an indent: in every token list a formatter assembles (vec!, push, append, extend - in path order), an
    element made by create_indent_trivia is never directly followed by a white-space token or by a list whose groups start with one
    (trailing_comments() and the like prepend a space to every comment)."""
    flagged = []
    funcs = ses.mir("lib", fs)
    clos, sfns = space_first_closures(ses, fs)
    if "trailing_comments_search" not in sfns:
        raise Inconclusive(f"adjacency: trailing_comments_search not recognised as a space-prefixing helper ({sorted(sfns)})")
    rep.extra.setdefault("space_first_helpers", {})[fs] = sorted(sfns)
    n_fn = n_lists = 0
    for name, l in sorted(funcs.items()):
        for f in l:
            if "{closure" in f.name or "::promoted[" in f.name or not any(s_[0] == "call" and canon(s_[2]).split("::")[-1] in ("create_indent_trivia", "create_plain_indent_trivia")
                                                                                 for sts in f.blocks.values() for s_ in sts):
                continue
            if f.name in ("create_indent_trivia", "create_plain_indent_trivia"):
                continue
            outs = None
            for visits in ((2, 1) if len(f.blocks) < 150 else (1,)):
                ex = ses.executor("lib", fs, inline=lambda n_, fn: False)
                ex.max_block_visits = visits
                ex.max_paths = 3000
                ex.inline_closure_calls = True          # local lambdas called by name are part of the function
                try:
                    outs = ex.run(f, lazy_args(ex, f))
                    break
                except Inconclusive as e:
                    err = str(e)
            if outs is None:
                rep.extra.setdefault("adjacency_not_encoded", []).append(f"{f.name}: {err[:60]}")
                continue
            rep.fn(f)
            n_fn += 1
            seen_sites = set()
            for pi, o in enumerate(outs):
                if o.kind not in ("return", "loopbound"):
                    continue
                hv = [t for t in o.trace if t[0] == "havoc"]

                def cls(v, depth=0):
                    v = deref_val(ex, o.state, v)
                    if not isinstance(v, Lazy) or depth > 8:
                        return "other"
                    if whitespace_text(ex, o.state, v) is not None:
                        return "space"
                    hc = ex.havoc_calls.get(v.oid)
                    if hc:
                        last = hc[0].split("::")[-1]
                        if last in ("create_indent_trivia", "create_plain_indent_trivia"):
                            return "indent"
                        if last == "create_newline_trivia":
                            return "newline"
                        if last in sfns:
                            return "list-space-first"
                        if last in ("collect", "into_iter", "iter", "cloned", "to_owned", "clone", "to_vec", "filter", "chain", "flat_map", "map", "rev"):
                            raw = ex.havoc_raw.get(v.oid, "")
                            if last == "flat_map" and any(c_ in raw for c_ in clos):
                                return "list-space-first"
                            snap = ex.havoc_snap.get(v.oid, hc[1])
                            return cls(snap[0], depth + 1) if snap else "other"
                    return "other"
                contents = {}
                for t in hv:
                    last = t[1].split("::")[-1]
                    snap = t[4] if len(t) > 4 else t[2]
                    if "into_vec" in t[1] and isinstance(t[3], Lazy):
                        el = vec_elems(ex, o, t[3])
                        if el is None:
                            continue
                        contents[t[3].oid] = [cls(e_) for e_ in el]
                        tgt = t[3].oid
                    elif last in ("push", "append", "extend", "extend_from_slice", "insert") and re.search(r"Vec(<.*>)?::" + last + "$", t[1]) and snap:
                        V = deref_val(ex, o.state, snap[0])
                        if not isinstance(V, Lazy):
                            continue
                        cur = contents.setdefault(V.oid, [cls(V)] if cls(V) != "other" else ["?"])
                        if last == "push":
                            cur.append(cls(snap[1]))
                        elif last == "insert":
                            cur += ["?", cls(snap[2]) if len(snap) > 2 else "?", "?"]
                        else:
                            W = deref_val(ex, o.state, snap[1])
                            if isinstance(W, Lazy) and W.oid in contents:
                                cur.extend(contents[W.oid])
                            else:
                                cur.append(cls(W))
                        tgt = V.oid
                    else:
                        continue
                    seq = contents[tgt]
                    n_lists += 1
                    for a_, b_ in zip(seq, seq[1:]):
                        if a_ == "indent" and b_ in ("space", "list-space-first"):
                            site = (f.name, last, b_)
                            if site in seen_sites:
                                continue
                            seen_sites.add(site)
                            oid = f"adjacency/{fs}/{f.name}/path{pi}/indent-then-{b_}"
                            r, m = ses.obligation(oid, list(o.pc), z3.BoolVal(True), "an indent token is not followed by white space in the same list")
                            if r == "sat":
                                flagged.append((oid, f"{f.name} assembles a token list in which an indent is directly followed by "
                                                     f"{'a white-space token' if b_ == 'space' else 'comments that each carry a leading space'}", "adjacency", {"function": f.name}))
                # across tokens: a token whose trailing trivia ENDS in an indent is followed, on the same line, by whatever comes next; on the same
                # path no node may get white space PREPENDED through update_leading_trivia(Append([<space>, ..])) (`[` + newline + indent, then ` [[key]]`)
                ends_indent, starts_space = [], []
                for t in hv:
                    last = t[1].split("::")[-1]
                    snap = t[4] if len(t) > 4 else t[2]
                    if last not in ("update_trailing_trivia", "update_leading_trivia", "update_trivia") or len(snap) < 2:
                        continue
                    pairs = [("leading", snap[1]), ("trailing", snap[2])] if last == "update_trivia" and len(snap) > 2 else [("leading" if "leading" in last else "trailing", snap[1])]
                    for side, payload in pairs:
                        pv = deref_val(ex, o.state, payload)
                        if not (isinstance(pv, Agg) and pv.variant in ("Append", "Replace") and pv.fields):
                            continue
                        lst = deref_val(ex, o.state, pv.fields[0])
                        seq = contents.get(lst.oid) if isinstance(lst, Lazy) else None
                        if not seq:
                            continue
                        if side == "trailing" and seq[-1] == "indent":
                            ends_indent.append(t)
                        if side == "leading" and pv.variant == "Append" and seq[0] in ("space", "list-space-first"):
                            starts_space.append(t)
                # a symbol whose TEXT carries a blank (`fmt_symbol!(.., " do", ..)`, `" = "`): an indent appended in front of it puts the blank after the
                # indent; a newline appended behind it leaves the blank at the end of the line
                for t in hv:
                    last = t[1].split("::")[-1]
                    snap = t[4] if len(t) > 4 else t[2]
                    if last not in ("update_trailing_trivia", "update_leading_trivia") or len(snap) < 2:
                        continue
                    pv = deref_val(ex, o.state, snap[1])
                    if not (isinstance(pv, Agg) and pv.variant == "Append" and pv.fields):
                        continue
                    lst = deref_val(ex, o.state, pv.fields[0])
                    seq = contents.get(lst.oid) if isinstance(lst, Lazy) else None
                    tok = deref_val(ex, o.state, snap[0])
                    if not seq or not isinstance(tok, Lazy):
                        continue
                    text = None
                    cur, steps = tok, 0
                    while isinstance(cur, Lazy) and cur.oid in ex.havoc_calls and steps < 6:
                        steps += 1
                        nm, a = ex.havoc_calls[cur.oid]
                        if nm.split("::")[-1] == "format_symbol" and len(a) >= 3:
                            sym = deref_val(ex, o.state, a[2])
                            for _ in range(4):          # `&TokenReference::symbol(text).unwrap()`: payload of the Result / result of unwrap
                                if not isinstance(sym, Lazy):
                                    break
                                root = sym.oid
                                while root in ex.parent:
                                    root = ex.parent[root][0]
                                hc2 = ex.havoc_calls.get(root)
                                if hc2 is None:
                                    break
                                if hc2[0].endswith("TokenReference::symbol"):
                                    sa = deref_val(ex, o.state, hc2[1][0])
                                    text = sa.s if isinstance(sa, Str) else None
                                    break
                                if hc2[0].split("::")[-1] in ("unwrap", "expect") and hc2[1]:
                                    sym = deref_val(ex, o.state, ex.havoc_snap.get(root, hc2[1])[0])
                                    continue
                                break
                                # (symbol() returns a Result: look through unwrap / expect)
                            break
                        if nm.split("::")[-1] in ("unwrap", "expect", "update_trailing_trivia", "update_leading_trivia", "to_owned", "clone"):
                            cur = deref_val(ex, o.state, ex.havoc_snap.get(cur.oid, a)[0])
                            continue
                        break
                    if text is None:
                        continue
                    bad = ("leading" in last and seq[-1] == "indent" and text.startswith(" ")) or ("trailing" in last and seq[0] == "newline" and text.endswith(" "))
                    if bad and (f.name, "symbol-blank", last) not in seen_sites:
                        seen_sites.add((f.name, "symbol-blank", last))
                        oid = f"adjacency/{fs}/{f.name}/path{pi}/blank-of-symbol-{text.strip() or 'space'}-next-to-{'indent' if 'leading' in last else 'newline'}"
                        r, m = ses.obligation(oid, list(o.pc), z3.BoolVal(True), "no indent in front of / newline behind a symbol whose text carries the blank on that side")
                        if r == "sat":
                            flagged.append((oid, f"{f.name} puts {'an indent in front of' if 'leading' in last else 'a newline behind'} the symbol {text!r}: the line "
                                                 f"{'starts with indent + blank' if 'leading' in last else 'ends in a blank'}", "adjacency", {"function": f.name}))
                if ends_indent and starts_space and (f.name, "cross") not in seen_sites:
                    seen_sites.add((f.name, "cross"))
                    oid = f"adjacency/{fs}/{f.name}/path{pi}/indent-at-the-end-of-a-token-then-space-prepended"
                    r, m = ses.obligation(oid, list(o.pc), z3.BoolVal(True), "after a trailing [newline, indent] nothing gets a space prepended on the same path")
                    if r == "sat":
                        flagged.append((oid, f"{f.name} ends a token's trailing trivia with an indent and prepends a space to another node on the same path: "
                                             "a line can start with indent + space", "adjacency", {"function": f.name}))
            if not seen_sites:
                rep.add(f"adjacency/{fs}/{f.name}/no-white-space-after-indent", "unsat", "no token list of this function puts white space after an indent (all paths)")
    rep.bounds[f"adjacency_functions_{fs}"] = n_fn
    rep.bounds[f"adjacency_list_updates_{fs}"] = n_lists
    if n_fn < 15:
        raise Inconclusive(f"adjacency: only {n_fn} functions that place indents analysed")
    return flagged


# ------------------------------------------------------------------------------------------------ replay
def mask_literals(text):
    """positions inside long strings / quoted strings are exempt"""
    out = list(text)
    for m in re.finditer(r"\[(=*)\[.*?\]\1\]|\"(?:\\.|[^\"\\\n])*\"|'(?:\\.|[^'\\\n])*'", text, re.S):
        if text[max(0, m.start() - 2):m.start()] == "--":
            for i in range(m.start(), m.end()):        # block comment: its line breaks stay visible, its text does not
                if text[i] not in "\r\n":
                    out[i] = "x"
            continue
        for i in range(m.start(), m.end()):
            out[i] = "x"
    return "".join(out)


def whitespace_violation(out, le, indent_type, indent_width):
    body = out.replace("\r\n", "\n") if le == "\r\n" else out
    if "\r" in body:
        return "stray carriage return"
    if le == "\r\n" and re.search(r"(?<!\r)\n", out):
        return "bare line feed under Windows line endings"
    if out and not out.endswith(le):
        return "no final line ending"
    if out.endswith(le + le):
        return "more than one final line ending"
    for ln in body.split("\n"):
        lead = re.match(r"[ \t]*", ln).group(0)
        if ln.strip() == "" and ln != "":
            return f"white-space-only line {ln!r}"
        if re.search(r"[ \t]+$", ln):
            return f"trailing white space in {ln!r}"
        if indent_type == "Tabs" and " " in lead:
            return f"space in the indentation of {ln!r}"
        if indent_type == "Spaces" and ("\t" in lead):
            return f"tab in the indentation of {ln!r}"
        if indent_type == "Spaces" and len(lead) % indent_width:
            return f"indentation of {ln!r} is not a multiple of {indent_width} spaces"
    return None


PROGRAMS = [
    "-- c1\r\nlocal a = 1 -- c2\r\n--[[ m\r\n  n ]]\r\nlocal s = [[p\r\nq]]\r\nif a then -- c3\r\n\tb()\r\nend\r\n-- last\r\n",
    "#!/usr/bin/lua\r\nlocal x = { -- c\r\n  1, -- d\r\n}\r\n\r\n\r\n",
    "-- c1   \nlocal a = 1 -- c2 \t \n--[[ m\n  n ]]\nlocal s = [[p\nq]]\nfunction f()\n  -- inner  \n  return 1\nend\n\n\n-- tail   \n\n\n",
    "local a = 1\r\nlocal b = 2\nlocal c = 3\r\n-- mixed\nreturn a\r\n",
    "local t = {\n   -- leading  \r\n\ta = 1,\r\n}\n",
    "do\n\t\tlocal x = 1 --[[ a\r\nb ]] local y = 2\nend\n--[==[ x\r\ny ]==]",
    # comments around operators, commas and brackets of constructs that are hung / expanded over several lines
    "local function f(aaaa, bbbb)\n\tlocal x = aaaa\n\t\t-- explain the operator\n\t\t+ -- explain the operand\n\t\tbbbb\n\treturn x\nend\n",
    "local y = first_operand -- a\n\tand -- b\n\tsecond_operand -- c\n\tor --[[d]] third_operand\n",
    "call(first_argument, -- a\n\t-- b\n\tsecond_argument -- c\n\t, third_argument)\nlocal t = { -- a\n\tk = v, -- b\n\t-- c\n\t[1] = 2 -- d\n\t, 3 }\n",
    "if a -- c1\n\t-- c2\n\tand -- c3\n\tb then -- c4\n\treturn -- c5\nend\nlocal v = a.b -- c6\n\t.c -- c7\n\t:d() -- c8\n",
    "local v = cache[ -- comment\n\t[[key]]\n]\ncache[ [[other]] -- c\n] = 1\nlocal t = { [ -- c\n [==[k]==] ] = 1 }\n",
    # block comments in front of the keyword that ends a loop / condition header
    "for i = 1, 10 --[[ inclusive ]] do\n\tf(i)\nend\nfor i = 1, 10, 2 --[[ step ]] do\n\tf(i)\nend\nfor k, v in pairs(t) --[[ all ]] do\n\tf(k)\nend\nwhile x --[[ c ]] do\n\tf()\nend\nif x --[[ c ]] then\n\tf()\nend\n",
]
CONFIGS = [(le, it, iw) for le in ("Unix", "Windows") for it, iw in (("Tabs", 4), ("Spaces", 2), ("Spaces", 3))]


def battery():
    binp = common.native_build("default")
    fails = []
    for src in PROGRAMS:
        for le, it, iw in CONFIGS:
            flags = ["--line-endings", le, "--indent-type", it, "--indent-width", str(iw)]
            r = common.run_stylua(binp, src, flags)
            rc, out = r[0], r[1]
            if rc != 0:
                continue
            v = whitespace_violation(mask_literals(out), "\n" if le == "Unix" else "\r\n", it, iw)
            if v:
                fails.append((v, {"source": src, "flags": flags, "output": out}))
    return fails


def text_battery(kind):
    """every text over {a, b, LF, CRLF} of up to 4 units in a long string / block comment, both settings: the output text is the input text
    with each line break replaced by the configured one - nothing else (used when the symbolic kernel cannot follow format_token's rewrite)"""
    import itertools
    binp = common.native_build("default")
    units = ["a", "b", "\n", "\r\n"]
    for n in range(0, 5):
        for tup in itertools.product(units, repeat=n):
            text = "".join(tup)
            for le in ("Unix", "Windows"):
                if kind == "MultiLineComment":
                    src, pre, post = "--[==[" + text + "]==]\nlocal x = 1\n", "--[==[", "]==]"
                else:
                    src, pre, post = "local s = [==[" + text + "]==]\n", "[==[", "]==]"
                rc, out, err = common.run_stylua(binp, src, ["--line-endings", le])
                if rc != 0 or pre not in out or post not in out:
                    continue
                got = out[out.index(pre) + len(pre):out.index(post)]
                want = text.replace("\r\n", "\n").replace("\n", "\n" if le == "Unix" else "\r\n")
                if got != want:
                    return (f"--line-endings {le}: the {'block comment' if kind == 'MultiLineComment' else 'long string'} text {text!r} comes out as {got!r} (expected {want!r})",
                            {"source": src, "flags": ["--line-endings", le], "output": out})
    return None, {}


def replay_multi_config():
    """two directories with different line_endings / indent settings formatted by ONE process, in both orders"""
    from .. import clireplay
    binp = common.native_build("default")
    body = "local function f(a)\n\tif a then\n\t\treturn { 1,\n 2 }\n\tend\nend\n"
    files = {"win/stylua.toml": 'line_endings = "Windows"\nindent_type = "Spaces"\nindent_width = 3\n', "win/a.lua": body,
             "unix/stylua.toml": 'line_endings = "Unix"\nindent_type = "Tabs"\n', "unix/b.lua": body.replace("\n", "\r\n")}
    for order in (["win", "unix"], ["unix", "win"]):
        r = clireplay.run_cli(binp, files, ["--num-threads", "1"] + order)
        for pth, le, it, iw in (("win/a.lua", "\r\n", "Spaces", 3), ("unix/b.lua", "\n", "Tabs", 4)):
            out = r["after"][pth][0].decode("utf-8", "replace")
            v = whitespace_violation(mask_literals(out), le, it, iw)
            if v:
                return f"`stylua {' '.join(order)}` (per-directory stylua.toml): {pth}: {v}", {"argv": r["argv"], "file": pth, "output": out}
    return None, {}


def model_replay(kind, info):
    """replay the solver's text on the native build"""
    if "text" not in info:
        return None, {}
    text, k = info["text"], info.get("kind")
    if k == "SingleLineComment":
        src = "--" + text + "\nlocal x = 1\n"
    elif k == "Shebang":
        src = "#!" + text + "\nlocal x = 1\n"
    elif k == "MultiLineComment" and "]]" not in text:
        src = "--[[" + text + "]]\nlocal x = 1\n"
    elif k == "StringLiteral" and "]]" not in text:
        src = "local s = [[" + text + "]]\n"
    else:
        return None, {}
    binp = common.native_build("default")
    for le in ([info["line_endings"]] if "line_endings" in info else ["Unix", "Windows"]):
        flags = ["--line-endings", le]
        rc, out, err = common.run_stylua(binp, src, flags)
        if rc != 0:
            continue
        lend = "\n" if le == "Unix" else "\r\n"
        body = out.replace("\r\n", "\n") if le == "Windows" else out
        v = None
        if "\r" in body:
            v = "stray carriage return in the output"
        elif le == "Windows" and re.search(r"(?<!\r)\n", out):
            v = "bare line feed under Windows line endings"
        elif k in ("SingleLineComment", "Shebang"):
            first = body.split("\n")[0]
            if first != first.rstrip() or (first[-1:].isspace()):
                v = f"the comment line keeps trailing white space: {first!r}"
        if v:
            return v, {"source": src, "flags": flags, "output": out}
    return None, {}


def run(ses, rep):
    N = 6 if rep.tier == "quick" else 8
    rep.assumptions += ["input files are written with LF and/or CRLF line endings (a CR is always followed by LF); a single-line comment's text holds no LF and a CR only as its last character",
                        "TokenType::spaces(n) / tabs(n) produce n space / tab characters (full_moon)",
                        "bounded symbolic strings: texts of at most N characters over all code points"]
    rep.outside += ["that every layout path places an indent after each newline (the property's per-line claim) - only the sources of whitespace are decided here",
                    "white space inside comments and string literals other than line breaks", "texts longer than the bound"]
    flagged = []
    try:
        flagged += k1_k2(ses, rep)
    except Inconclusive as e:
        # the newline / indent constructors no longer compute their token from the configuration they are given (a cache?): files with different
        # settings formatted by one process say whether each still gets its own
        v, rec = replay_multi_config()
        if v:
            rep.add("constructors/read-the-configuration", rep.violation({"obligation": "constructors"}, {"what": str(e)[:200], "observed": v, "replay_kind": "multi-config", **rec}), v)
        else:
            rep.add("constructors/read-the-configuration", "inconclusive", f"{e}; directories with different line endings / indents still come out right in one run")
    flagged += k3(ses, rep, N)
    flagged += k4(ses, rep)
    flagged += k5(ses, rep)
    for fs in ("default", "full"):
        flagged += census(ses, rep, fs)
    flagged += adjacency(ses, rep, "full")
    rep.samples.append({"flagged": [(f[0], f[1]) for f in flagged][:8]})
    if not flagged:
        return
    fails = None
    for oid, what, kind, info in flagged:
        v, rec = model_replay(kind, info)
        if not v and kind == "text" and info.get("kind") in ("MultiLineComment", "StringLiteral"):
            v, rec = text_battery(info["kind"])
        if v:
            st = rep.violation({"obligation": kind, **{k: v_ for k, v_ in info.items() if k in ("kind", "line_endings")}}, {"what": what, "observed": v, **rec})
            rep.add(oid, st, f"{what}; native: {v}")
            continue
        if fails is None:
            fails = battery()
        if fails:
            v, rec = fails[0]
            st = rep.violation({"obligation": kind, **{k: v_ for k, v_ in info.items() if k in ("kind", "function", "line_endings", "indent_type")}},
                               {"what": what, "observed": v, **rec})
            rep.add(oid, st, f"{what}; native: {v}")
        else:
            rep.add(oid, "inconclusive", f"{what}: the whitespace battery shows no violation on the native build")


def fallback(rep):
    """kernels undecided: the whitespace battery and the text batteries are run; only reproduced violations are reported"""
    fails = battery()[:3]
    for kind in ("StringLiteral", "MultiLineComment"):
        v, rec = text_battery(kind)
        if v:
            fails.append((v, rec))
    v, rec = replay_multi_config()
    if v:
        fails.append((v, {"replay_kind": "multi-config", **rec}))
    for i, (v, rec) in enumerate(fails):
        st = rep.violation({"obligation": "battery-after-undecided-kernel", "n": i}, {"what": "kernel undecided; whitespace battery", "observed": v, **rec})
        rep.add(f"battery/{i}", st, v)


def replay(path):
    import json
    fails = battery()
    try:
        r = json.load(open(path))["replay"]
    except Exception:
        r = {}
    if not fails and "source" in r and "flags" in r:
        # the recorded program again (a solver-derived comment / long-string text), under the recorded flags
        fl = r["flags"]
        rc, out, err = common.run_stylua(common.native_build("default"), r["source"], fl)
        opt = lambda k, dflt: fl[fl.index(k) + 1] if k in fl else dflt
        le, it, iw = opt("--line-endings", "Unix"), opt("--indent-type", "Tabs"), int(opt("--indent-width", "4"))
        if rc == 0:
            v = whitespace_violation(mask_literals(out), "\n" if le == "Unix" else "\r\n", it, iw)
            first = (out.replace("\r\n", "\n") if le == "Windows" else out).split("\n")[0]
            if not v and r["source"].startswith(("--", "#!")) and not r["source"].startswith("--[") and first != first.rstrip():
                v = f"the comment line keeps trailing white space: {first!r}"
            if v:
                fails = [(v, {"flags": fl})]
    if not fails and r.get("replay_kind") == "multi-config":
        v, rec = replay_multi_config()
        if v:
            fails = [(v, {"flags": rec.get("argv")})]
    if not fails:
        for kind in ("StringLiteral", "MultiLineComment"):
            v, rec = text_battery(kind)
            if v:
                fails = [(v, {"flags": rec.get("flags")})]
                break
    for v, rec in fails[:5]:
        print(v, rec["flags"])
    if fails:
        print(f"VIOLATION property=C10 replay={path}")
        return 1
    print("whitespace battery: clean")
    return 0


if __name__ == "__main__":
    for v, rec in battery():
        print(v, rec["flags"], repr(rec["source"][:40]))

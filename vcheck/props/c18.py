"""C18 — diffs printed by `--check` reconstruct the formatted file (JSON line-range kernel only; DESIGN.md section 5).

Encoded (bin MIR): output_diff_json, one DiffOp of symbolic kind/indices/lengths. Environment = `similar`'s contract: iter_changes(op)
yields old_len Delete changes (the removed lines) followed by new_len Insert changes (the added lines); filter/map closures are
executed (their MIR) to see which changes they keep and what they extract.
Oracle: applying a mismatch as "replace original lines [original_start, original_end] by `expected`" (an empty `original` = insert
before original_start) yields the new lines: `expected` is the concatenation of ALL inserted lines, `original` of ALL removed lines,
and the end indices are start + len - 1.
"""
import os, json, re, z3

from .. import common, clireplay, clihooks
from ..common import Inconclusive
from ..mirsym import Sym, Str, Agg, Lazy, Ref, RefV, UNIT, derives_from, vkey
from ..summaries import canon, deref_val, opt_some, opt_none
from ..session import find_calls

TAGS = ["Equal", "Delete", "Insert"]


class Seq:
    """abstract change sequence: which tags are kept, whether values were extracted"""
    def __init__(self, op, tags, mapped=False):
        self.op, self.tags, self.mapped = op, frozenset(tags), mapped


def closure_keeps(ses, ex, cname, env=None):
    """tags for which a filter closure returns true (its MIR is executed with a symbolic tag and the captured values of the call)"""
    f = None
    for n_, l in ex.funcs.items():
        for g in l:
            if "{closure" in n_ and g.params and cname in g.params[0][1]:
                f = g
    if f is None:
        raise Inconclusive(f"closure {cname} not found")
    ses.report.fn(f)
    ex2 = ses.executor("bin", "default", inline=lambda n, fn: False)
    ex2.inline_closure_calls = True          # a predicate closure handed in as an argument (`keep(change.tag())`) is run as well
    tag = ex2.fresh_lazy("ChangeTag", "tag")

    def hook(ex_, st, callee, args, dty):
        if canon(callee).endswith("::tag"):
            return tag
        return NotImplemented
    ex2.hooks = [hook]
    ch = ex2.fresh_lazy("Change<&str>", "change")
    outs = ex2.run(f, [RefV(env if env is not None else ex2.fresh_lazy("closure", "env")), RefV(ch)])
    d = ex2.discr(None, tag)
    keep = set()
    for i, t in enumerate(TAGS):
        idx = ex2.enums.index("ChangeTag", t)
        for o in outs:
            if o.kind == "return" and isinstance(o.value, Sym):
                r, _ = ses.check(list(o.pc) + [d == z3.BitVecVal(idx, 64), o.value.t], 20)
                if r == "sat":
                    keep.add(t)
    return keep


def closure_extracts_value(ses, ex, cname):
    f = None
    for n_, l in ex.funcs.items():
        for g in l:
            if "{closure" in n_ and g.params and cname in g.params[0][1]:
                f = g
    if f is None:
        return False
    calls = [canon(s_[2]).split("::")[-1] for sts in f.blocks.values() for s_ in sts if s_[0] == "call"]
    return calls == ["value"] or calls == ["value", "to_string"] or calls == ["to_string_lossy"]


def local_helpers():
    """helper functions defined next to the diff printers are part of them (extracting one must not blind the kernel)"""
    src = open(os.path.join(common.REPO, "src/cli/output_diff.rs")).read()
    names = set(re.findall(r"\bfn\s+(\w+)", src)) - {"output_diff", "output_diff_json", "output_diff_unified", "fmt", "serialize"}
    types = set(re.findall(r"\bimpl(?:<[^>]*>)?\s+(\w+)\s*\{", src))
    def pred(n, f):
        n = re.sub(r"::<.*>$", "", n)          # call-site spelling with turbofish generics
        return ("{closure" not in n and len(f.blocks) <= 40 and re.split(r"::", n)[-1] in names
                and ("output_diff" in n or "::" not in n or n.split("::")[0] in types))
    return pred


def analyse(ses, rep):
    flagged = []
    ex = ses.executor("bin", "default", inline=local_helpers())
    T = ex.enums
    op = ex.fresh_lazy("DiffOp", "op")
    keeps = {}

    def hook(ex_, st, callee, args, dty):
        c = canon(callee)
        if re.search(r"IntoIter<Vec<DiffOp>> as Iterator>::next$", c):
            k = st.aux.get("g", 0); st.aux["g"] = k + 1
            return opt_some(dty, ex_.fresh_lazy("Vec<DiffOp>", "group")) if k == 0 else opt_none(dty)
        if re.search(r"IntoIter<DiffOp> as Iterator>::next$", c):
            k = st.aux.get("o", 0); st.aux["o"] = k + 1
            return opt_some(dty, op) if k == 0 else opt_none(dty)
        if c.endswith("Vec::is_empty") and "DiffOp" in callee:
            return Sym(z3.BoolVal(False), "bool")
        if c.endswith("TextDiff::iter_changes"):
            return _SeqV(Seq(deref_val(ex_, st, args[1]), TAGS))
        if re.search(r"as Iterator>::filter$", c) and isinstance(args[0], _SeqV):
            cm = re.search(r"filter::<(\{closure@[^}]*\})>", callee)
            if not cm:
                return NotImplemented
            env = deref_val(ex_, st, args[1])
            if isinstance(env, Agg) and env.fields:        # captured values, detached from the caller's frame
                env = Agg(env.ty, env.variant, [RefV(deref_val(ex_, st, f_)) if isinstance(f_, (Ref, RefV)) else f_ for f_ in env.fields], env.names)
            else:
                env = None
            ck = (cm.group(1), repr(env))
            if ck not in keeps:
                keeps[ck] = closure_keeps(ses, ex_, cm.group(1), env)
            return _SeqV(Seq(args[0].seq.op, args[0].seq.tags & keeps[ck], args[0].seq.mapped))
        if re.search(r"as Iterator>::map$", c) and isinstance(args[0], _SeqV):
            cm = re.search(r"map::<[^{]*(\{closure@[^}]*\})>", callee)
            ok = cm is not None and closure_extracts_value(ses, ex_, cm.group(1))
            if not ok:
                return NotImplemented
            return _SeqV(Seq(args[0].seq.op, args[0].seq.tags, True))
        if re.search(r"as Iterator>::collect$", c) and isinstance(args[0], _SeqV):
            return _StrV("concat", args[0].seq)
        if re.search(r"as Iterator>::next$", c) and isinstance(deref_val(ex_, st, args[0]), _SeqV):
            sq = deref_val(ex_, st, args[0]).seq
            return opt_some(dty, _StrV("first-change", sq))      # similar never emits an op without changes
        if c.endswith("String::new"):
            return Str("")
        if re.search(r"as ToString>::to_string$", c) or c.endswith("::value") or c.endswith("to_string_lossy") or re.search(r"<.* as (Into|From)<.*>>::(into|from)$", c):
            v = deref_val(ex_, st, args[0])
            if isinstance(v, _StrV):
                return _StrV("first" if v.kind.startswith("first") else v.kind, v.seq)
            if isinstance(v, Str):
                return v
        return NotImplemented
    ex.hooks = [hook]
    ex.max_block_visits = 3
    fn = ses.need(ex, "output_diff_json")
    outs = ex.run(fn, [ex.fresh_lazy("&str", "old"), ex.fresh_lazy("&str", "new")])
    d = ex.discr(None, op)
    ORDER = {v[0]: [f[0] for f in v[2]] for v in T.variants("DiffOp")}
    one = z3.BitVecVal(1, 64)
    n = 0
    for pi, o in enumerate(outs):
        if o.kind != "return":
            continue
        for pu in find_calls(o.trace, lambda x: re.search(r"Vec::push$", x) is not None):
            mm = deref_val(ex, o.state, pu[1][1])
            if not (isinstance(mm, Agg) and mm.names and "original_start_line" in mm.names):
                continue
            n += 1
            rec = dict(zip(mm.names, mm.fields))
            kind = None
            for variant in ("Replace", "Delete", "Insert"):
                idx = T.index("DiffOp", variant)
                if ses.reachable(list(o.pc) + [d == z3.BitVecVal(idx, 64)]) and not ses.reachable(list(o.pc) + [d != z3.BitVecVal(idx, 64)]):
                    kind = variant
            if kind is None:
                raise Inconclusive("a mismatch is pushed on a path that does not fix the DiffOp kind")
            flds = {}
            for (oid_, key), val in ex.lazy_tab.items():
                if oid_ == op.oid and key[0] == "vfield" and key[1] == kind and isinstance(val, Sym):
                    flds[key[2]] = val.t
            F = {nm: flds.get(i) for i, nm in enumerate(ORDER[kind])}
            for nm in F:
                if F[nm] is None:      # a field the code never reads: still part of the op
                    F[nm] = z3.BitVec(f"op.{kind}.{nm}", 64)
            bounds = [z3.ULT(x, z3.BitVecVal(2 ** 32, 64)) for x in F.values()] + [z3.UGE(F[k_], one) for k_ in ("old_len", "new_len") if k_ in F]
            want_orig = {"Replace": {"Delete"}, "Delete": {"Delete"}, "Insert": set()}[kind]
            want_exp = {"Replace": {"Insert"}, "Delete": set(), "Insert": {"Insert"}}[kind]
            present = {"Replace": {"Delete", "Insert"}, "Delete": {"Delete"}, "Insert": {"Insert"}}[kind]     # tags iter_changes(op) yields
            for fname, want in (("original", want_orig), ("expected", want_exp)):
                v = deref_val(ex, o.state, rec[fname])
                oid = f"json/{kind}/path{pi}/{fname}-is-all-{'+'.join(sorted(want)) or 'nothing'}-lines"
                if not want:
                    ok_term = z3.BoolVal(isinstance(v, Str) and v.s == "")
                elif isinstance(v, _StrV):
                    tags_ok = (v.seq.tags & present) == want
                    if v.kind == "concat":
                        ok_term = z3.BoolVal(tags_ok)
                    else:       # only the first change of the sequence: right iff there is exactly one such line
                        ok_term = z3.And(z3.BoolVal(tags_ok), F["old_len" if "Delete" in want else "new_len"] == one)
                else:
                    ok_term = z3.BoolVal(False)
                r, m = ses.obligation(oid, list(o.pc) + bounds, z3.Not(ok_term), "the text carried by the mismatch is the concatenation of all removed / added lines")
                if r == "sat":
                    ln = m.eval(F.get("old_len" if "Delete" in want else "new_len", one), model_completion=True)
                    flagged.append((oid, f"{kind} op with {ln} lines: `{fname}` holds {v!r}, not all of its {'/'.join(sorted(want)) or 'no'} lines",
                                    "json-text", {"kind": kind, "field": fname}))
            want_n = {"original_start_line": F["old_index"], "expected_start_line": F["new_index"]}
            want_n["original_end_line"] = F["old_index"] + F["old_len"] - one if "old_len" in F else F["old_index"]
            want_n["expected_end_line"] = F["new_index"] + F["new_len"] - one if "new_len" in F else F["new_index"]
            bad = []
            for k_, w in want_n.items():
                got = deref_val(ex, o.state, rec[k_])
                bad.append(got.t != w if isinstance(got, Sym) else z3.BoolVal(True))
            r, m = ses.obligation(f"json/{kind}/path{pi}/line-numbers", list(o.pc) + bounds, z3.Or(bad), "start = index, end = index + len - 1")
            if r == "sat":
                flagged.append((f"json/{kind}/path{pi}/line-numbers", f"{kind} op: line range is not index .. index+len-1", "json-lines", {"kind": kind}))
        # no arithmetic panic within the bounds
    for pi, o in enumerate(outs):
        if o.kind == "panic":
            r, _ = ses.check(list(o.pc) + [z3.ULT(v.t, z3.BitVecVal(2 ** 32, 64)) for (oid_, key), v in ex.lazy_tab.items() if oid_ == op.oid and isinstance(v, Sym)]
                             + [z3.UGE(v.t, one) for (oid_, key), v in ex.lazy_tab.items() if oid_ == op.oid and isinstance(v, Sym) and key[0] == "vfield"
                                and ORDER[key[1]][key[2]].endswith("_len")], 30)
            rep.add(f"json/no-panic/path{pi}", "unsat" if r == "unsat" else "inconclusive" if r == "unknown" else "sat", str(o.value)[:80])
            if r == "sat":
                flagged.append((f"json/no-panic/path{pi}", f"output_diff_json panics: {o.value}", "json-panic", {}))
    rep.bounds["mismatch_sites"] = n
    rep.bounds["indices_and_lengths_below"] = 2 ** 32
    rep.bounds["ops_per_run"] = 1
    if n < 3:
        raise Inconclusive(f"output_diff_json: only {n} mismatch construction sites recognised")
    return flagged


class _SeqV:
    def __init__(self, seq):
        self.seq = seq


class _StrV:
    def __init__(self, kind, seq):
        self.kind, self.seq = kind, seq

    def __repr__(self):
        return f"StrV({self.kind},{sorted(self.seq.tags)})"


def wiring(ses, rep):
    """create_diff passes (original, expected) in that order to the producer selected by --output-format; format_file / format_string
    pass (text read, text produced by format_code)."""
    from . import c14
    flagged = []
    ex = ses.executor("bin", "default", hooks=c14.HOOKS, inline=lambda n_, f: False)
    fn = ses.need(ex, "create_diff")
    args = [RefV(ex.fresh_lazy(t.lstrip("&"), p)) if t.startswith("&") and t != "&str" else ex.fresh_lazy(t, p) for p, t in fn.params]
    orig, exp = args[1], args[2]
    PRODUCER = {"Standard": "output_diff", "Unified": "output_diff_unified", "Json": "output_diff_json", "Summary": None}
    optf = ex.enums.field_index("Opt", "output_format")
    seen = set()
    for pi, o in enumerate(ex.run(fn, args)):
        if o.kind != "return":
            continue
        ofv = ex.lazy_tab.get((args[0].v.oid, ("field", optf)))
        if ofv is None:
            raise Inconclusive("create_diff does not read opt.output_format")
        d = ex.discr(o.state, ofv)
        fmt = [v for i, v in enumerate(x[0] for x in ex.enums.variants("OutputFormat"))
               if ses.reachable(list(o.pc) + [d == z3.BitVecVal(i, 64)])]
        if len(fmt) != 1:
            raise Inconclusive(f"create_diff path {pi} does not fix the output format: {fmt}")
        fmt = fmt[0]
        seen.add(fmt)
        calls = find_calls(o.trace, lambda n_: n_.split("::")[-1] in ("output_diff", "output_diff_unified", "output_diff_json"))
        eqs = find_calls(o.trace, lambda n_: re.search(r"PartialEq.*::(eq|ne)$", n_) is not None)
        oid = f"create_diff/path{pi}/{fmt}/producer-and-argument-order"
        if PRODUCER[fmt] is None:
            ok = not calls and len(eqs) == 1 and {id(deref_val(ex, o.state, x)) for x in eqs[0][1]} == {id(orig), id(exp)}
        else:
            ok = len(calls) == 1 and calls[0][0].split("::")[-1] == PRODUCER[fmt] and calls[0][1][0] is orig and calls[0][1][1] is exp
            if ok and fmt != "Json":
                ok = o.value is calls[0][2]        # the producer's result is returned as is
        r, m = ses.obligation(oid, list(o.pc), z3.BoolVal(not ok), "the selected producer receives (original, expected)")
        if r == "sat":
            flagged.append((oid, f"--output-format {fmt}: create_diff does not hand (original, expected) to {PRODUCER[fmt] or 'the comparison'}",
                            "wiring", {"format": fmt}))
    if seen != set(PRODUCER):
        raise Inconclusive(f"create_diff: output formats reached {sorted(seen)}")
    for caller in ("format_file", "format_string"):
        fn = ses.need(ex, caller)
        args = [RefV(ex.fresh_lazy(t.lstrip("&"), p)) if t.startswith("&") else ex.fresh_lazy(t, p) for p, t in fn.params]
        n = 0
        for pi, o in enumerate(ex.run(fn, args)):
            cd = find_calls(o.trace, lambda n_: n_.split("::")[-1] == "create_diff")
            fc = find_calls(o.trace, lambda n_: n_.split("::")[-1] == "format_code")
            if not cd:
                continue
            n += 1
            a_orig, a_exp = cd[-1][1][1], cd[-1][1][2]
            ok = bool(fc)
            if not fc:
                # skipped input (--respect-ignores on stdin): the "formatted" text is a clone of the input, nothing else
                # (String::clone is summarised as the identity on immutable values)
                ok = vkey(deref_val(ex, o.state, a_exp)) == vkey(deref_val(ex, o.state, a_orig)) and derives_from(ex, a_orig, args[0].oid, 0, o.state)
            else:
                res = fc[-1][2]
                src = fc[-1][1][0]
                ok = (derives_from(ex, a_exp, res.oid, 0, o.state) and not derives_from(ex, a_orig, res.oid, 0, o.state)
                      and vkey(deref_val(ex, o.state, a_orig)) == vkey(deref_val(ex, o.state, src)))
            oid = f"{caller}/path{pi}/create_diff(original=input,expected=format_code-result)"
            r, m = ses.obligation(oid, list(o.pc), z3.BoolVal(not ok), "diff is taken from the text read to the text format_code returned")
            if r == "sat":
                flagged.append((oid, f"{caller}: create_diff is not called with (input text, formatted text)", "wiring", {"format": "any"}))
        if n == 0:
            raise Inconclusive(f"{caller}: no path calls create_diff")
    return flagged


def nodiff(ses, rep):
    """no diff is printed iff the texts are equal: each producer's `nothing to report` test is exact.
    unified: returns None iff similar's ratio() is EXACTLY 1.0 (IEEE f32 comparison, ratio symbolic);
    standard: None iff the grouped-ops iterator is empty; json: None iff grouped_ops is empty."""
    flagged = []
    specs = [("output_diff_unified", r"TextDiff::ratio$", "ratio"), ("output_diff", r"Peekable::peek$", "peek"), ("output_diff_json", r"Vec::is_empty$", "empty")]
    for fname, pat, how in specs:
        ex = ses.executor("bin", "default", inline=lambda n_, f_: False)
        ex.max_block_visits = 1
        probe = {}

        def h(ex_, st, callee, args, dty, probe=probe, pat=pat, how=how):
            c = canon(callee)
            if re.search(pat, c) and "v" not in probe:
                if how == "ratio":
                    probe["v"] = Sym(z3.FP("ratio", z3.Float32()), "f32")
                elif how == "empty":
                    probe["v"] = Sym(z3.Bool("grouped_ops_is_empty"), "bool")
                else:
                    return NotImplemented
                return probe["v"]
            return NotImplemented
        ex.hooks = [h]
        fn = ses.need(ex, fname)
        args = [ex.fresh_lazy(t, p) if t == "&str" or not t.startswith("&") else RefV(ex.fresh_lazy(t.lstrip("&"), p)) for p, t in fn.params]
        outs = ex.run(fn, args)
        # the diff is taken over the two texts as given (a producer that rewrites them first can call different texts equal)
        strs = [a for a, (p_, t_) in zip(args, fn.params) if t_ == "&str"][:2]
        seen_fl = False
        for pi, o in enumerate(outs):
            for c_ in find_calls(o.trace, lambda x: x.endswith("TextDiff::from_lines")):
                seen_fl = True
                same = len(c_[1]) >= 2 and len(strs) == 2 and all(c_[1][i_] is strs[i_] or (isinstance(c_[1][i_], Lazy) and vkey(c_[1][i_]) == vkey(strs[i_])) for i_ in (0, 1))
                oid = f"nodiff/{fname}/path{pi}/diff-of-the-texts-as-given"
                r, m = ses.obligation(oid, list(o.pc), z3.BoolVal(not same), "TextDiff::from_lines(old, new) on the parameters themselves")
                if r == "sat":
                    flagged.append((oid, f"{fname} diffs rewritten copies of the two texts: texts that differ (line endings, white space) can compare equal", "nodiff",
                                    {"format": {"output_diff_unified": "unified", "output_diff": "standard", "output_diff_json": "json"}[fname], "missed": True, "rewritten": True}))
                break
        if not seen_fl:
            raise Inconclusive(f"{fname} does not build its diff with TextDiff::from_lines")
        n = 0
        for pi, o in enumerate(outs):
            if o.kind != "return":
                continue
            v = deref_val(ex, o.state, o.value)
            inner = v.fields[0] if isinstance(v, Agg) and v.variant == "Ok" else v if isinstance(v, Agg) and v.variant in ("None", "Some") else None
            inner = deref_val(ex, o.state, inner) if inner is not None else None
            if not isinstance(inner, Agg):
                continue
            none = inner.variant == "None"
            if how == "ratio":
                if "v" not in probe:      # the test does not go through ratio(): decide it over a model of the op list instead
                    return flagged + nodiff_ops_model(ses, rep, fname)
                r_ = probe["v"].t
                one = z3.FPVal(1.0, z3.Float32())
                dom = [z3.Not(z3.fpIsNaN(r_)), z3.fpGEQ(r_, z3.FPVal(0.0, z3.Float32())), z3.fpLEQ(r_, one)]
                same = z3.fpEQ(r_, one)
            elif how == "empty":
                if "v" not in probe:
                    raise Inconclusive("output_diff_json does not test grouped_ops.is_empty()")
                dom, same = [], probe["v"].t
            else:
                pk = find_calls(o.trace, lambda x: re.search(pat, x) is not None)
                if not pk:
                    continue
                dom, same = [], ex.discr(o.state, pk[0][2]) == z3.BitVecVal(0, 64)
            n += 1
            oid = f"nodiff/{fname}/path{pi}/{'None' if none else 'Some'}-iff-{'no' if none else 'a'}-change"
            r, m = ses.obligation(oid, list(o.pc) + dom, z3.Not(same) if none else same,
                                  "`nothing to report` is returned exactly when the diff engine reports no change")
            if r == "sat":
                what = (f"{fname} reports no difference although the texts differ" if none else f"{fname} prints a diff for identical texts")
                if how == "ratio" and none:
                    what += f" (similarity ratio {m.eval(r_)})"
                flagged.append((oid, what, "nodiff", {"format": {"output_diff_unified": "unified", "output_diff": "standard", "output_diff_json": "json"}[fname], "missed": none}))
        if n == 0:
            raise Inconclusive(f"{fname}: no path returns Some/None")
    return flagged

class _ItV:
    """iterator over the modelled op list with the closures applied so far"""
    def __init__(self, stages=()):
        self.stages = tuple(stages)


K_OPS = 3


def nodiff_ops_model(ses, rep, fname="output_diff_unified"):
    """the `nothing to report` test of a producer that looks at similar's op list instead of ratio(): the diff is modelled as up to K_OPS
    DiffOps of symbolic kind and lengths under similar's contract (ops partition both texts in order; an op is never empty; `Equal` covers
    the same number of lines on both sides); iterator adaptors over the ops run the closures' MIR on every modelled op.
    Oracle: None is returned iff every op is `Equal`."""
    flagged = []
    ex = ses.executor("bin", "default", inline=local_helpers())
    ex.max_block_visits = 1
    T = ex.enums
    ORDER = {v[0]: [f[0] for f in v[2]] for v in T.variants("DiffOp")}
    ops = [ex.fresh_lazy("DiffOp", f"op{i}") for i in range(K_OPS)]
    n_ops = z3.BitVec("n_ops", 64)
    tot = {"old": z3.BitVec("old_lines", 64), "new": z3.BitVec("new_lines", 64)}
    zero, one = z3.BitVecVal(0, 64), z3.BitVecVal(1, 64)
    used = set()

    def closure_fn(cname):
        for n_, l in ex.funcs.items():
            for g in l:
                if "{closure" in n_ and g.params and cname in g.params[0][1]:
                    return g
        raise Inconclusive(f"closure {cname} not found")

    def apply(stages, op, st):
        """-> [(cond, value or None)] : the item(s) the adaptor chain yields for `op` (None = filtered out)"""
        cur = [([], RefV(op))]
        for kind, g, env in stages:
            nxt = []
            for pc, v in cur:
                if v is None:
                    nxt.append((pc, None)); continue
                a2 = RefV(v) if kind == "filter" else v
                outs = ex.run(g, [RefV(env), a2], _nested=True)
                for o in outs:
                    if o.kind != "return":
                        raise Inconclusive(f"closure {g.name}: {o.kind}")
                    r = deref_val(ex, o.state, o.value)
                    if kind == "filter":
                        if not isinstance(r, Sym):
                            raise Inconclusive("filter closure result")
                        nxt.append((pc + list(o.pc) + [r.t], v)); nxt.append((pc + list(o.pc) + [z3.Not(r.t)], None))
                    else:
                        nxt.append((pc + list(o.pc), r))
            cur = nxt
        return cur

    def hook(ex_, st, callee, args, dty):
        c = canon(callee)
        if c.endswith("TextDiff::ops"):
            used.add("ops")
            return RefV(_ItV())
        m_ = re.search(r"TextDiff::(old|new)_slices$", c)
        if m_:
            used.add(m_.group(1))
            v = ex_.fresh_lazy(dty.lstrip("&"), m_.group(1) + "_slices")
            ex_.lazy_tab[(v.oid, ("len",))] = Sym(tot[m_.group(1)], "usize")
            return RefV(v)
        a0 = deref_val(ex_, st, args[0]) if args else None
        if isinstance(a0, _ItV):
            if re.search(r"::(iter|into_iter)$", c):
                return a0
            if re.search(r"(<\[DiffOp\]>|Vec)::len$", c) or c.endswith("ExactSizeIterator>::len"):
                return Sym(n_ops, "usize")
            if re.search(r"(<\[DiffOp\]>|Vec)::is_empty$", c):
                return Sym(n_ops == zero, "bool")
            ad = re.search(r"as Iterator>::(map|filter|all|any|sum|count)(?:::<(.*)>)?$", callee)
            if not ad:
                raise Inconclusive(f"iterator adaptor {c} over the diff ops is not modelled")
            cm = re.search(r"(\{closure@[^}]*\})>$", callee)
            how = ad.group(1)
            if how in ("map", "filter", "all", "any"):
                if not cm:
                    raise Inconclusive(f"{how} without a closure")
                env = deref_val(ex_, st, args[1]) if len(args) > 1 else None
                if isinstance(env, Agg) and env.fields:
                    env = Agg(env.ty, env.variant, [RefV(deref_val(ex_, st, f_)) if isinstance(f_, (Ref, RefV)) else f_ for f_ in env.fields], env.names)
                elif not isinstance(env, Agg):
                    env = ex_.fresh_lazy("closure", "env")
                stage = ("filter" if how == "filter" else "map", closure_fn(cm.group(1)), env)
                if how in ("map", "filter"):
                    return _ItV(a0.stages + (stage,))
                stages = a0.stages + (stage,)
            else:
                stages = a0.stages
            acc = z3.BoolVal(how == "all") if how in ("all", "any") else zero
            for i, op in enumerate(ops):
                act = z3.ULT(z3.BitVecVal(i, 64), n_ops)
                for pc, v in apply(stages, op, st):
                    cond = z3.And([act] + pc)
                    if how == "count":
                        acc = acc + z3.If(z3.And(cond, z3.BoolVal(v is not None)), one, zero)
                    elif v is None:
                        continue
                    elif how == "sum":
                        acc = acc + z3.If(cond, ex_.as_bv(v), zero)
                    elif how == "all":
                        acc = z3.And(acc, z3.Implies(cond, v.t))
                    else:
                        acc = z3.Or(acc, z3.And(cond, v.t))
            return Sym(acc, "bool" if how in ("all", "any") else "usize")
        return NotImplemented
    ex.hooks = [hook]
    fn = ses.need(ex, fname)
    outs = ex.run(fn, [ex.fresh_lazy("&str", "old"), ex.fresh_lazy("&str", "new")])
    if "ops" not in used:
        raise Inconclusive(f"{fname} consults neither TextDiff::ratio nor TextDiff::ops")
    # similar's contract over the modelled ops
    D = [ex.discr(None, op) for op in ops]
    idx = {k: z3.BitVecVal(T.index("DiffOp", k), 64) for k in ORDER}
    lim = z3.BitVecVal(2 ** 20, 64)

    def fld(i, kind, name):
        j = ORDER[kind].index(name)
        v = ex.lazy_tab.get((ops[i].oid, ("vfield", kind, j)))
        return v.t if isinstance(v, Sym) else z3.BitVec(f"op{i}.{kind}.{name}", 64)
    contract = [z3.ULE(n_ops, z3.BitVecVal(K_OPS, 64))]
    so, sn = zero, zero
    for i in range(K_OPS):
        act = z3.ULT(z3.BitVecVal(i, 64), n_ops)
        contract.append(z3.ULT(D[i], z3.BitVecVal(len(ORDER), 64)))
        ol = z3.If(D[i] == idx["Equal"], fld(i, "Equal", "len"), z3.If(D[i] == idx["Delete"], fld(i, "Delete", "old_len"),
             z3.If(D[i] == idx["Replace"], fld(i, "Replace", "old_len"), zero)))
        nl = z3.If(D[i] == idx["Equal"], fld(i, "Equal", "len"), z3.If(D[i] == idx["Insert"], fld(i, "Insert", "new_len"),
             z3.If(D[i] == idx["Replace"], fld(i, "Replace", "new_len"), zero)))
        for kind in ORDER:
            for name in ORDER[kind]:
                x = fld(i, kind, name)
                contract.append(z3.ULT(x, lim))
                if name.endswith("len"):
                    contract.append(z3.Implies(D[i] == idx[kind], z3.UGE(x, one)))
                if name in ("old_index", "new_index"):
                    contract.append(z3.Implies(z3.And(act, D[i] == idx[kind]), x == (so if name == "old_index" else sn)))
        if i:
            contract.append(z3.Implies(act, z3.Not(z3.And(D[i] == idx["Equal"], D[i - 1] == idx["Equal"]))))
        so = so + z3.If(act, ol, zero)
        sn = sn + z3.If(act, nl, zero)
    contract += [tot["old"] == so, tot["new"] == sn]
    same = z3.And([z3.Implies(z3.ULT(z3.BitVecVal(i, 64), n_ops), D[i] == idx["Equal"]) for i in range(K_OPS)])
    n = 0
    for pi, o in enumerate(outs):
        if o.kind != "return":
            continue
        v = deref_val(ex, o.state, o.value)
        inner = v.fields[0] if isinstance(v, Agg) and v.variant == "Ok" else v if isinstance(v, Agg) and v.variant in ("None", "Some") else None
        inner = deref_val(ex, o.state, inner) if inner is not None else None
        if not isinstance(inner, Agg):
            continue
        none = inner.variant == "None"
        n += 1
        oid = f"nodiff/{fname}/ops-model/path{pi}/{'None' if none else 'Some'}-iff-{'no' if none else 'a'}-change"
        r, m = ses.obligation(oid, list(o.pc) + contract, z3.Not(same) if none else same,
                              "`nothing to report` is returned exactly when every op of the diff is Equal")
        if r == "sat":
            kinds = [next((k for k in ORDER if m.eval(D[i], model_completion=True).as_long() == idx[k].as_long()), "?") for i in range(m.eval(n_ops, model_completion=True).as_long())]
            what = (f"{fname} reports no difference for a diff with ops {kinds}" if none else f"{fname} prints a diff although every op is Equal (ops {kinds})")
            flagged.append((oid, what, "nodiff", {"format": {"output_diff_unified": "unified", "output_diff": "standard", "output_diff_json": "json"}[fname], "missed": none, "ops": kinds}))
    if n == 0:
        raise Inconclusive(f"{fname}: no path returns Some/None")
    rep.bounds["ops_model_max_ops"] = K_OPS
    rep.bounds["ops_model_lines_below"] = 2 ** 20
    return flagged


def big_file_replay(fmt):
    """a 150000-line file with one unformatted line: the diff must not vanish"""
    binp = common.native_build("default")
    n = 150000
    src = "".join(f"local v{i} = {i}\n" if i != n // 2 else f"local v{i}   =   {i}\n" for i in range(n))
    r = clireplay.run_cli(binp, {"big.lua": src}, ["--check", "--output-format", fmt, "big.lua"], timeout=300)
    if r["rc"] == 0 and not r["out"].strip():
        return f"--check --output-format {fmt} prints nothing and exits 0 for a {n}-line file whose line {n // 2 + 1} is not formatted", {"argv": r["argv"], "rc": r["rc"], "lines": n}
    return None, {}


# ------------------------------------------------------------------------------------------------ replay
def apply_mismatches(orig_lines, mismatches):
    out = []
    i = 0
    for mm in sorted(mismatches, key=lambda x: (x["original_start_line"], x["original"] != "")):
        s_, e_ = mm["original_start_line"], mm["original_end_line"]
        out += orig_lines[i:s_]
        exp = mm["expected"].splitlines(True)
        if mm["original"] == "":
            out += exp
            i = s_
        else:
            out += exp
            i = e_ + 1
    out += orig_lines[i:]
    return "".join(out)


def apply_unified(orig, diff):
    """the checker's own patcher for `--- old / +++ new / @@ -a,b +c,d @@` diffs"""
    ol = orig.splitlines(True)
    out, i = [], 0
    lines = diff.splitlines(True)
    k = 0
    while k < len(lines) and not lines[k].startswith("@@"):
        k += 1
    while k < len(lines):
        m = re.match(r"@@ -(\d+)(?:,(\d+))? \+(\d+)(?:,(\d+))? @@", lines[k])
        if not m:
            raise ValueError(f"bad hunk header {lines[k]!r}")
        a0, alen = int(m.group(1)), int(m.group(2) if m.group(2) is not None else 1)
        start = a0 - 1 if alen else a0
        if start < i:
            raise ValueError("overlapping hunks")
        out += ol[i:start]
        i = start
        k += 1
        last = None
        while k < len(lines) and not lines[k].startswith("@@"):
            ln = lines[k]
            if ln.startswith("\\"):
                if last == "out" or last == "both":
                    out[-1] = out[-1].rstrip("\r\n") if out[-1].endswith("\n") else out[-1]
                if last == "old":
                    pass
            elif ln[0] == " ":
                if i >= len(ol) or ol[i].rstrip("\n") != ln[1:].rstrip("\n"):
                    raise ValueError(f"context line {ln!r} does not match original line {i}")
                out.append(ln[1:]); i += 1; last = "both"
            elif ln[0] == "-":
                if i >= len(ol) or ol[i].rstrip("\n") != ln[1:].rstrip("\n"):
                    raise ValueError(f"removed line {ln!r} does not match original line {i}")
                i += 1; last = "old"
            elif ln[0] == "+":
                out.append(ln[1:]); last = "out"
            else:
                raise ValueError(f"bad diff line {ln!r}")
            k += 1
    out += ol[i:]
    return "".join(out)


def check_standard(orig, formatted, text):
    """the human-readable format: every shown line is where it says it is, and what is not shown as removed / added is common"""
    ol, fl = orig.split("\n"), formatted.split("\n")
    if orig.endswith("\n"): ol.pop()
    if formatted.endswith("\n"): fl.pop()
    rem, add = set(), set()
    for ln in text.splitlines():
        m = re.match(r"^(\d*) +(\d*) *\|([-+ ])(.*)$", ln)
        if not m:
            continue
        o_, n_, sign, txt = m.groups()
        if sign in "- " and (not o_ or int(o_) - 1 >= len(ol) or ol[int(o_) - 1].rstrip("\r") != txt.rstrip("\r")):
            return f"line {ln!r} is not original line {o_}"
        if sign in "+ " and (not n_ or int(n_) - 1 >= len(fl) or fl[int(n_) - 1].rstrip("\r") != txt.rstrip("\r")):
            return f"line {ln!r} is not formatted line {n_}"
        if sign == "-": rem.add(int(o_) - 1)
        if sign == "+": add.add(int(n_) - 1)
    if [l for i, l in enumerate(ol) if i not in rem] != [l for i, l in enumerate(fl) if i not in add]:
        return "the lines not marked -/+ differ between the original and the formatted file"
    return None


R = lambda n: f'local {n} = require("{n}")\n'
CASES = [
    ("moved-block", R("c") + R("d") + R("a") + R("b"), ["--sort-requires"]),
    ("two-hunks", "local   x = 1\nlocal y = 2\nlocal   z = 3\n", []),
    ("delete-lines", "local x = 1\n\n\n\nlocal y = 2\n", []),
    ("split-line", "if a then b() end\nprint(1)\n", []),
    ("join-lines", "local t = {\n1,\n2,\n}\nprint(1)\n", []),
    ("first-and-last", "local   a = 1\nlocal b = 2\nlocal   c = 3", []),
    ("no-final-newline", "local a = 1\nlocal b = 2", []),
    ("crlf", "local   a = 1\r\nlocal b = 2\r\n", []),
    ("crlf-to-crlf", "local   a = 1\r\nlocal b = 2\r\nlocal   c = 3\r\n", ["--line-endings", "Windows"]),
    ("lf-to-crlf", "local   a = 1\nlocal b = 2\n", ["--line-endings", "Windows"]),
    ("crlf-to-lf", "local   a = 1\r\nlocal b = 2\r\n", ["--line-endings", "Unix"]),
    ("already-formatted", "local a = 1\n", []),
    ("crlf-only", "local a = 1\r\nlocal b = 2\r\n", []),
    ("lf-only-under-windows", "local a = 1\nlocal b = 2\n", ["--line-endings", "Windows"]),
    ("drifted-insert", "local t = {\n  1, 2 }\n" + R("b") + R("a") + "\nprint(a, b, t)\n", ["--sort-requires"]),
    ("insert-at-end", R("c") + R("a") + R("b"), ["--sort-requires"]),
    ("insert-at-end-after-code", "print(1)\n\n" + R("z") + R("m") + R("n"), ["--sort-requires"]),
    ("insert-at-end-no-final-newline", R("c") + R("a") + 'local b = require("b")', ["--sort-requires"]),
    ("moved-block-2", R("e") + R("f") + R("g") + R("a") + R("b") + R("c"), ["--sort-requires"]),
]


def battery():
    """-> [(kinds, scenario, message, record)]; kinds = the obligation kinds a failure confirms"""
    binp = common.native_build("default")
    fails = []
    for name, src, flags in CASES:
        r = clireplay.run_cli(binp, {"f.lua": src}, ["--check", "--output-format", "json"] + flags + ["f.lua"])
        w = clireplay.run_cli(binp, {"f.lua": src}, flags + ["f.lua"])
        formatted = w["after"]["f.lua"][0].decode()
        rec = {"source": src, "flags": flags, "json": r["out"][:1500], "formatted": formatted}
        if formatted == src:
            if r["out"].strip():
                fails.append(({"any"}, name, f"scenario {name}: a diff is printed for a formatted file", rec))
            continue
        try:
            doc = json.loads(r["out"])
        except Exception:
            fails.append(({"any", "json-panic"}, name, f"scenario {name}: JSON output not parseable: {r['out'][:200]!r} {r['err'][:200]!r}", rec))
            continue
        ol, fl = src.splitlines(True), formatted.splitlines(True)
        local = False
        for mm in doc["mismatches"]:
            kind = "Insert" if mm["original"] == "" else "Delete" if mm["expected"] == "" else "Replace"
            if kind != "Insert":
                want = "".join(ol[mm["original_start_line"]:mm["original_end_line"] + 1])
                if mm["original"] != want:
                    local = True
                    fails.append(({("json-text", kind, "original"), ("json-lines", kind)}, name,
                                  f"scenario {name}: {kind} mismatch: `original` {mm['original']!r} is not the text {want!r} of original lines "
                                  f"{mm['original_start_line']}..{mm['original_end_line']}", rec))
            if kind != "Delete":
                want = "".join(fl[mm["expected_start_line"]:mm["expected_end_line"] + 1])
                if mm["expected"] != want:
                    local = True
                    fails.append(({("json-text", kind, "expected"), ("json-lines", kind)}, name,
                                  f"scenario {name}: {kind} mismatch: `expected` {mm['expected']!r} is not the text {want!r} of formatted lines "
                                  f"{mm['expected_start_line']}..{mm['expected_end_line']}", rec))
        got = apply_mismatches(ol, doc["mismatches"])
        if got != formatted and not local:
            fails.append(({("wiring", "Json"), "any"}, name, f"scenario {name}: applying the JSON mismatches gives {got!r}, the formatted file is {formatted!r}", rec))
        # the same text through stdin: the same mismatches, the same unified diff
        rs = clireplay.run_cli(binp, {}, ["--check", "--output-format", "json"] + flags + ["-"], stdin=src)
        try:
            ds = json.loads(rs["out"])
            gs = apply_mismatches(ol, ds["mismatches"])
        except Exception:
            gs = None
        if gs != formatted:
            fails.append(({("wiring", "Json"), ("wiring", "any"), "any"}, name, f"scenario {name} (stdin): applying the JSON mismatches printed for stdin gives {gs!r}, the formatted text is {formatted!r}",
                          {"source": src, "flags": flags + ["-"], "json": rs["out"][:1500], "formatted": formatted}))
        ru = clireplay.run_cli(binp, {}, ["--check", "--output-format", "unified"] + flags + ["-"], stdin=src)
        try:
            gu = apply_unified(src, ru["out"])
        except ValueError as e:
            gu = f"<{e}>"
        if gu != formatted:
            fails.append(({("wiring", "Unified"), ("wiring", "any"), "any"}, name, f"scenario {name} (stdin): applying the unified diff printed for stdin gives {gu!r}, the formatted text is {formatted!r}",
                          {"source": src, "flags": flags + ["-"], "stdout": ru["out"][:1500], "formatted": formatted}))
    for name, src, flags in CASES:
        w = clireplay.run_cli(binp, {"f.lua": src}, flags + ["f.lua"])
        formatted = w["after"]["f.lua"][0].decode()
        # the same text through stdin, every format: something is reported / status 1 exactly when the text differs from its formatted form
        for text, tag in ((src, "as written"), (formatted, "already formatted")):
            for fmt in ("unified", "standard", "summary", "json"):
                r = clireplay.run_cli(binp, {}, ["--check", "--output-format", fmt] + flags + ["-"], stdin=text)
                differs = text != formatted
                rec = {"source": text, "flags": flags + ["-"], "format": fmt, "stdout": r["out"][:800], "formatted": formatted}
                reported = bool(r["out"].strip()) if fmt != "summary" else any(ln.strip() in ("stdin", "-") for ln in r["out"].splitlines())
                if (r["rc"] != 0) != differs or reported != differs:
                    fails.append(({("wiring", fmt.capitalize()), ("wiring", "any"), "any"}, name, f"scenario {name}/{fmt} (stdin, {tag}): exit status {r['rc']}, output {r['out'][:80]!r} although "
                                  f"the text {'differs from' if differs else 'equals'} its formatted form", rec))
        okfile = clireplay.FORMATTED.replace("\n", "\r\n") if "Windows" in flags else clireplay.FORMATTED      # already formatted under these flags
        for fmt in ("unified", "standard", "summary"):
            r = clireplay.run_cli(binp, {"f.lua": src, "ok.lua": okfile}, ["--check", "--output-format", fmt] + flags + ["f.lua", "ok.lua"])
            rec = {"source": src, "flags": flags, "format": fmt, "stdout": r["out"][:1500], "formatted": formatted}
            K = {("wiring", fmt.capitalize()), "any"}
            if (r["rc"] == 0) != (formatted == src):
                fails.append((K, name, f"scenario {name}/{fmt}: exit status {r['rc']} although the file is {'formatted' if formatted == src else 'not formatted'}", rec))
                continue
            if formatted == src:
                if "f.lua" in r["out"] or "@@" in r["out"]:
                    fails.append((K, name, f"scenario {name}/{fmt}: a diff is printed for a formatted file", rec))
                continue
            if "ok.lua" in r["out"]:
                fails.append((K, name, f"scenario {name}/{fmt}: the formatted file ok.lua is reported", rec))
            try:
                if fmt == "unified":
                    got = apply_unified(src, r["out"])
                    if got != formatted:
                        fails.append((K, name, f"scenario {name}: applying the unified diff gives {got!r}, the formatted file is {formatted!r}", rec))
                elif fmt == "standard":
                    v = check_standard(src, formatted, r["out"])
                    if v:
                        fails.append((K, name, f"scenario {name}/standard: {v}", rec))
                elif "f.lua" not in r["out"].splitlines():
                    fails.append((K, name, f"scenario {name}/summary: the unformatted file is not listed", rec))
            except ValueError as e:
                fails.append((K, name, f"scenario {name}/{fmt}: {e}", rec))
    return fails


def confirms(fail_kinds, kind, info):
    if kind == "json-text":
        return ("json-text", info["kind"], info["field"]) in fail_kinds or "any" in fail_kinds
    if kind == "json-lines":
        return ("json-lines", info["kind"]) in fail_kinds or "any" in fail_kinds
    if kind == "nodiff":
        return any(isinstance(k, tuple) and k[0] == "wiring" and info["format"].capitalize() == k[1] for k in fail_kinds)
    if kind == "wiring":
        return any(isinstance(k, tuple) and k[0] == "wiring" and info["format"] in (k[1], "any") for k in fail_kinds)
    return kind in fail_kinds or "any" in fail_kinds


def run(ses, rep):
    rep.assumptions += ["similar's contract: iter_changes(op) yields the old_len removed lines as Delete changes then the new_len added lines as Insert changes; "
                        "every op has at least one change; line indices are 0-based",
                        "a mismatch whose `original` is empty is an insertion before original_start_line"]
    rep.outside += ["the unified / standard / summary texts are produced by `similar` / `console`: outside the encoding (the `no diff iff formatted` "
                    "dispatch is covered by C13)"]
    global K_OPS
    K_OPS = 3 if rep.tier == "quick" else 5
    flagged = analyse(ses, rep) + wiring(ses, rep) + nodiff(ses, rep)
    if rep.tier != "quick":       # thorough: the op-list model of the unified producer is decided as well when ratio() is what the code consults
        try:
            flagged += [f for f in nodiff_ops_model(ses, rep, "output_diff_unified")]
        except Inconclusive as e:
            rep.extra["ops_model_not_applicable"] = str(e)[:200]
    rep.samples.append({"flagged": [(f[0], f[1]) for f in flagged][:6]})
    if flagged:
        fails = battery()
        for oid, what, kind, info in flagged:
            if kind == "nodiff" and info.get("missed") and not info.get("rewritten"):
                v, rec = big_file_replay(info["format"])
                if v:
                    rep.add(oid, rep.violation({"obligation": kind, "format": info["format"]}, {"what": what, "observed": v, **rec}), v)
                    continue
            hit = [f for f in fails if confirms(f[0], kind, info)]
            if not hit:
                rep.add(oid, "inconclusive", f"solver model ({what}) did not reproduce on the native build (diff battery)")
            else:
                _, sc, v, rec = hit[0]
                status = rep.violation({"obligation": kind, **info}, {"what": what, "observed": v, "scenario": sc, **rec})
                rep.add(oid, status, v)


def fallback(rep):
    """kernels undecided: the diff battery is run; only a failing concrete oracle is reported"""
    for f in battery()[:4]:
        _, sc, v, rec = f
        rep.add(f"battery/{sc}", rep.violation({"obligation": "battery-after-undecided-kernel", "scenario": sc}, {"what": "kernel undecided; diff battery", "observed": v, "scenario": sc, **rec}), v)


def replay(path):
    try:
        r = json.load(open(path)).get("replay", {})
    except Exception:
        r = {}
    if "lines" in r:          # recorded by the big-file replay (a `no change` test that loses a single changed line)
        for fmt in ("unified", "standard", "json"):
            v, rec = big_file_replay(fmt)
            if v:
                print(v)
                print(f"VIOLATION property=C18 replay={path}")
                return 1
    fails = battery()
    for f in fails:
        print(f[2])
    if fails:
        print(f"VIOLATION property=C18 replay={path}")
        return 1
    print("diff battery: every JSON diff reconstructs the formatted file")
    return 0


if __name__ == "__main__":
    for f in battery():
        print(f[0], f[2])

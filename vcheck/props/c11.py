"""C11 — quote_style, call_parentheses and space_after_function_names are honoured (decision kernels; DESIGN.md section 5).

 Q  quote choice: on C04's encoding of get_quote_to_use over a symbolic literal: Force* => that quote; AutoPrefer* => preferred
    unless the other quote needs strictly fewer escapes (counted on the literal by the oracle)
 P  call parentheses: format_function_args (recursion inlined) with symbolic call_parentheses x no_call_parentheses x argument
    shape x next-suffix obscurity: output variant == README table
 S  spaces: create_function_call_trivia / create_function_definition_trivia: spaces(1) exactly for the option values that name it;
    the three call/definition sites route through them
"""
import json, re, z3

from .. import common, luaexpr
from ..common import Inconclusive
from ..mirsym import Sym, Str, Agg, Lazy, Ref, RefV, UNIT
from ..summaries import canon, deref_val, opt_some, opt_none
from ..session import find_calls
from ..strmodel import Kernel, Literal, SQ, DQ
from . import c04


# ------------------------------------------------------------------------------------------------ Q
def quote_choice(ses, rep):
    flagged = []
    N = 4
    K = Kernel(ses, "default")
    lit = Literal(N)
    qout, style, reach = K.quote_paths(lit)
    ex = K.ex
    QI = {n: ex.enums.index("StringLiteralQuoteType", n) for n in ("Single", "Double")}
    SI = {n: ex.enums.index("QuoteStyle", n) for n in c04.STYLES}
    s_cnt = z3.Sum([z3.If(z3.And(lit.n > i, lit.c[i] == SQ), 1, 0) for i in range(N)])
    d_cnt = z3.Sum([z3.If(z3.And(lit.n > i, lit.c[i] == DQ), 1, 0) for i in range(N)])
    S, D = z3.BitVecVal(QI["Single"], 64), z3.BitVecVal(QI["Double"], 64)
    base = [lit.n >= 0, lit.n <= N, reach] + [z3.Or([c == a for a in c04.ALPHA]) for c in lit.c]
    want = {"ForceDouble": D, "ForceSingle": S,
            "AutoPreferDouble": z3.If(s_cnt < d_cnt, S, D),       # double unless single needs strictly fewer escapes
            "AutoPreferSingle": z3.If(d_cnt < s_cnt, D, S)}
    qin = z3.Int("qin")
    for st_name, w in want.items():
        r, m = ses.obligation(f"quote/{st_name}", base + [style == z3.BitVecVal(SI[st_name], 64)], qout != w,
                              "preferred quote unless the other needs strictly fewer escapes / forced quote")
        if r == "sat":
            n = m.eval(lit.n, model_completion=True).as_long()
            body = "".join(chr(m.eval(lit.c[i], model_completion=True).as_long()) for i in range(n))
            flagged.append((f"quote/{st_name}", f"quote choice for {body!r} under {st_name}", "quote", {"body": body, "style": st_name}))
    from ..strmodel import quote_wiring
    flagged += quote_wiring(ses, "default")
    return flagged


WIRING_BODIES = ["a", "it's", 'say "hi"', "a\nb", "it's\nb", 'q"\nb', "tab\\tx", "\\065", "\\x41", "a\\z\n  b", "it's \\z\n  \"b\"", "\u00e9l\u00e9ment", "", " "]


def replay_quote_wiring(info):
    """every literal shape (plain, with either quote, with a line continuation, with escapes, non-ASCII, empty) under every style"""
    for st_name in c04.STYLES:
        for body in WIRING_BODIES:
            v, rec = replay_quote({"body": body, "style": st_name})
            if v:
                return v, rec
    return None, {}


def replay_quote(info):
    binp = common.native_build("full")
    body = info["body"]
    # make the body a valid double- or single-quoted literal: escape the delimiter only
    for q in ('"', "'"):
        lit_body = "".join(("\\" + ch) if ch in (q, "\\", "\n", "\r") else ch for ch in body)
        src = f"local s = {q}{lit_body}{q}\n"
        rc, out, err = common.run_stylua(binp, src, ["--quote-style", info["style"]])
        if rc != 0:
            continue
        strs = [t[1] for t in luaexpr.tokenize(out) if t[0] == "str"]
        if len(strs) != 1:
            continue
        oq = strs[0][0]
        ns, nd = lit_body.count("'"), lit_body.count('"')
        want = {"ForceDouble": '"', "ForceSingle": "'", "AutoPreferDouble": "'" if ns < nd else '"', "AutoPreferSingle": '"' if nd < ns else "'"}[info["style"]]
        if oq != want:
            return f"{info['style']}: literal {src.strip()!r} came out with {oq} quotes, expected {want}", {"source": src, "output": out}
    return None, {}


# ------------------------------------------------------------------------------------------------ P
def call_parens(ses, rep):
    flagged = []
    ex = ses.executor("lib", "default", inline=lambda n, f: canon(n).split("::")[-1] in
                      ("format_function_args", "should_omit_string_parens", "should_omit_table_parens", "config"), max_depth=4)
    T = ex.enums
    fn = ses.need(ex, "format_function_args")
    ctx = ex.fresh_lazy("context::Context", "ctx")
    args_in = ex.fresh_lazy("full_moon::ast::FunctionArgs", "function_args")
    nxt = ex.fresh_lazy("FunctionCallNextNode", "call_next_node")
    shape = ex.fresh_lazy("Shape", "shape")
    ex.max_block_visits = 4
    ex.max_paths = 30000
    depth_guard = {"n": 0}
    outs = ex.run(fn, [RefV(ctx), RefV(args_in), shape, nxt])
    cfg = ex.lazy_child(None, ctx, ("field", T.field_index("Context", "config")), "Config", ".config")
    cp = ex.lazy_child(None, cfg, ("field", T.field_index("Config", "call_parentheses")), "CallParenType", ".call_parentheses")
    ncp = ex.lazy_child(None, cfg, ("field", T.field_index("Config", "no_call_parentheses")), "bool", ".no_call_parentheses")
    dcp, din, dnx = ex.discr(None, cp), ex.discr(None, args_in), ex.discr(None, nxt)
    CP = lambda v: z3.BitVecVal(T.index("CallParenType", v), 64)
    FA = lambda v: z3.BitVecVal(T.index("FunctionArgs", v), 64)
    obscure = dnx == z3.BitVecVal(T.index("FunctionCallNextNode", "ObscureWithoutParens"), 64)
    # single argument of the parenthesised form
    lens = [v for k, v in ex.havoc_memo.items() if k[0].endswith("::len") and isinstance(v, Sym)]
    cands = sorted(((int(k[2][0][1][1][1:]) if k[2] and k[2][0][0] == "r" else 10 ** 6, v) for k, v in ex.havoc_memo.items()
                    if k[0].endswith("as Iterator>::next") and "punctuated::Iter<" in k[0] and "Expression" in k[0]), key=lambda x: x[0])
    firsts = [v for _, v in cands]
    if not lens or not firsts:
        raise Inconclusive("format_function_args: argument count / first argument not inspected as expected")
    nargs = lens[0].t
    first = firsts[0]
    first_e = deref_val(ex, None, ex.lazy_child(None, first, ("vfield", "Some", 0), "&full_moon::ast::Expression", ".Some.0"))
    de = ex.discr(None, first_e)
    E = lambda v: z3.BitVecVal(T.index("Expression", v), 64)
    single_str = z3.And(din == FA("Parentheses"), nargs == 1, de == E("String"))
    single_tbl = z3.And(din == FA("Parentheses"), nargs == 1, de == E("TableConstructor"))
    is_str = z3.Or(din == FA("String"), single_str)
    is_tbl = z3.Or(din == FA("TableConstructor"), single_tbl)
    omit_s = z3.Or(ncp.t, dcp == CP("None"), dcp == CP("NoSingleString"))
    omit_t = z3.Or(ncp.t, dcp == CP("None"), dcp == CP("NoSingleTable"))
    # documented exception (repair F7): parentheses that carry comments of their own are kept, with the comments
    commented = [v.t for k, v in ex.havoc_memo.items() if k[0].endswith("Iterator>::any") and isinstance(v, Sym) and z3.is_bool(v.t)
                 and any(isinstance(a, tuple) and a and a[0] == "fn" and "trivia_is_comment" in str(a[1]) for a in k[2])]
    keeps_comments = z3.And(din == FA("Parentheses"), z3.Or(*commented)) if commented else z3.BoolVal(False)
    rep.bounds["call_parens_comment_guards"] = len(commented)
    want = z3.If(dcp == CP("Input"), din,
           z3.If(keeps_comments, FA("Parentheses"),
           z3.If(z3.And(is_str, omit_s, z3.Not(obscure)), FA("String"),
           z3.If(z3.And(is_tbl, omit_t, z3.Not(obscure)), FA("TableConstructor"), FA("Parentheses")))))
    base = ex.all_discr_ranges() + [z3.ULT(din, z3.BitVecVal(3, 64)), z3.ULT(dcp, z3.BitVecVal(5, 64)), z3.ULT(dnx, z3.BitVecVal(2, 64)),
                                    z3.Implies(nargs != 0, ex.discr(None, first) == 1)]
    n = 0
    for pi, o in enumerate(outs):
        if o.kind in ("loopbound", "depth"):
            continue
        if o.kind == "panic":
            if ses.reachable(base + list(o.pc)):
                r, m = ses.obligation(f"call-parens/path{pi}/no-panic", base + list(o.pc), z3.BoolVal(True))
                if r == "sat":
                    rep.add(f"call-parens/path{pi}/no-panic", "inconclusive", f"format_function_args can panic: {o.value}")
            continue
        v = deref_val(ex, o.state, o.value)
        if isinstance(v, Agg) and v.variant:
            got = FA(v.variant)
        elif isinstance(v, Lazy):
            got = ex.discr(o.state, v)
        else:
            raise Inconclusive(f"format_function_args returns {v!r}")
        pc = base + list(o.pc)
        if not ses.reachable(pc):
            continue
        n += 1
        r, m = ses.obligation(f"call-parens/path{pi}/variant=table", pc, got != want, "output form == README table (call_parentheses x argument x next suffix)")
        if r == "sat":
            ev = lambda t: m.eval(t, model_completion=True)
            info = {"mode": T.name("CallParenType", ev(dcp).as_long()), "no_call_parentheses": z3.is_true(ev(ncp.t)),
                    "input": T.name("FunctionArgs", ev(din).as_long()), "nargs": ev(nargs).as_long(),
                    "arg": T.name("Expression", ev(de).as_long()), "obscure": z3.is_true(ev(obscure)),
                    "got": T.name("FunctionArgs", ev(got).as_long()), "want": T.name("FunctionArgs", ev(want).as_long())}
            flagged.append((f"call-parens/path{pi}/variant=table", f"call form {info}", "parens", info))
    rep.bounds["call_parens_paths"] = n
    if n == 0:
        raise Inconclusive("format_function_args: no returning path")
    # ObscureWithoutParens is computed from the next suffix in format_function_call
    return flagged


def replay_parens(info):
    binp = common.native_build("default")
    arg = {"String": '"s"', "TableConstructor": "{ 1 }"}.get(info["arg"], "x")
    forms = {"Parentheses": f"f({arg})" if info["nargs"] == 1 else ("f()" if info["nargs"] == 0 else f"f({arg}, y)"),
             "String": 'f "s"', "TableConstructor": "f { 1 }"}
    call = forms[info["input"]]
    tail = ".k" if info["obscure"] else ""
    src = f"local v = {call}{tail}\n"
    argv = ["--call-parentheses", info["mode"]]
    rc, out, err = common.run_stylua(binp, src, argv)
    if rc != 0:
        return None, {"error": err[:200]}
    flat = out.strip()
    has_paren = bool(re.search(r"f\s*\(", flat))
    is_str = info["input"] == "String" or (info["input"] == "Parentheses" and info["nargs"] == 1 and info["arg"] == "String")
    is_tbl = info["input"] == "TableConstructor" or (info["input"] == "Parentheses" and info["nargs"] == 1 and info["arg"] == "TableConstructor")
    mode = info["mode"]
    if mode == "Input":
        want_paren = info["input"] == "Parentheses"
    elif info["obscure"]:
        want_paren = True
    elif is_str and mode in ("None", "NoSingleString"):
        want_paren = False
    elif is_tbl and mode in ("None", "NoSingleTable"):
        want_paren = False
    else:
        want_paren = True
    if has_paren != want_paren:
        return f"--call-parentheses {mode}: {src.strip()!r} -> {flat!r} ({'has' if has_paren else 'no'} parentheses)", {"source": src, "args": argv, "output": out}
    return None, {"source": src, "args": argv, "output": out}


# ------------------------------------------------------------------------------------------------ S
def spaces(ses, rep):
    flagged = []
    for fname, on in (("create_function_call_trivia", ("Always", "Calls")), ("create_function_definition_trivia", ("Always", "Definitions"))):
        ex = ses.executor("lib", "default", inline=lambda n, f: canon(n).split("::")[-1] == "config")
        T = ex.enums
        fn = ses.need(ex, fname)
        ctx = ex.fresh_lazy("context::Context", "ctx")
        outs = ex.run(fn, [RefV(ctx)])
        cfg = ex.lazy_child(None, ctx, ("field", T.field_index("Context", "config")), "Config", ".config")
        opt = ex.lazy_child(None, cfg, ("field", T.field_index("Config", "space_after_function_names")), "SpaceAfterFunctionNames", ".safn")
        d = ex.discr(None, opt)
        want1 = z3.Or([d == z3.BitVecVal(T.index("SpaceAfterFunctionNames", v), 64) for v in on])
        for pi, o in enumerate(outs):
            if o.kind != "return":
                continue
            sp = find_calls(o.trace, lambda x: x.endswith("TokenType::spaces"))
            others = find_calls(o.trace, lambda x: x.endswith("TokenType::tabs") or "Whitespace" in x)
            if len(sp) != 1 or others:
                r, m = ses.obligation(f"spaces/{fname}/path{pi}/is-spaces", list(o.pc), z3.BoolVal(True))
                if r == "sat":
                    flagged.append((f"spaces/{fname}/path{pi}/is-spaces", f"{fname} does not produce spaces(n)", "spaces", {"fn": fname}))
                continue
            n_ = sp[0][1][0].t
            r, m = ses.obligation(f"spaces/{fname}/path{pi}/one-iff-option", list(o.pc) + [z3.ULT(d, z3.BitVecVal(4, 64))],
                                  z3.Not(z3.If(want1, n_ == 1, n_ == 0)), f"one space iff space_after_function_names in {on}")
            if r == "sat":
                flagged.append((f"spaces/{fname}/path{pi}/one-iff-option", f"{fname}: wrong number of spaces for option value "
                                f"{T.name('SpaceAfterFunctionNames', m.eval(d, model_completion=True).as_long())}", "spaces", {"fn": fname}))
    # sites
    exs = ses.executor("lib", "default", inline=lambda n, f: False)
    sites = {"format_call": "create_function_call_trivia", "format_anonymous_function": "create_function_definition_trivia",
             "format_function_declaration": "create_function_definition_trivia", "format_local_function": "create_function_definition_trivia",
             "format_method_call": "create_function_call_trivia"}
    for fn_name, helper in sites.items():
        f = exs.resolve(fn_name)
        if f is None:
            rep.add(f"spaces/site/{fn_name}", "inconclusive", "function not found (renamed?)")
            continue
        calls = [canon(s[2]).split("::")[-1] for sts in f.blocks.values() for s in sts if s[0] == "call"]
        ok = helper in calls
        r, m = ses.obligation(f"spaces/site/{fn_name}/routes-through-{helper}", [], z3.BoolVal(not ok), "the name/parenthesis gap comes from the option helper")
        if r == "sat":
            flagged.append((f"spaces/site/{fn_name}/routes-through-{helper}", f"{fn_name} does not use {helper}", "spaces", {"fn": fn_name}))
    return flagged


def replay_spaces(info):
    binp = common.native_build("default")
    src = ('local function f(a) end\nfunction g(a) end\nlocal h = function(a) end\nfunction t.u:v(a) end\nf(1)\nt.k(2)\nt:m(3)\n'
           'require "mod"\nsetup { a = 1 }\nobj:method "arg"\nobj:other { 1 }\n')
    for cp in ("Always", "None", "Input", "NoSingleString", "NoSingleTable"):
        for mode in ("Never", "Definitions", "Calls", "Always"):
            rc, out, err = common.run_stylua(binp, src, ["--space-after-function-names", mode, "--call-parentheses", cp])
            if rc != 0:
                continue
            defs = re.findall(r"function(?: [\w.:]+)?( ?)\(", out)
            calls = re.findall(r"^(?:f|t\.k|t:m|require|setup|obj:method|obj:other)( ?)\(", out, re.M)      # (calls kept in sugar form have no `(`)
            want_def = " " if mode in ("Always", "Definitions") else ""
            want_call = " " if mode in ("Always", "Calls") else ""
            if any(d != want_def for d in defs) or any(c != want_call for c in calls) or len(defs) != 4 or len(calls) < 3:
                return (f"--space-after-function-names {mode} --call-parentheses {cp}: {out!r}",
                        {"source": src, "mode": mode, "call_parentheses": cp, "output": out})
    # calls whose parentheses stay although the single string / table argument could do without: an index or a method call follows, or a
    # comment sits inside the parentheses
    src3 = ('local a = lib.describe("widget").name\nlocal b = lib.load({ a = 1 }):run()\nlocal c = lib.describe "widget".name\nlocal d = lib.load { a = 1 }:run()\n'
            'show("x" --[[c]])\nshow({ 1 } --[[c]])\nlocal e = lib.describe("widget")[1]\n')
    for cp in ("Always", "None", "Input", "NoSingleString", "NoSingleTable"):
        for mode in ("Never", "Definitions", "Calls", "Always"):
            rc, out, err = common.run_stylua(binp, src3, ["--space-after-function-names", mode, "--call-parentheses", cp])
            if rc != 0:
                continue
            calls = re.findall(r"(?:lib\.describe|lib\.load|show|:run)( ?)\(", out)
            want_call = " " if mode in ("Always", "Calls") else ""
            if any(c != want_call for c in calls) or len(calls) < 5:
                return (f"--space-after-function-names {mode} --call-parentheses {cp}: {out!r}",
                        {"source": src3, "mode": mode, "call_parentheses": cp, "output": out})
    # headers whose parameter list is laid out over several lines (too wide, or a comment on a parameter)
    src2 = ('local function connect(first_parameter_name, second_parameter_name, third_parameter_name) end\n'
            'function Object.nested:method(first_parameter_name, second_parameter_name, third_parameter_name) end\n'
            'local callback = function(first_parameter_name, second_parameter_name, third_parameter_name) end\n'
            'function commented(a, -- c\n b) end\n')
    for mode in ("Never", "Definitions", "Calls", "Always"):
        rc, out, err = common.run_stylua(binp, src2, ["--space-after-function-names", mode, "--column-width", "60"])
        if rc != 0:
            continue
        defs = re.findall(r"function(?: [\w.:]+)?( ?)\(", out)
        want_def = " " if mode in ("Always", "Definitions") else ""
        if any(d != want_def for d in defs) or len(defs) != 4:
            return f"--space-after-function-names {mode} --column-width 60: {out!r}", {"source": src2, "mode": mode, "output": out}
    return None, {}


def next_node_hint(ses, rep):
    """format_function_call over a suffix list [s1, s2] (iterators modelled on the list): the hint handed to format_suffix says
    ObscureWithoutParens exactly when the NEXT suffix is an index or a method call, and None for the last suffix"""
    flagged = []
    ex = ses.executor("lib", "default", inline=lambda n, f: False)
    T = ex.enums
    sfx = [ex.fresh_lazy("Suffix", "suffix1"), ex.fresh_lazy("Suffix", "suffix2")]
    from ..summaries import opt_some, opt_none

    def ident(ex_, st, a):
        if isinstance(a, Ref):
            return ("k", a.key)
        v = deref_val(ex_, st, a)
        return ("o", getattr(v, "oid", id(v)))

    def h(ex_, st, callee, args, dty):
        if "Suffix" not in callee:
            return NotImplemented
        c = canon(callee)
        if re.search(r"Iter<'_, Suffix> as Iterator>::count$", c):
            return Sym(z3.BitVecVal(2, 64), "usize")
        if re.search(r"Peekable<.*Suffix.*> as Iterator>::next$", c) or re.search(r"Iter<'_, Suffix> as Iterator>::next$", c):
            key = ("it",) + ident(ex_, st, args[0])
            k = st.aux.get(key, 0)
            st.aux[key] = k + 1
            return opt_some(dty, RefV(sfx[k])) if k < 2 else opt_none(dty)
        if c.endswith("Peekable::peek") or re.search(r"Peekable<.*Suffix.*>::peek$", c):
            k = st.aux.get(("it",) + ident(ex_, st, args[0]), 0)
            return opt_some(dty, RefV(RefV(sfx[k]))) if k < 2 else opt_none(dty)
        return NotImplemented
    ex.hooks = [h]
    ex.max_block_visits = 3
    ex.max_paths = 200000
    ex.max_steps = 3000000
    f = ses.need(ex, "format_function_call")
    args = [RefV(ex.fresh_lazy(t.lstrip("&"), p)) if t.startswith("&") else ex.fresh_lazy(t, p) for p, t in f.params]
    outs = ex.run(f, args)
    d2 = ex.discr(None, sfx[1])
    SI, SC = z3.BitVecVal(T.index("Suffix", "Index"), 64), z3.BitVecVal(T.index("Suffix", "Call"), 64)
    call2 = ex.lazy_child(None, sfx[1], ("vfield", "Call", 0), "full_moon::ast::Call", ".Call.0")
    dc2 = ex.discr(None, call2)
    MC = z3.BitVecVal(T.index("Call", "MethodCall"), 64)
    obscure_next = z3.Or(d2 == SI, z3.And(d2 == SC, dc2 == MC))
    OB, NO = T.index("FunctionCallNextNode", "ObscureWithoutParens"), T.index("FunctionCallNextNode", "None")
    n = 0
    for pi, o in enumerate(outs):
        if o.kind != "return":
            continue
        calls = find_calls(o.trace, lambda n_: n_.split("::")[-1] == "format_suffix")
        for c in calls:
            which = deref_val(ex, o.state, c[1][1])
            i = 0 if which is sfx[0] else 1 if which is sfx[1] else None
            if i is None:
                continue
            hint = deref_val(ex, o.state, c[1][3])
            dh = ex.discr(o.state, hint)
            want = z3.If(obscure_next, z3.BitVecVal(OB, 64), z3.BitVecVal(NO, 64)) if i == 0 else z3.BitVecVal(NO, 64)
            pc = list(o.pc) + ex.all_discr_ranges()
            if not ses.reachable(pc):
                continue
            n += 1
            r, m = ses.obligation(f"next-node-hint/path{pi}/suffix{i + 1}", pc, dh != want,
                                  "ObscureWithoutParens iff the next suffix is `.x` / `[x]` / `:m()`; None for the last suffix")
            if r == "sat":
                nxt = T.name("Suffix", m.eval(d2, model_completion=True).as_long()) if i == 0 else "none"
                inner = T.name("Call", m.eval(dc2, model_completion=True).as_long()) if nxt == "Call" else ""
                flagged.append((f"next-node-hint/path{pi}/suffix{i + 1}", f"call followed by {nxt} {inner}: the parentheses hint is {T.name('FunctionCallNextNode', m.eval(dh, model_completion=True).as_long())}",
                                "hint", {"next": nxt, "inner": inner}))
    rep.bounds["next_node_hint_obligations"] = n
    if n == 0:
        raise Inconclusive("format_function_call: no format_suffix call on the two-suffix list")
    return flagged


def replay_hint(info):
    """a single-string / single-table call followed by each kind of suffix under call_parentheses = None"""
    binp = common.native_build("default")
    cases = [('f("x")("y")', 'f "x" "y"'), ("g({ 1 })()", "g { 1 }()"), ('f("x").k', 'f("x").k'), ('f("x"):m()', 'f("x"):m()'), ('f("x")[1]', 'f("x")[1]'),
             ('require("mod")()', 'require "mod"()'), ('f({ 1 }).k', "f({ 1 }).k")]
    for src, want in cases:
        rc, out, err = common.run_stylua(binp, f"local v = {src}\n", ["--call-parentheses", "None"])
        if rc == 0 and out.strip() != f"local v = {want}":
            return f"call_parentheses=None: `{src}` is printed as `{out.strip()[10:]}`, expected `{want}`", {"source": src, "output": out}
    return None, {}


REPLAYS = {"quote-wiring": replay_quote_wiring, "quote": replay_quote, "parens": replay_parens, "spaces": replay_spaces, "hint": replay_hint}


def run(ses, rep):
    rep.assumptions += ["the deprecated no_call_parentheses flag means `None` unless call_parentheses = Input",
                        "callee results other than the inlined option helpers are unconstrained"]
    rep.outside += ["'in every layout path of every construct' beyond these functions; Luau type functions"]
    flagged = quote_choice(ses, rep) + call_parens(ses, rep) + spaces(ses, rep) + next_node_hint(ses, rep)
    rep.samples.append({"flagged": [(f[0], f[1]) for f in flagged][:6]})
    for oid, what, kind, info in flagged:
        v, rec = REPLAYS[kind](info)
        if v is None:
            rep.add(oid, "inconclusive", f"solver model ({what}) did not reproduce on the native build: {rec}")
            continue
        role = {"obligation": kind, **{k: v_ for k, v_ in info.items() if k in ("mode", "input", "arg", "obscure", "style", "fn")}}
        status = rep.violation(role, {"what": what, "observed": v, "kind": kind, "info": info, **rec})
        rep.add(oid, status, v)


def fallback(rep):
    """kernels undecided: the option replays are run over all option values; only a failing concrete oracle is reported"""
    for kind, fn_ in (("spaces", replay_spaces), ("quote-wiring", replay_quote_wiring)):
        v, rec = fn_({})
        if v:
            rep.add(f"battery/{kind}", rep.violation({"obligation": "battery-after-undecided-kernel", "scenario": kind}, {"what": "kernel undecided; option replay", "observed": v,
                                                                                                                     "kind": kind, "info": {}, **rec}), v)


def replay(path):
    d = json.load(open(path))
    r = d["replay"]
    v, rec = REPLAYS[r["kind"]](r["info"])
    print(v or "property holds for the recorded scenario")
    if v:
        print(f"VIOLATION property=C11 replay={path}")
        return 1
    return 0

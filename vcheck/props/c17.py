"""C17 — stdin mode writes the formatted text to stdout and nothing else (kernel, DESIGN.md section 5).

Encoded (bin MIR): format_string; the SuccessBufferedOutput / Err arms of the output-thread closure (one receive-loop
iteration); the stdin worker closure (the closure of `format` that calls format_string) and its inner closures.
"""
import re, z3

from .. import clihooks, clireplay, clistatus, common
from ..mirsym import Lazy, Agg, Ref, RefV, Sym, derives_from, vkey
from ..session import find_calls
from ..summaries import canon
from ..common import Inconclusive
from . import c14


from ..summaries import deref_val


def is_stdout_write(n):
    return bool(re.search(r"<(std::io::)?(StdoutLock<.*>|Stdout) as (std::io::)?Write>::(write_all|write|write_fmt|write_vectored)$", n)) or \
        n in ("std::io::_print", "_print", "std::io::stdio::_print")


def is_complete_stdout_write(n):
    """only write_all guarantees that the whole buffer is written"""
    return bool(re.search(r"<(std::io::)?(StdoutLock<.*>|Stdout) as (std::io::)?Write>::write_all$", n))


def is_stderr_write(n):
    return bool(re.search(r"<(std::io::)?(StderrLock<.*>|Stderr) as (std::io::)?Write>::(write_all|write|write_fmt)$", n)) or \
        n in ("std::io::_eprint", "_eprint")


SCENARIOS = {
    "stdin-format": ({}, ["-"], None),
}


def stdin_oracle(binp, src, extra_args=(), files=None, expect=None):
    """run `stylua [args] -` on src; compare stdout with the file-mode result for the same text and configuration"""
    files = dict(files or {})
    r = clireplay.run_cli(binp, files, list(extra_args) + ["-"], stdin=src)
    return r


def format_via_file(binp, src, extra_args=()):
    r = clireplay.run_cli(binp, {"f.lua": src}, list(extra_args) + ["f.lua"])
    return r["after"]["f.lua"][0].decode("utf-8", "replace"), r["rc"]


def concrete_battery(binp, X=()):
    X = list(X)
    """-> list of (name, violation or None, details)"""
    out = []
    src = "local   x   =    1\nlocal function f( a,b ) return a+b end\n"
    want, _ = format_via_file(binp, src, X)
    r = stdin_oracle(binp, src, X)
    v = None
    if r["rc"] != 0: v = f"exit status {r['rc']} for valid stdin"
    elif r["out"] != want: v = "stdout differs from the library's formatted text"
    elif clireplay.new_files(r): v = "stdin mode created files " + str(clireplay.new_files(r))
    out.append(("valid", v, r))
    r = stdin_oracle(binp, clireplay.BROKEN, X)
    v = None
    if r["out"] != "": v = "stdout not empty on a parse error"
    elif r["rc"] != 2: v = f"exit status {r['rc']} on a parse error"
    out.append(("parse-error", v, r))
    r = clireplay.run_cli(binp, {".styluaignore": "ignored.lua\n"}, X + ["--respect-ignores", "--stdin-filepath", "ignored.lua", "-"], stdin=src)
    v = None
    if r["out"] != src: v = "ignored stdin path is not passed through unchanged"
    elif r["rc"] != 0: v = f"exit status {r['rc']} for an ignored stdin path"
    out.append(("ignored-passthrough", v, r))
    long_src = "local   x   =   1\nlocal s = \"" + "b" * 200000 + "\""
    r = clireplay.run_cli(binp, {".styluaignore": "ignored.lua\n"}, X + ["--respect-ignores", "--stdin-filepath", "ignored.lua", "-"], stdin=long_src)
    v = None
    if r["out"] != long_src: v = f"long pass-through truncated/changed: {len(r['out'])} of {len(long_src)} bytes"
    out.append(("ignored-passthrough-long", v, r))
    r = clireplay.run_cli(binp, {".styluaignore": "ignored.lua\n"}, X + ["--stdin-filepath", "ignored.lua", "-"], stdin=src)
    v = None
    if r["out"] != want: v = "without --respect-ignores the stdin text must be formatted"
    out.append(("not-respecting-ignores", v, r))
    r = stdin_oracle(binp, "", X)
    v = None
    if r["rc"] != 0 or r["out"] not in ("", "\n"): v = f"empty stdin: rc={r['rc']} stdout={r['out']!r}"
    out.append(("empty", v, r))
    src3 = "local   a  =   1\nlocal   b  =   2\nlocal   c  =   3\n"
    for nm, a1, a2 in (("range-end-only", ["--range-end", "17"], ["--range-start", "0", "--range-end", "17"]), ("range-start-only", ["--range-start", "18"], ["--range-start", "18", "--range-end", "51"])):
        r1, r2 = stdin_oracle(binp, src3, X + a1), stdin_oracle(binp, src3, X + a2)
        wantf, _ = format_via_file(binp, src3, X + a1)
        v = None
        if r1["out"] != r2["out"]: v = f"{a1} and {a2} select the same statements but print different text"
        elif r1["out"] != wantf: v = f"stdout under {a1} differs from the file-mode result"
        elif r1["out"] == format_via_file(binp, src3, X)[0]: v = f"{a1} formats the whole input"
        out.append((nm, v, r1))
    bom = "\ufeff" + "local   x  =   1\r\nlocal   y  =   { 1,2 }"
    r = clireplay.run_cli(binp, {".styluaignore": "ignored.lua\n"}, X + ["--respect-ignores", "--stdin-filepath", "ignored.lua", "-"], stdin=bom)
    out.append(("ignored-passthrough-bom", None if r["out"].encode() == bom.encode() else "ignored stdin path with a byte order mark is not passed through byte for byte", r))
    r = stdin_oracle(binp, bom, X)
    wantb = clireplay.run_cli(binp, {"f.lua": bom}, X + ["f.lua"])
    out.append(("parse-error-bom", None if (r["rc"] == 0) == (wantb["rc"] == 0) and (r["rc"] != 2 or r["out"] == "") else
                f"stdin with a byte order mark: rc={r['rc']} stdout {len(r['out'])} bytes, file mode rc={wantb['rc']}", r))
    src2 = "local x = 1\r\nlocal y = 2"
    want2, _ = format_via_file(binp, src2, X)
    r = stdin_oracle(binp, src2, X)
    out.append(("crlf-no-eol", None if r["out"] == want2 else "stdout differs from the file-mode result (CRLF / no trailing newline)", r))
    return out


def run(ses, rep):
    rep.assumptions += ["callee results are unconstrained (havoc); String::into_bytes / clone preserve content (identity summary)",
                        "the thread pool runs the stdin worker closure; crossbeam delivers its result once"]
    rep.outside += ["truncation by the OS; multi-megabyte behaviour; the summary-mode banner (check mode only)"]
    funcs = ses.mir("bin", "default")
    flagged = []
    ex = ses.executor("bin", "default", hooks=c14.HOOKS + [identity_bytes], inline=lambda n_, f: False)
    fs = ses.need(ex, "format_string")
    names = [p for p, t in fs.params]
    args = []
    for p, t in fs.params:
        args.append(RefV(ex.fresh_lazy(t.lstrip("&"), p + ":" + t)) if t.startswith("&") else ex.fresh_lazy(t, p + ":" + t))
    opt_i = [i for i, (p, t) in enumerate(fs.params) if re.fullmatch(r"&(opt::)?Opt", t)]
    inp_i = [i for i, (p, t) in enumerate(fs.params) if t in ("std::string::String", "String")]
    skip_i = [i for i, (p, t) in enumerate(fs.params) if t == "bool"]
    if len(opt_i) != 1 or len(inp_i) != 1 or len(skip_i) != 1:
        raise Inconclusive("format_string signature changed")
    skip = args[skip_i[0]]
    outs = ex.run(fs, args)
    rep.bounds["format_string_paths"] = len(outs)
    for pi, o in enumerate(outs):
        if o.kind != "return":
            continue
        st = o.state
        check = c14.opt_field(ex, st, args[opt_i[0]], "check")
        for w in find_calls(o.trace, clihooks.is_fs_mutation):
            r, m = ses.obligation(f"format_string/path{pi}/no-fs-mutation/{w[0]}", list(o.pc), z3.BoolVal(True))
            if r == "sat":
                flagged.append((f"format_string/path{pi}/no-fs-mutation", "format_string reaches a file-system mutation", "fs"))
        v = o.value
        fc = find_calls(o.trace, lambda n_: n_.split("::")[-1] == "format_code")
        if isinstance(v, Agg) and v.variant == "Ok" and isinstance(v.fields[0], Agg) and v.fields[0].variant == "SuccessBufferedOutput":
            data = v.fields[0].fields[0]
            # skip => bytes of the input; else bytes of format_code's Ok value
            from_input = derives_from(ex, data, args[inp_i[0]].oid, 0, st) if isinstance(args[inp_i[0]], Lazy) else False
            from_fc = bool(fc) and derives_from(ex, data, fc[-1][2].oid, 0, st)
            oid = f"format_string/path{pi}/buffer-is-formatted-text"
            r, m = ses.obligation(oid, list(o.pc) + [z3.Not(skip.t)], z3.BoolVal(not from_fc), "not skipped: buffer = Ok payload of format_code") \
                if ses.reachable(list(o.pc) + [z3.Not(skip.t)]) else ("skip", None)
            if r == "sat":
                flagged.append((oid, "the stdout buffer is not format_code's output", "valid", c14.opt_flags_from_model(ex, st, args[opt_i[0]], m)))
            if fc and ses.reachable(list(o.pc) + [z3.Not(skip.t)]):
                r, m = ses.obligation(oid + "/ok-only", list(o.pc) + [z3.Not(skip.t)], ex.discr(st, fc[-1][2]) != 0, "buffer only on the Ok edge")
                if r == "sat":
                    flagged.append((oid + "/ok-only", "a buffer is produced although format_code failed", "parse-error", c14.opt_flags_from_model(ex, st, args[opt_i[0]], m)))
            oid = f"format_string/path{pi}/skip-passes-input-through"
            r, m = ses.obligation(oid, list(o.pc) + [skip.t], z3.BoolVal(not from_input or bool(fc)), "skipped: buffer = the input, format_code not called") \
                if ses.reachable(list(o.pc) + [skip.t]) else ("skip", None)
            if r == "sat":
                flagged.append((oid, "an ignored stdin path is not passed through unchanged", "ignored-passthrough", c14.opt_flags_from_model(ex, st, args[opt_i[0]], m)))
            r, m = ses.obligation(f"format_string/path{pi}/buffer-only-without-check", list(o.pc), check.t, "buffered output only when not --check")
            if r == "sat":
                flagged.append((f"format_string/path{pi}/buffer-only-without-check", "buffered output under --check", "valid"))
        if isinstance(v, Agg) and v.variant == "Err" and fc:
            pass
    # output thread arms
    logger = clistatus.find_logger(funcs)
    outcl = clistatus.find_output_closure(funcs)
    for kind in ("SuccessBufferedOutput", "Err", "Complete"):
        ex2 = ses.executor("bin", "default", inline=clihooks.inline_cli_helpers)
        item = clistatus.format_result(ex2, kind)
        ex2.hooks = clistatus.make_hooks(funcs, [item], logger)
        env = ex2.fresh_lazy(outcl.params[0][1], "closure-env")
        for pi, o in enumerate(ex2.run(outcl, [env])):
            if o.kind != "return":
                continue
            ws = find_calls(o.trace, is_stdout_write)
            oid = f"output-thread/{kind}/path{pi}/stdout"
            if kind == "SuccessBufferedOutput":
                bytes_ = item.fields[0].fields[0]
                good = len(ws) == 1 and is_complete_stdout_write(ws[0][0]) and any(derives_from(ex2, a, bytes_.oid, 0, o.state) for a in ws[0][1])
                r, m = ses.obligation(oid, list(o.pc), z3.BoolVal(not good), "exactly one write_all(buffer) to stdout")
                if r == "sat":
                    flagged.append((oid, "stdout does not receive exactly the buffer (once, completely)", "valid", outfmt_flags(ex2, env, m)))
            else:
                r, m = ses.obligation(oid, list(o.pc), z3.BoolVal(len(ws) != 0), "nothing is written to stdout")
                if r == "sat":
                    flagged.append((oid, f"stdout written for a {kind} result", "parse-error" if kind == "Err" else "valid", outfmt_flags(ex2, env, m)))
    # stdin worker closure: calls format_string and sends its result
    cl = [f for n_, l in funcs.items() for f in l if "{closure" in n_ and
          any(s[0] == "call" and canon(s[2]).split("::")[-1] == "format_string" for sts in f.blocks.values() for s in sts)]
    if not cl:
        raise Inconclusive("no closure calling format_string found")
    for f in cl:
        ex3 = ses.executor("bin", "default", hooks=c14.HOOKS, inline=lambda n_, fn: False)
        a3 = [ex3.fresh_lazy(t, p) for p, t in f.params]
        for pi, o in enumerate(ex3.run(f, a3)):
            for w in find_calls(o.trace, lambda n_: clihooks.is_fs_mutation(n_) or is_stdout_write(n_)):
                r, m = ses.obligation(f"{f.name}/path{pi}/no-direct-output/{w[0]}", list(o.pc), z3.BoolVal(True))
                if r == "sat":
                    flagged.append((f"{f.name}/no-direct-output", "the stdin worker writes to stdout or the file system directly", "valid"))
            rep.add(f"{f.name}/path{pi}/explored", "unsat", "no fs mutation / stdout write in the stdin worker closure") if not find_calls(o.trace, lambda n_: clihooks.is_fs_mutation(n_) or is_stdout_write(n_)) else None
            rep.queries += 0
    flagged += stdin_buffer_untouched(ses, rep, funcs)
    flagged += skip_flag_sources(ses, rep, funcs)
    flagged += range_wiring(ses, rep)
    confirm(rep, flagged)


READ_ARM_CALLS = ("String::new", "stdin", "read_to_string", "map_err", "and_then", "send", "unwrap", "deref", "lock", "clone", "into", "context", "with_context", "expect",
                  "map", "drop", "from", "as_ref", "borrow", "deref_mut", "to_string", "display")


def stdin_buffer_untouched(ses, rep, funcs):
    """the text handed to format_string is the text read from stdin, byte for byte: (a) in the closure that calls format_string the String
    argument comes straight out of the closure's captured variables (moves / copies only - no call in between); (b) the closure that reads
    stdin calls nothing on the buffer but read_to_string (its callees are the plumbing listed in READ_ARM_CALLS)."""
    flagged = []
    cl = [f for n_, l in funcs.items() for f in l if "{closure" in n_ and
          any(s_[0] == "call" and canon(s_[2]).split("::")[-1] == "format_string" for sts in f.blocks.values() for s_ in sts)]
    for f in cl:
        defs = {}
        for sts in f.blocks.values():
            for s_ in sts:
                if s_[0] in ("call", "assign") and s_[1] is not None and not s_[1].proj:
                    defs.setdefault(s_[1].local, []).append(s_)
        for sts in f.blocks.values():
            for s_ in sts:
                if s_[0] == "call" and canon(s_[2]).split("::")[-1] == "format_string" and s_[3]:
                    op = s_[3][0]
                    ok, steps = False, 0
                    while steps < 6:
                        steps += 1
                        loc = op[1] if isinstance(op, tuple) and len(op) > 1 and hasattr(op[1], "local") else None
                        if loc is None:
                            break
                        if loc.local == "_1":           # a field of the closure environment
                            ok = True
                            break
                        ds = defs.get(loc.local, [])
                        if len(ds) != 1 or ds[0][0] != "assign" or not (isinstance(ds[0][2], tuple) and ds[0][2][0] == "use"):
                            break
                        op = ds[0][2][1]
                    r, m = ses.obligation(f"{f.name}/format_string-input-is-the-captured-buffer", [], z3.BoolVal(not ok),
                                          "format_string receives the captured buffer itself (no call rewrites it on the way)")
                    if r == "sat":
                        flagged.append((f"{f.name}/format_string-input-is-the-captured-buffer", "the text read from stdin is rewritten before format_string sees it "
                                        "(the pass-through of an ignored path would echo the rewritten text)", "ignored-passthrough"))
    readers = [f for n_, l in funcs.items() for f in l if "{closure" in n_ and
               any(s_[0] == "call" and canon(s_[2]).split("::")[-1] == "read_to_string" and "Stdin" in s_[2] for sts in f.blocks.values() for s_ in sts)]
    for f in readers:
        other = sorted({canon(s_[2]).split("::")[-1] for sts in f.blocks.values() for s_ in sts if s_[0] == "call"
                        and not any(canon(s_[2]).split("::")[-1] == a.split("::")[-1] for a in READ_ARM_CALLS)})
        r, m = ses.obligation(f"{f.name}/reads-stdin-and-nothing-else", [], z3.BoolVal(bool(other)), "between read_to_string and format_string nothing else is called")
        if r == "sat":
            flagged.append((f"{f.name}/reads-stdin-and-nothing-else", f"the stdin reader also calls {other}: the text may be changed before it is formatted / passed through", "ignored-passthrough"))
    if not cl or not readers:
        raise Inconclusive("stdin reader / format_string caller closures not found")
    return flagged


def skip_flag_sources(ses, rep, funcs):
    """the pass-through flag of the stdin job is `respect_ignores && path_is_stylua_ignored(stdin_filepath)` and nothing else: in format(), every
    definition of each Boolean the stdin worker closure captures besides verify_output is `false` or the Ok payload of path_is_stylua_ignored
    (a further source - an empty range, a cache hit - would echo text that was never parsed)"""
    flagged = []
    fn = [f for f in funcs.get("format", []) if f.kind == "fn"]
    readers = [f for n_, l in funcs.items() for f in l if "{closure" in n_ and f.params and
               any(s_[0] == "call" and canon(s_[2]).split("::")[-1] == "read_to_string" and "Stdin" in s_[2] for sts in f.blocks.values() for s_ in sts)]
    if len(fn) != 1 or not readers:
        raise Inconclusive("format() / the stdin reader closure not found")
    fn = fn[0]
    ctys = {f.params[0][1].lstrip("&").replace("mut ", "").strip() for f in readers}
    defs = {}
    for sts in fn.blocks.values():
        for s_ in sts:
            if s_[0] in ("call", "assign") and s_[1] is not None and not s_[1].proj:
                defs.setdefault(s_[1].local, []).append(s_)
    n = 0
    for sts in fn.blocks.values():
        for s_ in sts:
            if s_[0] == "assign" and isinstance(s_[2], tuple) and s_[2][0] == "aggregate" and s_[2][1] == "closure" and s_[2][2] in ctys:
                for fname, op in s_[2][4]:
                    loc = op[1] if isinstance(op, tuple) and len(op) > 1 and hasattr(op[1], "local") and not op[1].proj else None
                    if loc is None or not re.search(r"skip|ignore|pass", fname):
                        continue
                    n += 1
                    bad = []
                    for d_ in defs.get(loc.local, []):
                        if d_[0] == "call":
                            bad.append(canon(d_[2]).split("::")[-1])
                            continue
                        rv = d_[2]
                        if isinstance(rv, tuple) and rv[0] == "use" and isinstance(rv[1], tuple):
                            if rv[1][0] == "const":
                                if "true" in str(rv[1]):
                                    bad.append("const true")
                                continue
                            src = rv[1][1] if len(rv[1]) > 1 and hasattr(rv[1][1], "local") else None
                            # follow moves back to the Ok payload of a call result
                            steps, okp = 0, False
                            while src is not None and steps < 6:
                                steps += 1
                                if src.proj and any(p_[0] == "downcast" and p_[1] == "Ok" for p_ in src.proj):
                                    calls = [x for x in defs.get(src.local, []) if x[0] == "call"]
                                    okp = bool(calls) and all(canon(x[2]).split("::")[-1] == "path_is_stylua_ignored" for x in calls)
                                    if not okp:
                                        bad += [canon(x[2]).split("::")[-1] for x in calls] or ["?"]
                                    break
                                ds = defs.get(src.local, [])
                                if len(ds) == 1 and ds[0][0] == "assign" and isinstance(ds[0][2], tuple) and ds[0][2][0] == "use" and len(ds[0][2][1]) > 1 and hasattr(ds[0][2][1][1], "local"):
                                    src = ds[0][2][1][1]
                                    continue
                                bad.append("?")
                                break
                            continue
                        bad.append(str(rv)[:40])
                    r, m = ses.obligation(f"format/stdin-job/{fname}/only-from-path_is_stylua_ignored", [], z3.BoolVal(bool(bad)),
                                          "the pass-through flag is false or the answer of path_is_stylua_ignored")
                    if r == "sat":
                        flagged.append((f"format/stdin-job/{fname}/only-from-path_is_stylua_ignored", f"the stdin pass-through flag has another source: {sorted(set(bad))} "
                                        "(text that was never parsed can be echoed with status 0)", "parse-error", ["--range-start", "5", "--range-end", "5"]))
    if n == 0:
        raise Inconclusive("the stdin job closure captures no pass-through flag")
    return flagged


def range_wiring(ses, rep):
    """W  the range handed to the library is Range::from_values(opt.range_start, opt.range_end) exactly when either option is given
    (format() up to the walker set-up, both options symbolic)"""
    flagged = []
    ex = ses.executor("bin", "default", hooks=[clihooks.silence_logging], inline=lambda n_, f: False)
    fn = ses.need(ex, "format")

    def stop(ex_, st, callee, args, dty):
        if canon(callee).split("::")[-1] in ("current_dir",) or canon(callee).endswith("WalkBuilder::new"):
            return ("panic", "stop:range-computed")
        return NotImplemented
    ex.hooks = [stop] + ex.hooks
    ex.max_block_visits = 2
    opt = ex.fresh_lazy(fn.params[0][1], "opt")
    outs = ex.run(fn, [opt])
    T = ex.enums
    n = 0
    rlocs = [loc for loc, ty in fn.locals.items() if re.fullmatch(r"(std::option::)?Option<(stylua_lib::)?Range>", ty.strip())]
    for pi, o in enumerate(outs):
        if o.kind != "panic" or "stop:range-computed" not in str(o.value):
            continue
        st = o.state
        fid = st.stack[0].fid if st.stack else None
        vals = [deref_val(ex, st, st.store[(fid, loc)]) for loc in rlocs if (fid, loc) in st.store]
        vals = [v for v in vals if isinstance(v, (Agg, Lazy))]
        if not vals:
            continue
        n += 1
        fields = {nm: ex.lazy_tab.get((opt.oid, ("field", T.field_index("Opt", nm)))) for nm in ("range_start", "range_end")}
        given = z3.Or([ex.discr(st, f_) == 1 for f_ in fields.values() if f_ is not None] or [z3.BoolVal(False)])
        if any(f_ is None for f_ in fields.values()):
            # an option that is never read cannot influence the range
            missing = [k for k, f_ in fields.items() if f_ is None]
            r, m = ses.obligation(f"range-wiring/path{pi}/both-options-are-read", list(o.pc), z3.BoolVal(True), "format() reads --range-start and --range-end")
            flagged.append((f"range-wiring/path{pi}/both-options-are-read", f"format() decides the range without reading {missing}", "range", []))
            continue
        R = vals[-1]
        is_some = z3.BoolVal(R.variant == "Some") if isinstance(R, Agg) else ex.discr(st, R) == 1
        oid = f"range-wiring/path{pi}/some-iff-an-option-is-given"
        r, m = ses.obligation(oid, list(o.pc), is_some != given, "range is Some iff --range-start or --range-end is given")
        if r == "sat":
            which = [k for k, f_ in fields.items() if m.eval(ex.discr(st, f_), model_completion=True).as_long() == 1]
            flagged.append((oid, f"with {which or 'no range option'} given the library is handed {'a' if z3.is_true(m.eval(is_some, model_completion=True)) else 'NO'} range", "range", []))
        fv = find_calls(o.trace, lambda n_: n_.endswith("Range::from_values"))
        if fv and isinstance(R, Agg) and R.variant == "Some":
            a = [deref_val(ex, st, x) for x in fv[-1][1]]
            ok = len(a) == 2 and all(isinstance(x, Lazy) and isinstance(f_, Lazy) and x.oid == f_.oid for x, f_ in zip(a, fields.values()))
            r, m = ses.obligation(f"range-wiring/path{pi}/from_values(start,end)", list(o.pc), z3.BoolVal(not ok), "Range::from_values(opt.range_start, opt.range_end)")
            if r == "sat":
                flagged.append((f"range-wiring/path{pi}/from_values(start,end)", "the range is not built from (--range-start, --range-end) in that order", "range", []))
    if n == 0:
        raise Inconclusive("format(): the range computation was not reached")
    return flagged


def outfmt_flags(ex, env, m):
    """--output-format value the model needs (the output closure captures output_format)"""
    from . import c13
    outfmt = None
    for k_, v_ in ex.lazy_tab.items():
        if isinstance(v_, Lazy) and "OutputFormat" in v_.ty and k_[0] == env.oid:
            outfmt = v_
    return c13.flags_for_outfmt(ex, m, outfmt)


def identity_bytes(ex, st, callee, args, dty):
    c = canon(callee)
    if c in ("std::string::String::into_bytes", "String::into_bytes", "std::string::String::into_boxed_str"):
        return args[0]
    return NotImplemented


def confirm(rep, flagged):
    if not flagged:
        return
    binp = common.native_build("default")
    bats = {}
    for item in flagged:
        oid, what, kind = item[:3]
        fl = tuple(f for f in (item[3] if len(item) > 3 else []) if f not in ("--check", "--respect-ignores"))
        hit = None
        for flags in ((), fl) if fl else ((),):
            if flags not in bats:
                bats[flags] = {n: (v, r) for n, v, r in concrete_battery(binp, flags)}
            bat = bats[flags]
            if any(v for v, _ in bat.values()):
                break
        cands = [k for k in bat if k == kind or k.startswith(kind + "-")] or list(bat)
        if kind == "fs":
            cands = list(bat)
        hit = None
        for cnd in cands + [k for k in bat if k not in cands]:
            v, r = bat[cnd]
            if v:
                hit = (cnd, v, r); break
        if hit is None:
            rep.add(oid, "inconclusive", f"solver model ({what}) did not reproduce on the native build (stdin battery)")
            continue
        cnd, v, r = hit
        role = {"obligation": re.sub(r"path\d+/", "", oid), "scenario": cnd, "observed": v}
        status = rep.violation(role, {"what": what, "scenario": cnd, "observed": v, "flags": list(flags), "run": clireplay.describe(r)})
        rep.add(oid, status, f"{what}; confirmed by stdin scenario `{cnd}`: {v}")


def fallback(rep):
    """kernels undecided: the stdin battery is run; only a failing concrete oracle is reported"""
    for n, v, r in concrete_battery(common.native_build("default"), ()):
        if v:
            st = rep.violation({"obligation": "battery-after-undecided-kernel", "scenario": n}, {"what": "kernel undecided; stdin battery", "scenario": n, "observed": v, "flags": [],
                                                                                                  "run": clireplay.describe(r)})
            rep.add(f"battery/{n}", st, v)


def replay(path):
    import json
    d = json.load(open(path))
    bat = {n: (v, r) for n, v, r in concrete_battery(common.native_build("default"), d["replay"].get("flags", []))}
    v = bat.get(d["replay"]["scenario"], (None, None))[0]
    print("scenario", d["replay"]["scenario"], "->", v or "property holds")
    if v:
        print(f"VIOLATION property=C17 replay={path}")
        return 1
    return 0

"""C02 — formatting never changes what the program means (kernel scope: one inductive step per formatter + the token rewrites).

A  child preservation, for EVERY function of the library crate that takes a full_moon AST struct `&T` and returns a `T`
   (format_numeric_for, format_if, format_local_assignment, format_function_call, ...): on every control path - all layout decisions
   symbolic - the returned node is built from the input node, and every child slot that is set (`T::with_x(v)` / `T::new(..)`) holds a
   value derived from the input's same-named child `T::x()`; an optional child is dropped (None) only when the input's is None.
   By induction over the tree (children are formatted by the same functions) statements, expression operands, names, parameters,
   types and attributes stay in place.
B  node-kind preservation, for every function that takes an AST enum `&E` and returns an `E` (format_stmt, format_last_stmt,
   format_var, format_suffix, format_index, format_call, format_field, ...): the variant returned is the variant received and its
   payload derives from the input's payload. Documented exceptions: redundant parentheses (decided by C05's composer, run here on a
   small plan), the call sugar f"s" / f{t} <-> f("s") / f({t}) (C11) and parenthesised types.
C  number tokens: the rewrite prepends `0` to a leading `.` and nothing else (C04's number kernel, reused)
D  condition parentheses are removed only at the top of a condition and the inner expression is kept
E  Luau type parentheses: keep_parentheses against the grammar, and the context marks handed to the children of union / intersection /
   optional / variadic types on every layout path (type_context)
"""
import json, re, subprocess, z3

from .. import common, luacorpus
from ..common import Inconclusive
from ..mirsym import Agg, Lazy, Ref, RefV, Str, Sym
from ..session import find_calls
from ..summaries import canon, deref_val
from .c07 import lazy_args

SKIP_FN = re.compile(r"verify_ast|::\{closure|^sort_requires|update_positions|^<|::promoted\[")
ENUM_EXCEPTIONS = {
    # (function regex, from variant, to variant): reason
    ("format_function_args", "Parentheses", "String"): "call sugar (C11)", ("format_function_args", "Parentheses", "TableConstructor"): "call sugar (C11)",
    ("format_function_args", "String", "Parentheses"): "call sugar (C11)", ("format_function_args", "TableConstructor", "Parentheses"): "call sugar (C11)",
}
FUNCTION_PRECONDITIONS = {
    ("format_local_no_assignment", "equal_token"): "called only for `local x` without `=`",
    ("format_local_no_assignment", "expressions"): "called only for `local x` without `=`",
}
# callee -> (predicate name, accessor of the node passed): every call site must sit behind predicate(accessor(node)) == true
CALL_SITE_GUARDS = {"format_local_no_assignment": ("is_empty", "expressions")}
REBUILD_GUARDS = ("is_if_guard", "is_block_simple", "is_block_empty", "should_collapse_function_body")
TUPLE_GETTERS = {("ContainedSpan", "start"): ("tokens", 0), ("ContainedSpan", "end"): ("tokens", 1)}
PAREN_FUNCS = re.compile(r"^(format_expression|format_expression_internal|format_hanging_expression_|hang_expression|hang_expression_trailing_newline|"
                         r"hang_binop_expression|format_type_info|format_type_info_internal|hang_type_info|remove_type_parentheses|format_hangable_type_info|"
                         r"format_token_expression_sequence|keep_minus_minus_parentheses|remove_condition_parentheses|format_prefix|.*hang.*type.*)$")


def last_seg(t):
    t = t.strip().lstrip("&").replace("mut ", "").strip()
    t = re.sub(r"<.*>$", "", t)
    return t.split("::")[-1]


class Prov:
    """provenance: the lazy objects a value was computed from (through havoc'd calls, aggregates, references, parents)"""
    def __init__(self, ex, o):
        self.ex, self.o, self.memo = ex, o, {}
        # objects mutated through &mut arguments: local store key -> values passed alongside
        self.mut, self.mutobj = {}, {}
        ev = [t for t in o.trace if t[0] == "havoc"]
        # values written through raw pointers (box contents): attributed to the allocation they were written into
        written = {}
        for (oid, key), val in o.state.over.items():
            root = oid
            while root in ex.parent:
                root = ex.parent[root][0]
            written.setdefault(root, []).append(val)
            written.setdefault(oid, []).append(val)
        for root, vals in written.items():
            self.mutobj.setdefault(root, []).extend(vals)
        for i, t in enumerate(ev):
            if "into_vec" in t[1] and isinstance(t[3], Lazy) and t[2]:
                box = t[4][0] if len(t) > 4 else t[2][0]
                if isinstance(box, Lazy):
                    self.mutobj.setdefault(t[3].oid, []).extend(written.get(box.oid, []))
            # vec![..]: the elements are written through the raw box pointer between Box::new_uninit and ..into_vec..
            if "into_vec" in t[1] and isinstance(t[3], Lazy) and t[2]:
                box = t[4][0] if len(t) > 4 else t[2][0]
                js = [k for k in range(i) if ev[k][3] is box]
                if js:
                    self.mutobj.setdefault(t[3].oid, []).extend(e[3] for e in ev[js[-1] + 1:i])
        for t in o.trace:
            if t[0] == "havoc" and t[2] and isinstance(t[2][0], Ref) and t[2][0].mut:
                self.mut.setdefault(t[2][0].key, []).extend(t[4][1:] if len(t) > 4 else t[2][1:])
                if len(t) > 4 and isinstance(t[4][0], Lazy):
                    self.mutobj.setdefault(t[4][0].oid, []).extend(t[4][1:])

    def of(self, v, depth=0, stop=frozenset()):
        """`stop`: objects treated as opaque leaves (other children's accessor results), so that reaching the input node through them
        does not count"""
        ex, st = self.ex, self.o.state
        stop = frozenset(stop)
        if depth > 40 or v is None:
            return set()
        if isinstance(v, Ref):
            try:
                inner = ex._read_key(st, v.key, v.path)
            except Exception:
                return set()
            out = set(self.of(inner, depth + 1, stop))
            for a in self.mut.get(v.key, []):
                out |= self.of(a, depth + 1, stop)
            return out
        if isinstance(v, RefV):
            return self.of(v.v, depth + 1, stop)
        if isinstance(v, Agg):
            out = set()
            for f in v.fields:
                out |= self.of(f, depth + 1, stop)
            return out
        if isinstance(v, Lazy):
            key = (v.oid, stop)
            if key in self.memo:
                return self.memo[key]
            self.memo[key] = set()
            if v.oid in stop:
                self.memo[key] = {v.oid}
                return {v.oid}
            out = set()
            o_ = v.oid
            while o_ is not None:
                out.add(o_)
                if o_ in stop:
                    break
                o_ = ex.parent.get(o_, (None,))[0]
            for a in self.mutobj.get(v.oid, []):
                out |= self.of(a, depth + 1, stop)
            for oid in list(out):
                if oid in ex.havoc_calls and oid not in stop:
                    for a in ex.havoc_snap.get(oid, ex.havoc_calls[oid][1]):
                        out |= self.of(a, depth + 1, stop)
            self.memo[key] = out
            return out
        return set()


def _prov_direct(self, v, stop=frozenset(), depth=0, seen=None):
    """objects that flow into `v` AS VALUES: v itself, the arguments of the calls it was computed by, aggregate fields, written box
    contents - and the deref twins of each; a field of an object does NOT make the object itself flow (unlike `of`)"""
    ex, st = self.ex, self.o.state
    seen = set() if seen is None else seen
    out = set()
    if depth > 40 or v is None:
        return out
    if isinstance(v, Ref):
        try:
            inner = ex._read_key(st, v.key, v.path)
        except Exception:
            return out
        out |= self.direct(inner, stop, depth + 1, seen)
        for a in self.mut.get(v.key, []):
            out |= self.direct(a, stop, depth + 1, seen)
        return out
    if isinstance(v, RefV):
        return self.direct(v.v, stop, depth + 1, seen)
    if isinstance(v, Agg):
        for f in v.fields:
            out |= self.direct(f, stop, depth + 1, seen)
        return out
    if isinstance(v, Lazy):
        if v.oid in seen:
            return out
        seen.add(v.oid)
        out.add(v.oid)
        if v.oid in stop:
            return out
        # deref twins: &T and T are the same object for this purpose
        o_ = v.oid
        while o_ in ex.parent and ex.parent[o_][1] == ("deref",):
            o_ = ex.parent[o_][0]
            out.add(o_)
        for (po, key), ch in ex.lazy_tab.items():
            if po == v.oid and key == ("deref",) and isinstance(ch, Lazy):
                out.add(ch.oid)
        for a in self.mutobj.get(v.oid, []):
            out |= self.direct(a, stop, depth + 1, seen)
        # a value computed by a call: its arguments flow in; a field of a call result: the call's arguments flow in as well
        root = v.oid
        while root in ex.parent:
            root = ex.parent[root][0]
        if root in ex.havoc_calls and root not in stop:
            for a in ex.havoc_snap.get(root, ex.havoc_calls[root][1]):
                out |= self.direct(a, stop, depth + 1, seen)
        return out
    return out


Prov.direct = _prov_direct


def locals_mutated(ex, o, fr_fn):
    return {}


def struct_functions(funcs, types=None, by_value=False):
    for name, l in sorted(funcs.items()):
        for f in l:
            if SKIP_FN.search(f.name) or not f.params or not f.ret:
                continue
            rt = last_seg(f.ret)
            if rt.startswith("Box"):
                continue
            ins = [i for i, (p, t) in enumerate(f.params) if (t.startswith("&") or by_value) and last_seg(t) == rt]
            if len(ins) == 1 and (types is None or rt in types):
                yield f, rt, ins[0]


_MIR_TEXT = {}


def child_exists(ses, fs, rt, names):
    """is the child compiled in under this feature set? (some builder / accessor of it is called somewhere in the crate's MIR)"""
    if fs not in _MIR_TEXT:
        _MIR_TEXT[fs] = open(ses.mir_path("lib", fs)).read()
    txt = _MIR_TEXT[fs]
    return any(f"{rt}::with_{n}" in txt or f"{rt}::{n}(" in txt for n in names)


def analyse_structs(ses, rep, fs, sigs):
    flagged = []
    funcs = ses.mir("lib", fs)
    T = ses.enums(fs)
    n_fn = n_slots = 0
    not_encoded = []
    for f, rt, ai in struct_functions(funcs, sigs.get("__types__")):
        is_enum = T.variants(rt) is not None and rt not in T.structs
        ex = ses.executor("lib", fs, inline=lambda n_, fn: False)
        ex.max_block_visits = 2
        ex.max_paths = 6000
        try:
            args = lazy_args(ex, f)
            outs = ex.run(f, args)
        except Inconclusive as e:
            if "budget" not in str(e):
                not_encoded.append(f"{f.name}: {str(e)[:70]}")
                continue
            # too many paths with two loop visits: one visit per loop head
            ex = ses.executor("lib", fs, inline=lambda n_, fn: False)
            ex.max_block_visits = 1
            try:
                args = lazy_args(ex, f)
                outs = ex.run(f, args)
                rep.extra.setdefault("single_loop_visit", []).append(f.name)
            except Inconclusive as e2:
                not_encoded.append(f"{f.name}: {str(e2)[:70]}")
                continue
        node = args[ai].v if isinstance(args[ai], RefV) else args[ai]
        if not isinstance(node, Lazy):
            continue
        rets = [o for o in outs if o.kind == "return"]
        if not rets:
            continue
        rep.fn(f)
        n_fn += 1
        for pi, o in enumerate(rets):
            P = Prov(ex, o)
            v = deref_val(ex, o.state, o.value)
            for t in o.trace:
                if t[0] == "havoc" and t[1].split("::")[-1] in CALL_SITE_GUARDS and f.name != t[1].split("::")[-1]:
                    pred, accn = CALL_SITE_GUARDS[t[1].split("::")[-1]]
                    target = deref_val(ex, o.state, t[4][1] if len(t) > 4 else t[2][1])
                    tests = [u for u in o.trace if u[0] == "havoc" and u[1].split("::")[-1] == pred and isinstance(u[3], Sym)
                             and isinstance(u[4][0], Lazy) and u[4][0].oid in ex.havoc_calls and ex.havoc_calls[u[4][0].oid][0].split("::")[-1] == accn
                             and deref_val(ex, o.state, ex.havoc_snap[u[4][0].oid][0]) is target]
                    bad = z3.BoolVal(True) if not tests else z3.Not(tests[0][3].t)
                    r, m = ses.obligation(f"guard/{fs}/{f.name}/path{pi}/{t[1].split('::')[-1]}-only-if-{accn}-{pred}", list(o.pc), bad,
                                          f"{t[1].split('::')[-1]} is called only when {accn}().{pred}()")
                    if r == "sat":
                        flagged.append((f"guard/{fs}/{f.name}/path{pi}", f"{f.name} calls {t[1].split('::')[-1]} although {accn}() may be non-empty (its values would be dropped)",
                                        "child", {"function": f.name, "type": rt, "slot": accn}))
            # a Block rebuilt from a single statement of the input block (collapsed `if x then f() end`, one-line function bodies)
            # silently drops every other statement: only allowed behind a guard that implies is_block_simple / is_block_empty
            for t in o.trace:
                if t[0] == "havoc" and re.search(r"(^|::)Block::with_(stmts|last_stmt)$", t[1]) and len(t) > 4 and isinstance(t[4][0], Lazy) \
                        and ex.havoc_calls.get(t[4][0].oid, ("",))[0].endswith("Block::new") \
                        and (t[1].endswith("with_last_stmt") or (isinstance(t[4][1], Lazy) and "into_vec" in ex.havoc_calls.get(t[4][1].oid, ("",))[0])):
                    # (with_stmts(vec![one statement]) or with_last_stmt on a fresh block; a block rebuilt from a loop over all statements is
                    #  decided by the child-slot obligations)
                    gs = [u[3].t for u in o.trace if u[0] == "havoc" and u[1].split("::")[-1] in REBUILD_GUARDS and isinstance(u[3], Sym) and z3.is_bool(u[3].t)]
                    bad = z3.And(*[z3.Not(g) for g in gs]) if gs else z3.BoolVal(True)
                    r, m = ses.obligation(f"rebuild/{fs}/{f.name}/path{pi}/{t[1].split('::')[-1]}-only-behind-a-simple-block-guard", list(o.pc), bad,
                                          "a block is rebuilt from one statement only where a guard says it has no other statement")
                    if r == "sat":
                        flagged.append((f"rebuild/{fs}/{f.name}/path{pi}", f"{f.name} rebuilds a block from a single statement without a guard that the block has no other statement",
                                        "rebuild", {"function": f.name, "type": "If"}))
            flagged += inner_kinds(ses, rep, ex, T, f, o, pi, P, fs, args)
            if is_enum:
                flagged += check_enum(ses, rep, ex, T, f, rt, node, o, pi, v, P, fs)
                continue
            # builder chain
            sets = {}
            cur = v
            base = None
            while True:
                if isinstance(cur, Lazy) and cur.oid in ex.havoc_calls:
                    nm, a = ex.havoc_calls[cur.oid]
                    m_ = re.search(r"(?:^|::)" + re.escape(rt) + r"::with_([a-z_0-9]+)$", nm)
                    if m_ and len(a) == 2:
                        sets.setdefault(m_.group(1), a[1])
                        cur = deref_val(ex, o.state, a[0])
                        continue
                    if re.search(r"(?:^|::)" + re.escape(rt) + r"::new$", nm):
                        base = ("new", a)
                        break
                base = ("value", cur)
                break
            oid0 = f"child/{fs}/{f.name}/path{pi}"
            byoid_l = {t[3].oid: t[3] for t in o.trace if t[0] == "havoc" and isinstance(t[3], Lazy)}
            acc = {}
            for t in o.trace:
                if t[0] in ("havoc", "effect"):
                    m_ = re.search(r"(?:^|::)" + re.escape(rt) + r"::([a-z_0-9]+)$", t[1])
                    if m_ and t[2] and not m_.group(1).startswith("with_") and m_.group(1) != "new":
                        a0 = deref_val(ex, o.state, t[2][0])
                        if a0 is node:
                            acc.setdefault(m_.group(1), t[3])
            if base[0] == "value":
                ok = node.oid in P.of(base[1])
                if not ok:
                    r, m = ses.obligation(oid0 + "/built-from-the-input-node", list(o.pc), z3.BoolVal(True), "the node returned derives from the node received")
                    if r == "sat":
                        flagged.append((oid0, f"{f.name} returns a {rt} that is not built from its input", "child", {"function": f.name, "type": rt}))
                    continue
            else:
                params = sigs.get((rt, "new"))
                if params and len(params) == len(base[1]):
                    for pn, a in zip(params, base[1]):
                        sets.setdefault(pn, a)
                else:
                    rep.extra.setdefault("unknown_constructors", []).append(f"{rt}::new in {f.name}")
                # a node built afresh with T::new: every child slot the builder chain does NOT set keeps new()'s default (absent / empty),
                # i.e. the input's child is dropped - allowed only where the input's accessor was asked and says there is none
                if params and len(params) == len(base[1]):
                    for (ty_, slot_), wty in sorted(sigs.get("__withty__", {}).items()):
                        if ty_ != rt or slot_ in sets or re.search(r"TokenReference|ContainedSpan", wty):
                            continue
                        field_ = sigs.get("__set__", {}).get((rt, slot_), slot_)
                        if not child_exists(ses, fs, rt, [slot_] + sigs.get("__get__", {}).get((rt, field_), [])):
                            continue        # the child does not exist under this feature set (cfg-gated field of full_moon: nothing in the MIR names it)
                        if field_ in sets or any(sigs.get("__set__", {}).get((rt, s2), s2) == field_ for s2 in sets):
                            continue
                        getters_ = [slot_] + sigs.get("__get__", {}).get((rt, field_), [])
                        read = [acc[g] for g in getters_ if g in acc]
                        if read and wty.startswith("Option<"):
                            ds = [ex.discr(o.state, x) for x in read if isinstance(x, (Lazy, Agg))]
                            bad = z3.BoolVal(True) if not ds else z3.And(*[d_ != z3.BitVecVal(0, 64) for d_ in ds])
                        elif read:
                            tests = [t for t in o.trace if t[0] == "havoc" and re.search(r"(^|::)is_(block_)?empty$", t[1]) and isinstance(t[3], Sym)
                                     and any(isinstance(x, Lazy) and x.oid in P.of(t[4][0] if len(t) > 4 else t[2][0]) for x in read)]
                            bad = z3.BoolVal(True) if not tests else z3.Not(tests[0][3].t)
                        else:
                            bad = z3.BoolVal(True)
                        n_slots += 1
                        r, m = ses.obligation(f"{oid0}/{slot_}/not-set-on-a-fresh-node", list(o.pc), bad,
                                              f"{rt}::new(..) without with_{slot_}: the input's `{slot_}` is absent on this path")
                        if r == "sat":
                            flagged.append((f"{oid0}/{slot_}", f"{f.name} rebuilds the {rt} with {rt}::new and never sets `{slot_}`: the input's `{slot_}` is dropped", "child",
                                            {"function": f.name, "type": rt, "slot": slot_}))
            for slot, val in sorted(sets.items()):
                n_slots += 1
                val = deref_val(ex, o.state, val)
                field = sigs.get("__set__", {}).get((rt, slot), slot)
                getters = [slot] + sigs.get("__get__", {}).get((rt, field), [])
                src = next((acc[g] for g in getters if g in acc), None)
                others = {v_.oid for g, v_ in acc.items() if g not in getters and isinstance(v_, Lazy)}
                if (rt, slot) in TUPLE_GETTERS and TUPLE_GETTERS[(rt, slot)][0] in acc:
                    g_, i_ = TUPLE_GETTERS[(rt, slot)]
                    whole = acc[g_]
                    src = ex.lazy_tab.get((whole.oid, ("field", i_))) if isinstance(whole, Lazy) else None
                    others = {x.oid for k_, x in ex.lazy_tab.items() if k_[0] == getattr(whole, "oid", None) and k_[1][0] == "field" and k_[1][1] != i_ and isinstance(x, Lazy)}
                    if src is None:
                        others = set()
                pv = P.of(val, stop=others)
                oid = f"{oid0}/{slot}"
                if src is None:
                    # the input's child was not read through its accessor on this path: the value must still come from the input node
                    ok = node.oid in pv
                    none = isinstance(val, Agg) and val.variant == "None"
                    if none and (rt, slot) in sigs.get("__optional__", set()):
                        ok = False
                    bad = z3.BoolVal(not ok)
                elif isinstance(val, Agg) and val.variant == "None":
                    # dropped only if (one of) the input's accessor(s) for this child says it is absent
                    ds = [ex.discr(o.state, acc[g]) for g in getters if g in acc and isinstance(acc[g], (Lazy, Agg))]
                    bad = z3.BoolVal(True) if not ds else z3.And(*[d_ != z3.BitVecVal(0, 64) for d_ in ds])
                else:
                    so = src.oid if isinstance(src, Lazy) else None
                    ok = ((so in pv) if so is not None else bool(P.of(src) & pv)) or node.oid in pv
                    if not ok and isinstance(val, Lazy) and val.oid not in P.mutobj and re.search(r"::(new|with_capacity|default)$", ex.havoc_calls.get(val.oid, ("",))[0]) is not None:
                        # a collection filled by a loop over the input's child, on the path where that loop does not iterate
                        # (the iterating paths decide the loop body)
                        ok = any(t[0] == "havoc" and t[1].endswith("Iterator>::next") and so in P.of(t[4][0] if len(t) > 4 else t[2][0]) for t in o.trace)
                    if not ok and isinstance(val, Lazy) and val.oid not in P.mutobj and re.search(r"::(new|with_capacity|default)$", ex.havoc_calls.get(val.oid, ("",))[0]) is not None:
                        # an empty child replaced by a fresh empty one: only under an emptiness test of the input's child that holds on this path
                        tests = [t for t in o.trace if t[0] == "havoc" and re.search(r"(^|::)is_(block_)?empty$", t[1]) and isinstance(t[3], Sym)
                                 and so in P.of(t[4][0] if len(t) > 4 else t[2][0])]
                        if tests and all(ses.check(list(o.pc) + [z3.Not(t[3].t)], 20)[0] == "unsat" for t in tests[:1]):
                            ok = True
                    bad = z3.BoolVal(not ok)
                if (f.name, slot) in FUNCTION_PRECONDITIONS and not z3.is_false(z3.simplify(bad)):
                    rep.add(oid, "unsat", "by the function's precondition: " + FUNCTION_PRECONDITIONS[(f.name, slot)] + " (decided at the call sites)", nontrivial=False)
                    continue
                r, m = ses.obligation(oid, list(o.pc), bad, f"{rt}.{slot} of the result derives from {rt}::{slot}() of the input (None only if that is None)")
                if r == "sat":
                    flagged.append((oid, f"{f.name}: the `{slot}` child of the returned {rt} does not come from the input's `{slot}`", "child",
                                    {"function": f.name, "type": rt, "slot": slot}))
                # a child LIST keeps its elements in place: between the input's list and the slot no adaptor that drops, reorders or compacts
                # elements (`.flatten()` over Option elements shifts the later ones to the left: `local a, b <const>` -> `local a <const>, b`)
                if src is not None and isinstance(src, Lazy):
                    def over_the_list(o_, depth=0):
                        """is call result o_ an iterator chain over the child list itself (not over something read out of an element)?"""
                        if o_ == src.oid:
                            return True
                        hc = ex.havoc_calls.get(o_)
                        if hc is None or depth > 10 or hc[0].split("::")[-1] not in (LOSSY_ADAPTORS | ITER_CHAIN):
                            return False
                        a0 = ex.havoc_snap.get(o_, hc[1])
                        a0 = deref_val(ex, o.state, a0[0]) if a0 else None
                        return isinstance(a0, Lazy) and over_the_list(a0.oid, depth + 1)
                    lossy = sorted({ex.havoc_calls[o_][0].split("::")[-1] for o_ in pv if o_ in ex.havoc_calls
                                    and ex.havoc_calls[o_][0].split("::")[-1] in LOSSY_ADAPTORS and over_the_list(o_)})
                    if lossy:
                        r, m = ses.obligation(oid + "/elements-stay-in-place", list(o.pc), z3.BoolVal(True), "no filter / flatten / skip / take / rev / sort between the input's list and the slot")
                        if r == "sat":
                            flagged.append((oid + "/elements-stay-in-place", f"{f.name}: the `{slot}` list of the returned {rt} goes through {lossy}: elements can be dropped or "
                                            "shifted against their siblings", "child", {"function": f.name, "type": rt, "slot": slot}))
    rep.bounds[f"struct_and_enum_formatters_{fs}"] = n_fn
    rep.bounds[f"child_slots_{fs}"] = n_slots
    rep.extra.setdefault("not_encoded", []).extend(not_encoded)
    if n_fn < 40:
        raise Inconclusive(f"only {n_fn} formatter functions recognised for {fs}")
    return flagged


LOSSY_ADAPTORS = {"filter", "filter_map", "flatten", "flat_map", "skip", "take", "rev", "step_by", "skip_while", "take_while", "dedup", "sort", "sort_by", "sort_by_key",
                  "retain", "truncate", "pop", "remove", "swap_remove", "nth", "last"}
ITER_CHAIN = {"iter", "into_iter", "pairs", "into_pairs", "map", "cloned", "copied", "enumerate", "zip", "peekable", "by_ref", "deref", "as_ref", "to_owned", "clone",
              "collect", "iter_mut", "borrow"}
KIND_ENUMS = ("Stmt", "LastStmt", "Expression", "Prefix", "Suffix", "Call", "Index", "Var", "Field", "FunctionArgs", "UnOp", "BinOp", "TypeInfo",
              "IndexedTypeInfo", "TypeFieldKey", "GenericParameterInfo", "CompoundOp", "Parameter", "InterpolatedStringSegment", "LuauAttribute")


def inner_kinds(ses, rep, ex, T, f, o, pi, P, fs, args):
    """B for nodes rebuilt INSIDE a function: an AST enum value constructed on the path and carried by the result, whose payload is taken
    from variant W of an enum object of the same type, is of variant W (`Variadic { name, .. } => Name(name)` drops the `...`)."""
    flagged = []
    if PAREN_FUNCS.match(f.name):
        return flagged
    st = o.state
    byoid = {}
    for a in args:
        a = a.v if isinstance(a, RefV) else a
        if isinstance(a, Lazy):
            byoid[a.oid] = a
    for (_, _k), ch in ex.lazy_tab.items():
        if isinstance(ch, Lazy):
            byoid[ch.oid] = ch
    for hv in ex.havoc_memo.values():
        if isinstance(hv, Lazy):
            byoid[hv.oid] = hv
    for t in o.trace:
        if t[0] == "havoc" and isinstance(t[3], Lazy):
            byoid[t[3].oid] = t[3]
    found, seen = [], set()

    def walk(v, depth=0):
        if depth > 30 or v is None:
            return
        if isinstance(v, Ref):
            try:
                walk(ex._read_key(st, v.key, v.path), depth + 1)
            except Exception:
                pass
            return
        if isinstance(v, RefV):
            return walk(v.v, depth + 1)
        if isinstance(v, Agg):
            if id(v) in seen:
                return
            seen.add(id(v))
            if v.variant and v.ty and last_seg(v.ty) in KIND_ENUMS:
                found.append(v)
            for x in v.fields:
                walk(x, depth + 1)
            return
        if isinstance(v, Lazy):
            if v.oid in seen:
                return
            seen.add(v.oid)
            for a in P.mutobj.get(v.oid, []):
                walk(a, depth + 1)
            root = v.oid
            while root in ex.parent:
                root = ex.parent[root][0]
            if root in ex.havoc_calls:
                for a in ex.havoc_snap.get(root, ex.havoc_calls[root][1]):
                    walk(a, depth + 1)
    walk(o.value)
    for k, A in enumerate(found):
        E = last_seg(A.ty)
        src = {}
        for x in A.fields:
            for c in P.direct(x):
                par = ex.parent.get(c)
                if par and par[1][0] == "vfield" and par[0] in byoid and last_seg(byoid[par[0]].ty) == E:
                    src.setdefault(par[0], set()).add(par[1][1])
        for L, ws in sorted(src.items()):
            if A.variant in ws or any((f.name, w, A.variant) in ENUM_EXCEPTIONS for w in ws):
                continue
            w = sorted(ws)[0]
            oid = f"kind/{fs}/{f.name}/path{pi}/inner-{E}-{w}-rebuilt-as-{A.variant}"
            r, m = ses.obligation(oid, list(o.pc), z3.BoolVal(True), "an enum node rebuilt from the payload of variant W is of variant W")
            if r == "sat":
                flagged.append((oid, f"{f.name} rebuilds a {E}::{w} as a {E}::{A.variant}", "kind", {"function": f.name, "type": E, "from": w, "to": A.variant}))
    return flagged


# Luau type grammar: which marks the children of a type node must be formatted under (parentheses around a child are dropped unless
# keep_parentheses sees the mark), and when parentheses around a type of a given kind are needed
CHILD_MARK = {"Union": "contains_union", "Intersection": "contains_intersect", "Optional": "within_optional", "Variadic": "within_variadic"}
NEEDS_PARENS = {"Callback": ("within_optional", "within_variadic", "contains_union", "contains_intersect"),
                "Union": ("within_optional", "within_variadic", "contains_intersect"),
                "Optional": ("within_optional", "within_variadic", "contains_intersect"),
                "Intersection": ("within_optional", "within_variadic", "contains_union")}


def type_context(ses, rep, fs="full"):
    """E  Luau type parentheses. (1) keep_parentheses returns true whenever the grammar needs the parentheses (NEEDS_PARENS; under
    within_generic always: a parenthesised list there is a type pack). (2) every in-crate type formatter that receives a TypeInfoContext
    passes, for the children of a Union / Intersection / Optional / Variadic node, a context with the corresponding mark set - on every
    layout path (single line and hanging), helpers that take a context inlined."""
    flagged = []
    funcs = ses.mir("lib", fs)
    T = ses.enums(fs)
    fields = [f_[0] for f_ in (T.structs.get("TypeInfoContext") or [])]
    if not fields:
        raise Inconclusive("TypeInfoContext not found")
    has_ctx = lambda fn: any("TypeInfoContext" in t for _, t in fn.params) or (fn.ret and "TypeInfoContext" in fn.ret)
    main = [f for l in funcs.values() for f in l if any(last_seg(t) == "TypeInfoContext" for _, t in f.params)
            and any(t.startswith("&") and last_seg(t) == "TypeInfo" for _, t in f.params) and f.ret and last_seg(f.ret) == "TypeInfo"]
    main_names = {f.name for f in main}
    vs = [v[0] for v in T.variants("TypeInfo")]

    def flag_of(ex, st, cv, name):
        cv = deref_val(ex, st, cv)
        i = fields.index(name)
        if isinstance(cv, Agg):
            x = cv.fields[cv.names.index(name)] if cv.names and name in cv.names else cv.fields[i]
            x = deref_val(ex, st, x)
            return x.t if isinstance(x, Sym) else None
        if isinstance(cv, Lazy):
            x = ex.lazy_tab.get((cv.oid, ("field", i)))
            return x.t if isinstance(x, Sym) else z3.Bool(f"ctx{cv.oid}.{name}")
        return None
    # (1)
    kp = [f for l in funcs.values() for f in l if f.name == "keep_parentheses"]
    if not kp:
        raise Inconclusive("keep_parentheses not found")
    ex = ses.executor("lib", fs, inline=lambda n, fn: False)
    args = lazy_args(ex, kp[0])
    outs = ex.run(kp[0], args)
    rep.fn(kp[0])
    ty = next(a.v if isinstance(a, RefV) else a for a, (p_, t_) in zip(args, kp[0].params) if last_seg(t_) == "TypeInfo")
    cx = next(a for a, (p_, t_) in zip(args, kp[0].params) if last_seg(t_) == "TypeInfoContext")
    d = ex.discr(None, ty)
    for pi, o in enumerate(outs):
        if o.kind != "return" or not isinstance(o.value, Sym) or not ses.reachable(list(o.pc) + [z3.Not(o.value.t)]):
            continue
        fl = {n_: flag_of(ex, o.state, cx, n_) for n_ in fields}
        need = z3.Or([z3.And(d == z3.BitVecVal(vs.index(k), 64), z3.Or([fl[m_] for m_ in marks])) for k, marks in NEEDS_PARENS.items() if k in vs]
                     + [fl["within_generic"]])
        r, m = ses.obligation(f"type-parens/{fs}/keep_parentheses/path{pi}/true-whenever-needed", list(o.pc) + [z3.Not(o.value.t)], need,
                              "keep_parentheses is true for a function type under ?/.../|/&, a union under ?/.../&, an intersection under ?/.../|, and in generics")
        if r == "sat":
            k = vs[m.eval(d, model_completion=True).as_long()] if m.eval(d, model_completion=True).as_long() < len(vs) else "?"
            on = [n_ for n_ in fields if z3.is_true(m.eval(fl[n_], model_completion=True))]
            flagged.append((f"type-parens/{fs}/keep_parentheses/path{pi}", f"keep_parentheses is false for a parenthesised TypeInfo::{k} under {on}", "type-parens",
                            {"kind": k, "marks": on}))
    # (2)
    n_calls = 0
    for f in sorted(main, key=lambda f_: f_.name):
        ex = ses.executor("lib", fs, inline=lambda n, fn: has_ctx(fn) and fn.name not in main_names and fn.name != "keep_parentheses" and len(fn.blocks) <= 80)
        ex.max_block_visits = 2
        ex.max_paths = 8000
        try:
            args = lazy_args(ex, f)
            outs = ex.run(f, args)
        except Inconclusive as e:
            ex = ses.executor("lib", fs, inline=lambda n, fn: has_ctx(fn) and fn.name not in main_names and fn.name != "keep_parentheses" and len(fn.blocks) <= 80)
            ex.max_block_visits = 1
            args = lazy_args(ex, f)
            outs = ex.run(f, args)
        rep.fn(f)
        ty = next(a.v if isinstance(a, RefV) else a for a, (p_, t_) in zip(args, f.params) if last_seg(t_) == "TypeInfo")
        d = ex.discr(None, ty)
        for pi, o in enumerate(outs):
            if o.kind not in ("return", "loopbound"):      # a path cut at the loop bound still shows the calls of the loop body
                continue
            for k, mark in CHILD_MARK.items():
                if k not in vs or not ses.reachable(list(o.pc) + [d == z3.BitVecVal(vs.index(k), 64)]) or ses.reachable(list(o.pc) + [d != z3.BitVecVal(vs.index(k), 64)]):
                    continue
                for ci, t in enumerate(o.trace):
                    if t[0] != "havoc" or t[1].split("::")[-1] not in {n_.split("::")[-1] for n_ in main_names}:
                        continue
                    g = ex.resolve(t[1])
                    if g is None or g.name not in main_names:
                        continue
                    snap = t[4] if len(t) > 4 else t[2]
                    ai = next(i for i, (p_, t_) in enumerate(g.params) if last_seg(t_) == "TypeInfoContext")
                    ti = next(i for i, (p_, t_) in enumerate(g.params) if t_.startswith("&") and last_seg(t_) == "TypeInfo")
                    if deref_val(ex, o.state, snap[ti]) is ty:
                        continue          # the node itself handed to another layout of the same node: its context is the caller's
                    flg = flag_of(ex, o.state, snap[ai], mark)
                    n_calls += 1
                    oid = f"type-parens/{fs}/{f.name}/path{pi}/call{ci}-{t[1].split('::')[-1]}-of-{k}-child-has-{mark}"
                    r, m = ses.obligation(oid, list(o.pc), z3.BoolVal(True) if flg is None else z3.Not(flg), f"children of a {k} are formatted under {mark}")
                    if r == "sat":
                        flagged.append((oid, f"{f.name} formats a child of a TypeInfo::{k} through {t[1].split('::')[-1]} without `{mark}` in the context: "
                                             "parentheses the child needs can be removed", "type-parens", {"kind": k, "marks": [mark], "function": f.name}))
    if n_calls < 8:
        raise Inconclusive(f"type-context kernel: only {n_calls} child calls recognised")
    rep.bounds["type_context_child_calls"] = n_calls
    return flagged


TYPE_PROGRAMS = [
    "type Listener = nil | ((eventName: string, payload: EventPayload) -> boolean) | ListenerObject\n",
    "type Handler = ((eventName: string, payload: EventPayload) -> boolean) & ((otherName: number) -> string) & Extra\n",
    "type Mixed = FirstAlternativeTypeName | (SecondMemberTypeName & ThirdMemberTypeName) | FourthAlternativeTypeName\n",
    "type Mixed2 = FirstAlternativeTypeName & (SecondMemberTypeName | ThirdMemberTypeName) & FourthAlternativeTypeName\n",
    "type Opt = ((eventName: string, payload: EventPayload) -> boolean)?\ntype Opt2 = (FirstAlternativeTypeName | SecondMemberTypeName)?\n",
    "type Var = (...(FirstAlternativeTypeName | SecondMemberTypeName)) -> ()\n",
    "local callback: nil | ((eventName: string, payload: EventPayload) -> boolean) | ListenerObject = nil\n",
    "type T = { field: nil | ((eventName: string, payload: EventPayload) -> boolean) | ListenerObject }\n",
    "type Pack = Callback<(number, string)>\n",
]


def replay_type_parens(info):
    """every parenthesis of these programs is needed: the parenthesis tokens of the output are those of the input"""
    binp = common.native_build("full")
    for src in TYPE_PROGRAMS:
        for w in (120, 80, 60, 40, 20):
            r = subprocess.run([binp, "--syntax", "Luau", "--column-width", str(w), "-"], input=src.encode(), capture_output=True, timeout=60)
            if r.returncode != 0:
                continue
            out = r.stdout.decode("utf-8", "replace")
            par = lambda s_: [c for c in re.sub(r"--[^\n]*", "", s_) if c in "()"]
            if par(out) != par(src):
                return f"--column-width {w}: {src.strip()!r} is printed as {out.strip()!r}: needed type parentheses are gone", {"source": src, "flags": ["--syntax", "Luau", "--column-width", str(w)], "output": out}
    return None, {}


def check_enum(ses, rep, ex, T, f, rt, node, o, pi, v, P, fs):
    flagged = []
    vs = [x[0] for x in T.variants(rt)]
    d = ex.discr(o.state, node)
    oid0 = f"kind/{fs}/{f.name}/path{pi}"
    if isinstance(v, Agg) and v.variant in vs:
        if PAREN_FUNCS.match(f.name):
            return flagged
        allowed = [i for i, n_ in enumerate(vs) if n_ == v.variant or (f.name, n_, v.variant) in ENUM_EXCEPTIONS]
        bad = z3.And(*[d != z3.BitVecVal(i, 64) for i in allowed])
        r, m = ses.obligation(oid0 + f"/returns-{v.variant}-only-for-{v.variant}", list(o.pc) + ex.all_discr_ranges(), bad, "the node kind returned is the node kind received")
        if r == "sat":
            got = vs[m.eval(d, model_completion=True).as_long()]
            flagged.append((oid0, f"{f.name} turns a {rt}::{got} into a {rt}::{v.variant}", "kind", {"function": f.name, "type": rt, "from": got, "to": v.variant}))
        if v.fields and not any(node.oid in P.of(x) for x in v.fields):
            r, m = ses.obligation(oid0 + "/payload-from-input", list(o.pc), z3.BoolVal(True), "the payload derives from the input node")
            if r == "sat":
                flagged.append((oid0 + "/payload", f"{f.name}: the payload of the returned {rt}::{v.variant} does not come from the input", "kind",
                                {"function": f.name, "type": rt, "to": v.variant}))
    elif isinstance(v, Lazy):
        if node.oid not in P.of(v):
            r, m = ses.obligation(oid0 + "/built-from-the-input-node", list(o.pc), z3.BoolVal(True), "the node returned derives from the node received")
            if r == "sat":
                flagged.append((oid0, f"{f.name} returns a {rt} that is not built from its input", "kind", {"function": f.name, "type": rt}))
        else:
            rep.add(oid0 + "/built-from-the-input-node", "unsat", "result is a function of the input node (kind decided by the callee)", nontrivial=False)
    return flagged


def rebuild_guards(ses, rep, fs):
    """is_block_simple(block) == true implies the block consists of exactly one statement OR exactly one last statement;
    every other guard used before a partial rebuild implies is_block_simple / is_block_empty"""
    flagged = []
    funcs = ses.mir("lib", fs)
    ex = ses.executor("lib", fs, inline=lambda n_, fn: False)
    ex.max_block_visits = 2
    f = ses.need(ex, "is_block_simple")
    outs = ex.run(f, lazy_args(ex, f))
    rep.fn(f)
    n = 0
    for pi, o in enumerate(outs):
        if o.kind != "return" or not isinstance(o.value, Sym):
            continue
        counts = [t[3].t for t in o.trace if t[0] == "havoc" and t[1].endswith("Iterator>::count") and isinstance(t[3], Sym)]
        nexts = [ex.discr(o.state, t[3]) for t in o.trace if t[0] == "havoc" and t[1].endswith("Iterator>::next") and isinstance(t[3], (Lazy, Agg))]
        lasts = [ex.discr(o.state, t[3]) for t in o.trace if t[0] == "havoc" and t[1].endswith("Block::last_stmt") and isinstance(t[3], (Lazy, Agg))]
        one_stmt = z3.And(z3.Or(*[c == z3.BitVecVal(1, c.size()) for c in counts]) if counts else z3.BoolVal(False),
                          z3.Or(*[d == 0 for d in lasts]) if lasts else z3.BoolVal(False))
        only_last = z3.And(z3.Or(*[d == 0 for d in nexts]) if nexts else z3.BoolVal(False),
                           z3.Or(*[d == 1 for d in lasts]) if lasts else z3.BoolVal(False))
        pre = list(o.pc) + [o.value.t]
        if not ses.reachable(pre):
            continue
        n += 1
        r, m = ses.obligation(f"rebuild/{fs}/is_block_simple/path{pi}/true=>one-statement-xor-one-last-statement", pre, z3.Not(z3.Or(one_stmt, only_last)),
                              "true only if stmts().count() == 1 and no last statement, or no statement and a last statement")
        if r == "sat":
            flagged.append((f"rebuild/{fs}/is_block_simple/path{pi}", "is_block_simple accepts a block with more than one statement (the collapsed forms keep only the first)",
                            "rebuild", {"function": "is_block_simple", "type": "If"}))
    if n == 0:
        raise Inconclusive("is_block_simple: no path returns true")
    for g in REBUILD_GUARDS:
        if g in ("is_block_simple", "is_block_empty"):
            continue
        cands = [x for nm, l in funcs.items() for x in l if x.name.split("::")[-1] == g]
        for fg in cands:
            ex = ses.executor("lib", fs, inline=lambda n_, fn: False)
            ex.max_block_visits = 2
            outs = ex.run(fg, lazy_args(ex, fg))
            rep.fn(fg)
            for pi, o in enumerate(outs):
                if o.kind != "return" or not isinstance(o.value, Sym):
                    continue
                ibs = [t[3].t for t in o.trace if t[0] == "havoc" and t[1].split("::")[-1] in ("is_block_simple", "is_block_empty") and isinstance(t[3], Sym)]
                pre = list(o.pc) + [o.value.t]
                if not ses.reachable(pre):
                    continue
                r, m = ses.obligation(f"rebuild/{fs}/{g}/path{pi}/true=>is_block_simple", pre, z3.And(*[z3.Not(b) for b in ibs]) if ibs else z3.BoolVal(True),
                                      "the guard holds only for blocks is_block_simple / is_block_empty accepts")
                if r == "sat":
                    flagged.append((f"rebuild/{fs}/{g}/path{pi}", f"{g} can hold for a block that is_block_simple does not accept", "rebuild", {"function": g, "type": "If"}))
    return flagged


def full_moon_signatures():
    """(Type, 'new') -> parameter names, from full_moon's sources; and the set of optional children"""
    import glob, os
    sigs = {"__optional__": set(), "__types__": set()}
    fm = sorted(glob.glob(os.path.expanduser("~/.cargo/registry/src/*/full_moon-1.2.0/src/ast/*.rs")))
    for p in fm:
        src = open(p).read()
        for m in re.finditer(r"impl(?:<[^>]*>)? ([A-Z][A-Za-z0-9]*)(?:<[^>]*>)? \{", src):
            ty = m.group(1)
            sigs["__types__"].add(ty)
            body_start = m.end()
            depth, i = 1, body_start
            while i < len(src) and depth:
                depth += {"{": 1, "}": -1}.get(src[i], 0)
                i += 1
            body = src[body_start:i]
            m2 = re.search(r"pub fn new\(([^)]*)\)", body)
            if m2 and (ty, "new") not in sigs:
                ps = [x.split(":")[0].strip() for x in m2.group(1).split(",") if ":" in x]
                sigs[(ty, "new")] = ps
            for m3 in re.finditer(r"pub fn with_([a-z_0-9]+)\(\s*self,\s*(?:r#)?[a-z_0-9]+:\s*Option<", body):
                sigs["__optional__"].add((ty, m3.group(1)))
            for m3 in re.finditer(r"pub fn with_([a-z_0-9]+)\(\s*self,\s*(?:r#)?[a-z_0-9]+:\s*([^)]*?),?\s*\)\s*->\s*Self", body):
                sigs.setdefault("__withty__", {})[(ty, m3.group(1))] = " ".join(m3.group(2).split())
            # which struct field a builder sets / an accessor reads
            for m3 in re.finditer(r"pub fn with_([a-z_0-9]+)\(\s*self,[^{]*?\)\s*->\s*Self\s*\{(.*?)\n    \}", body, re.S):
                m4 = re.search(r"Self\s*\{\s*(?:r#)?([a-z_0-9]+)", m3.group(2))
                if m4:
                    sigs.setdefault("__set__", {})[(ty, m3.group(1))] = m4.group(1)
            for m3 in re.finditer(r"pub fn ([a-z_0-9]+)\(&self\)[^{]*\{(.*?)\n    \}", body, re.S):
                m4 = re.search(r"self\s*\.\s*(?:r#)?([a-z_0-9]+)", m3.group(2))
                if m4:
                    sigs.setdefault("__get__", {}).setdefault((ty, m4.group(1)), []).append(m3.group(1))
    return sigs


# ------------------------------------------------------------------------------------------------ replay: token-level normal form
TOK = re.compile(r"""
    (?P<ws>\s+) | (?P<lcomment>--\[(?P<ceq>=*)\[.*?\](?P=ceq)\]) | (?P<comment>--[^\n]*) |
    (?P<lstr>\[(?P<seq>=*)\[.*?\](?P=seq)\]) | (?P<str>"(?:\\z\s*|\\.|[^"\\\n])*"|'(?:\\z\s*|\\.|[^'\\\n])*') | (?P<istr>`(?:\\.|[^`\\])*`) |
    (?P<num>0[xX][0-9a-fA-F_.]+(?:[pP][+-]?[0-9_]+)?(?:[uU]?[lL][lL]|[iI])?|0[bB][01_]+|(?:[0-9][0-9_]*\.?[0-9_]*|\.[0-9][0-9_]*)(?:[eE][+-]?[0-9_]+)?(?:[uU]?[lL][lL]|[iI])?) |
    (?P<name>[A-Za-z_][A-Za-z0-9_]*) | (?P<op>\.\.\.|\.\.=|\.\.|==|~=|<=|>=|<<|>>|//=|//|::|->|\+=|-=|\*=|/=|%=|\^=|[-+*/%^\#&~|<>=(){}\[\];:,.?@!])
""", re.X | re.S)


def decode_lua_string(s):
    from ..strmodel import py_decode
    try:
        return py_decode(s[1:-1])
    except Exception:
        return s[1:-1]


def normal_form(src):
    """significant tokens in order: names/keywords, operators, literal VALUES; parentheses, separators, semicolons, comments dropped"""
    out = []
    pos = 0
    if src.startswith("#!"):
        pos = src.index("\n") if "\n" in src else len(src)
    while pos < len(src):
        m = TOK.match(src, pos)
        if not m:
            out.append(("?", src[pos])); pos += 1; continue
        pos = m.end()
        k = m.lastgroup
        if k in ("ceq", "seq"):
            k = "lcomment" if m.group("lcomment") else "lstr"
        if k in ("ws", "lcomment", "comment"):
            continue
        t = m.group(0)
        if k == "str":
            out.append(("str", decode_lua_string(t)))
        elif k == "lstr":
            body = t[t.index("[", 1) + 1:-(t.index("[", 1) + 1)]
            body = body.replace("\r\n", "\n")
            out.append(("str", body[1:] if body.startswith("\n") else body))
        elif k == "num":
            n = t.replace("_", "") if not t.lower().startswith("0x") or "_" in t else t
            if n.startswith("."):
                n = "0" + n
            out.append(("num", n.lower()))
        elif k == "istr":
            body, i, lit = t[1:-1], 0, ""
            while i < len(body):
                if body[i] == "\\" and i + 1 < len(body):
                    lit += body[i:i + 2]; i += 2
                elif body[i] == "{":
                    depth, j = 1, i + 1
                    while j < len(body) and depth:
                        depth += {"{": 1, "}": -1}.get(body[j], 0)
                        j += 1
                    out.append(("istr", lit)); lit = ""
                    out.append(("op", "{")); out += normal_form(body[i + 1:j - 1]); out.append(("op", "}"))
                    i = j
                else:
                    lit += body[i]; i += 1
            out.append(("istr", lit))
        elif k == "op":
            if t in "(),;":
                continue
            out.append(("op", t))
        else:
            out.append((k, t))
    return out


def semantic_battery(fs="full", only_kinds=None):
    binp = common.native_build(fs)
    fails = []
    for name, syn, src in luacorpus.programs(fs) + [("extra/" + k, s_, v) for k, (s_, v) in EXTRA.items()]:
        n_ = len(src.encode())
        # range formatting rebuilds every statement that is not wholly inside the range through the block-only visitors
        # (stmt_block::*, format_last_stmt_block): the meaning must survive those as well
        ranged = [["--range-start", str(n_ // 4), "--range-end", str(n_ // 2)], ["--range-end", str(n_ // 3)], ["--range-start", str(n_ // 2)],
                  ["--range-start", str(max(n_ - 8, 0)), "--range-end", str(max(n_ - 4, 0))]]
        for cfg in luacorpus.CONFIGS + ranged:
            if "--sort-requires" in cfg:
                continue
            fl = (["--syntax", syn] if fs == "full" else []) + cfg
            r = subprocess.run([binp] + fl + ["-"], input=src.encode(), capture_output=True, timeout=120)
            if r.returncode != 0:
                continue
            out = r.stdout.decode("utf-8", "replace")
            a, b = normal_form(src), normal_form(out)
            # the call sugar and redundant parentheses are already erased; table trailing separators too
            if a != b:
                i = next((k for k in range(min(len(a), len(b))) if a[k] != b[k]), min(len(a), len(b)))
                fails.append((f"{name} {fl}: token {i}: {a[i:i+3]} became {b[i:i+3]}", {"program": name, "flags": fl, "source": src, "output": out}))
    return fails


EXTRA = {
    "numeric-for-step": ("Lua51", "for index = first_value, second_value, third_value do\n\tprint(index)\nend\nfor i = 1, 2, 3 do end\n"),
    "generic-for": ("Lua51", "for key_name, value_name, third_name in first_iter(a), second_state, third_control do\n\tprint(key_name)\nend\n"),
    "if-chain": ("Lua51", "if cond_one then\n\tone()\nelseif cond_two then\n\ttwo()\nelseif cond_three then\n\tthree()\nelse\n\tfour()\nend\n"),
    "assign-multi": ("Lua51", "first_target, second_target.field, third_target[1] = first_value, second_value(), third_value\nlocal la, lb, lc = va, vb, vc\n"),
    "fields": ("Lua51", "local t = { [key_one] = value_one, [key_two] = value_two, name_three = value_three, value_four, [\"k5\"] = v5 }\n"),
    "method-chain": ("Lua51", "first.second:third(arg_one, arg_two).fourth[fifth]:sixth 'seven' { eight }(nine)\n"),
    "function-params": ("Lua51", "local function f(param_one, param_two, param_three, ...)\n\treturn param_three, param_two, param_one, ...\nend\nfunction a.b.c:d(p1, p2) end\n"),
    "while-repeat": ("Lua51", "while cond_a do\n\tbody_a()\nend\nrepeat\n\tbody_b()\nuntil cond_b\n"),
    "luau-types": ("Luau", "type A<T, U> = { first: T, second: U, [string]: number }\nlocal function f<T>(a: T, b: number?, ...: string): (T, number)\n\treturn a, 1\nend\nlocal v: A<number, string> = x :: any\nexport type B = (first: number, second: string) -> boolean\n"),
    "luau-ifexpr": ("Luau", "local r = if c1 then v1 elseif c2 then v2 elseif c3 then v3 else v4\n"),
    "luau-compound": ("Luau", "target_a += value_a\ntarget_b.field ..= value_b\n"),
    "lua54-attribs": ("Lua54", "local first <const>, second <close> = value_one, value_two\n"),
    "lua54-attribs-gap": ("Lua54", "local handle, guard <close> = io.open(path), make_guard()\nlocal count, limit <const> = 0, 10\nlocal a <const>, b, c <close> = 1, 2, 3\n"),
    "lua52-goto": ("Lua52", "goto label_one\n::label_one::\n::label_two::\ngoto label_two\n"),
    "wide-numeric-for": ("Lua51", "for some_very_long_index_variable_name = some_very_long_start_expression_name, some_very_long_end_expression_name, some_very_long_step_name do\n\tprint(1)\nend\n"),
    "wide-generic-for": ("Lua51", "for some_very_long_key_name, some_very_long_value_name in some_very_long_iterator_function_name(some_very_long_argument_name), second_expression do\n\tprint(1)\nend\n"),
    "wide-assign": ("Lua51", "some_very_long_target_name_number_one, some_very_long_target_name_number_two = some_very_long_value_name_number_one, some_very_long_value_name_number_two\n"),
    "two-statement-guards": ("Lua51", "if ready then count = count + 1 notify(count) end\nif a then f() g() end\nlocal h = function() first() second() end\nlocal k = function() x = 1 return x end\n"),
    "wide-return": ("Lua51", "return some_very_long_returned_value_number_one, some_very_long_returned_value_number_two, some_very_long_returned_value_number_three\n"),
}


def run(ses, rep):
    from . import c04, c05
    rep.assumptions += ["induction hypothesis: a callee named format_*/hang_* returns a node of the kind and with the children it was given (each is itself checked here)",
                        "full_moon's builder methods `with_x` replace exactly the child `x`; `T::new` parameter order as declared in full_moon 1.2",
                        "provenance is structural: a slot filled from a value computed from the input's same-named child counts as that child"]
    rep.outside += ["the TEXT of rewritten symbols (fmt_symbol! constants), trivia (C03), token order inside Punctuated lists built by format_punctuated*",
                    "expression trees deeper than C05's bound", "require sorting (C12)"]
    sigs = full_moon_signatures()
    flagged = []
    for fs in (("full",) if rep.tier == "quick" else ("full", "default")):
        flagged += analyse_structs(ses, rep, fs, sigs)
        flagged += rebuild_guards(ses, rep, fs)
    # E: Luau type parentheses
    tflag = type_context(ses, rep, "full")
    tseen = None
    for oid, what, kind, info in tflag:
        if tseen is None:
            tseen = replay_type_parens(info)
        v, rec = tseen
        if v is None:
            rep.add(oid, "inconclusive", f"solver model ({what}) did not reproduce on the native build")
        else:
            rep.add(oid, rep.violation({"obligation": kind, "kind": info.get("kind"), "function": info.get("function", "keep_parentheses")},
                                       {"what": what, "observed": v, "replay_kind": "type-parens", **rec}), f"{what}; {v}")
    # C: numbers (C04's kernel)
    try:
        before = len(rep.obligations)
        c04.numbers(ses, rep)
    except Inconclusive as e:
        rep.add("number-kernel", "inconclusive", str(e)[:300])
    # B': parentheses on a small plan of C05's composer
    c05.run(ses, rep, plan=[("default", 2, 1, False), ("full", 2, 1, True)])
    # a semicolon is redundant only if the next statement cannot continue the previous one (C01's O1 kernel, reused)
    from . import c01
    semi = []
    for fs in ("default", "full"):
        semi += c01.o1_semicolon(ses, rep, fs)
    semi += c01.o1_block_emits(ses, rep)
    seen = {}
    for oid, what, kind, info in semi:
        key = (kind, json.dumps(info, sort_keys=True))
        if key not in seen:
            seen[key] = c01.REPLAYS[kind](info)
        v, rec = seen[key]
        if v is None:
            rep.add(oid, "inconclusive", f"solver model ({what}) did not reproduce on the native build")
        else:
            role = {"obligation": kind, **{k: v_ for k, v_ in info.items() if k in ("current", "next")}}
            rep.add(oid, rep.violation(role, {"what": what, "observed": v, "kind": kind, "info": info, **rec}), f"{what}; {v}")
    rep.samples.append({"flagged": [(f[0], f[1]) for f in flagged][:8]})
    if not flagged:
        return
    fails = semantic_battery("full")
    for oid, what, kind, info in flagged:
        if fails:
            v, rec = fails[0]
            hit = [x for x in fails if info.get("type", "").lower().replace("numericfor", "numeric-for") in x[1]["program"].lower()] or fails
            v, rec = hit[0]
            st = rep.violation({"obligation": kind, **{k: v_ for k, v_ in info.items() if k in ("function", "slot", "from", "to")}}, {"what": what, "observed": v, **rec})
            rep.add(oid, st, f"{what}; native: {v}")
        else:
            rep.add(oid, "inconclusive", f"{what}: the semantic battery shows no token-level change on the native build")


def fallback(rep):
    """kernels undecided: the semantic battery (every corpus program x configuration, also with ranges) is run; only a reproduced
    change of the significant tokens is reported"""
    for v, rec in semantic_battery("full")[:3]:
        st = rep.violation({"obligation": "battery-after-undecided-kernel", "program": rec["program"]}, {"what": "kernel undecided; semantic battery", "observed": v, **rec})
        rep.add("battery/" + rec["program"], st, v)


def replay(path):
    d = json.load(open(path))
    r_ = d.get("replay", {})
    if r_.get("kind") in ("semicolon", "brackets", "comment", "collapse", "prefix") and "info" in r_:      # recorded by a kernel shared with C01
        from . import c01
        v, rec = c01.REPLAYS[r_["kind"]](r_["info"])
        print(v or "property holds for the recorded scenario")
        if v:
            print(f"VIOLATION property=C02 replay={path}")
            return 1
        return 0
    if "tree" in r_ or "entry" in r_:       # recorded by C05's composer (parentheses)
        from . import c05
        tup = lambda x: tuple(tup(y) for y in x) if isinstance(x, list) else x
        v, rec = c05.replay_tree(tup(r_["tree"]), r_["entry"], r_["fs"])
        print(v or "property holds for the recorded tree on the current build")
        if v:
            print(f"VIOLATION property=C02 replay={path}")
            return 1
        return 0
    if d.get("replay", {}).get("replay_kind") == "type-parens":
        v, rec = replay_type_parens({})
        print(v or "type parentheses: kept where needed")
        if v:
            print(f"VIOLATION property=C02 replay={path}")
            return 1
        return 0
    fails = semantic_battery("full")
    for v, rec in fails[:5]:
        print(v)
    if fails:
        print(f"VIOLATION property=C02 replay={path}")
        return 1
    print("semantic battery: the significant tokens of every program are unchanged")
    return 0


if __name__ == "__main__":
    for v, rec in semantic_battery("full"):
        print(v)

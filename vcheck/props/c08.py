"""C08 — `-- stylua: ignore` regions are reproduced verbatim (shares its encoding with C09: vcheck/ignoremodel.py)."""
import json, re

from .. import common, ignoremodel
from ..common import Inconclusive

# (name, source, args, slices that must appear verbatim, slices that must appear formatted)
IGNORE_BATTERY = [
    ("stmt-semi", "-- stylua: ignore\nlocal x   =  1;\nlocal y   =  2\n", [], ["local x   =  1;\n"], ["local y = 2\n"]),
    ("stmt-required-semi", "-- stylua: ignore\nlocal x   =   1   ;   -- hi\n(foo)()\nlocal y   =  2\n", [], ["local x   =   1   ;   -- hi\n(foo)()\n"], ["local y = 2\n"]),
    ("stmt-semi-comment", "-- stylua: ignore\nlocal x   =  1; -- c\nlocal y   =  2\n", [], ["local x   =  1; -- c\n"], ["local y = 2\n"]),
    ("last-semi", "local y   =  2\n-- stylua: ignore\nreturn   y;\n", [], ["return   y;\n"], ["local y = 2\n"]),
    ("region-semi", "local a   = 1\n-- stylua: ignore start\nlocal b   =  2; -- c\nlocal c   =  3;\n-- stylua: ignore end\nlocal d   = 4\n", [],
     ["local b   =  2; -- c\n", "local c   =  3;\n"], ["local a = 1\n", "local d = 4\n"]),
    ("nested-semi", "function f()\n\t-- stylua: ignore\n\tlocal x   =  1;\n\tlocal y   = 2\nend\n", [], ["local x   =  1;\n"], ["\tlocal y = 2\n"]),
    ("region", "local a   = 1\n-- stylua: ignore start\nlocal b   =  2 -- c\nlocal c   =  3\n-- stylua: ignore end\nlocal d   = 4\n", [],
     ["local b   =  2 -- c\n", "local c   =  3\n"], ["local a = 1\n", "local d = 4\n"]),
    ("nested", "function f()\n\t-- stylua: ignore\n\tlocal x   =  1\n\tlocal y   = 2\nend\n", [], ["local x   =  1\n"], ["\tlocal y = 2\n"]),
    ("stmt", "-- stylua: ignore\nlocal x   =  1\nlocal y   =  2\n", [], ["local x   =  1\n"], ["local y = 2\n"]),
    ("last", "local y   =  2\n-- stylua: ignore\nreturn   y\n", [], ["return   y\n"], ["local y = 2\n"]),
    ("near-miss", "-- stylua: ignores\nlocal x   =  1\n", [], [], ["local x = 1\n"]),
    ("near-miss-2", "-- stylua:ignore\nlocal x   =  1\n", [], [], ["local x = 1\n"]),
    ("block-comment", "--[[ stylua: ignore ]]\nlocal x   =  1\n", [], ["local x   =  1\n"], []),
    ("block-comment-lines", "--[[\n  some text\n  stylua: ignore\n]]\nlocal x   =  1\n", [], ["local x   =  1\n"], []),
    ("no-leak", "do\n\t-- stylua: ignore start\n\tlocal a   = 1\nend\nlocal b   = 2\n", [], ["local a   = 1\n"], ["local b = 2\n"]),
    ("end-directive", "-- stylua: ignore start\nlocal a   = 1\n-- stylua: ignore end\nlocal b   = 2\n", [], ["local a   = 1\n"], ["local b = 2\n"]),
    ("second-directive-wins", "-- stylua: ignore start\n-- stylua: ignore end\nlocal b   = 2\n", [], [], ["local b = 2\n"]),
    ("trimmed", "--    stylua: ignore   \nlocal x   =  1\n", [], ["local x   =  1\n"], []),
    ("crlf-stmt", "-- stylua: ignore\r\nlocal x   =  1;\r\nlocal y   =  2\r\n", [], ["local x   =  1;\r\n"], ["local y = 2\n"]),
    ("crlf-stmt-windows", "-- stylua: ignore\r\nlocal x   =  1;\r\nlocal y   =  2\r\n", ["--line-endings", "Windows"], ["local x   =  1;\r\n"], ["local y = 2\r\n"]),
    ("crlf-region", "local a   = 1\r\n-- stylua: ignore start\r\nlocal b   =  2; -- c\r\nlocal c   =  3;\r\n-- stylua: ignore end\r\nlocal d   = 4\r\n", [],
     ["local b   =  2; -- c\r\n", "local c   =  3;\r\n"], ["local a = 1\n", "local d = 4\n"]),
    ("crlf-last", "local y   =  2\r\n-- stylua: ignore\r\nreturn   y ;\r\n", [], ["return   y ;\r\n"], ["local y = 2\n"]),
    ("field-crlf", "local t   =   {\r\n  -- stylua: ignore\r\n  f   =   1,\r\n  g   =   2,\r\n}\r\n", [], ["  f   =   1,"], ["\tg = 2,\n"]),
    ("trailing-tab", "-- stylua: ignore\t\nlocal x   =  1\nlocal y   =  2\n", [], ["local x   =  1\n"], ["local y = 2\n"]),
    ("trailing-formfeed", "-- stylua: ignore \x0c\nlocal x   =  1\nlocal y   =  2\n", [], ["local x   =  1\n"], ["local y = 2\n"]),
    ("region-trailing-cr-tab", "-- stylua: ignore start \t\r\nlocal a   = 1\r\n--\tstylua: ignore end\r\nlocal b   = 2\r\n", [], ["local a   = 1\r\n"], ["local b = 2\n"]),
    ("eof-no-newline-ignored-last", "local a   = 1\n-- stylua: ignore\nlocal b   =  2", [], [], [], "local a = 1\n-- stylua: ignore\nlocal b   =  2"),
    ("eof-no-newline-region", "-- stylua: ignore start\nlocal b   =  2 -- c", ["--line-endings", "Windows"], [], [], "-- stylua: ignore start\nlocal b   =  2 -- c"),
    ("plain", "local a   = 1\nlocal b   = 2\n", [], [], ["local a = 1\n", "local b = 2\n"]),
    ("ignore-then-normal", "-- stylua: ignore\nlocal a   = 1\nlocal b   = 2\nlocal c   = 3\n", [], ["local a   = 1\n"], ["local b = 2\n", "local c = 3\n"]),
    ("call-semi", "-- stylua: ignore\nf  ( a );\n(g)()\n", [], ["f  ( a );\n"], []),
    ("region-starts-on-last", "function f()\n\tlocal a   = 1\n\t-- stylua: ignore start\n\treturn   { 1,0,\n\t           0,1 } ;\nend\n", [], ["return   { 1,0,\n\t           0,1 } ;\n"], ["local a = 1\n"]),
    ("region-ends-on-last", "function f()\n\t-- stylua: ignore start\n\tlocal a   = 1\n\t-- stylua: ignore end\n\treturn   a\nend\n", [], ["local a   = 1\n"], ["\treturn a\n"]),
    ("region-starts-on-last-break", "while x do\n\tf()\n\t-- stylua: ignore start\n\tbreak   ;\nend\n", [], ["break   ;\n"], ["\tf()\n"]),
    ("field-ignored-range-inside", "local t   =   {\n  -- stylua: ignore\n  f = function()\n     local   x   =   1\n  end,\n  g = function()\n     local   y   =   1\n  end,\n}\n",
     ["--range-start", "58", "--range-end", "75"], ["  f = function()\n     local   x   =   1\n  end,\n"], []),
    ("field-ignored", "local t   =   {\n  -- stylua: ignore\n  f   =   1,\n  g   =   2,\n}\n", [], ["  f   =   1,\n"], ["\tg = 2,\n"]),
    ("field-region-range-inside", "local t   =   {\n  -- stylua: ignore start\n  f = function()\n     local   x   =   1\n  end,\n  -- stylua: ignore end\n  g = 1,\n}\n",
     ["--range-start", "64", "--range-end", "81"], ["     local   x   =   1\n"], []),
    ("eof-comment", "-- stylua: ignore start\nlocal a   = 1\n-- trailing   comment\n", [], ["local a   = 1\n"], []),
]
RANGE_BATTERY = [
    ("range-second", "local x   =  1;\nlocal y   =  2;\n", ["--range-start", "16"], ["local x   =  1;\n"], ["local y = 2\n"]),
    ("range-first", "local x   =  1;\nlocal y   =  2;\n", ["--range-end", "15"], ["local y   =  2;\n"], ["local x = 1\n"]),
    ("range-mid-token", "local x   =  1\nlocal y   =  2\n", ["--range-start", "3"], ["local x   =  1\n"], ["local y = 2\n"]),
    ("range-mid-token-end", "local x   =  1\nlocal y   =  2\n", ["--range-end", "20"], ["local y   =  2\n"], ["local x = 1\n"]),
    ("range-last", "local x   =  1\nreturn   x;\n", ["--range-end", "14"], ["return   x;\n"], ["local x = 1\n"]),
    ("range-inclusive-start", "local x   =  1\nlocal y   =  2\n", ["--range-start", "15"], ["local x   =  1\n"], ["local y = 2\n"]),
    ("range-exclusive-start", "local x   =  1\nlocal y   =  2\n", ["--range-start", "16"], ["local x   =  1\n", "local y   =  2\n"], []),
    ("range-inclusive-end", "local x   =  1\nlocal y   =  2\n", ["--range-end", "14"], ["local y   =  2\n"], ["local x = 1\n"]),
    ("range-exclusive-end", "local x   =  1\nlocal y   =  2\n", ["--range-end", "13"], ["local x   =  1\n", "local y   =  2\n"], []),
    ("range-nested", "function f()\n\tlocal a   = 1\n\tlocal b   = 2\nend\nlocal c   = 3\n", ["--range-start", "14", "--range-end", "28"],
     ["local b   = 2\n", "local c   = 3\n"], ["\tlocal a = 1\n"]),
    ("range-both-semis", "local x   =  1;\nlocal y   =  2;\nlocal z   =  3;\n", ["--range-start", "16", "--range-end", "31"],
     ["local x   =  1;\n", "local z   =  3;\n"], ["local y = 2\n"], "local x   =  1;\nlocal y = 2\nlocal z   =  3;\n"),
    ("range-required-semi", "local a   =  1\nlocal b   =   2\n(f)()\n", ["--range-start", "15", "--range-end", "30"],
     ["local a   =  1\n"], [], "local a   =  1\nlocal b = 2;\n(f)()\n"),
    ("range-second-exact", "local x   =  1;\nlocal y   =  2;\n", ["--range-start", "16"], [], [], "local x   =  1;\nlocal y = 2\n"),
    ("range-required-semi-untouched", "local x   =   1   ;   -- hi\n(foo)()\nlocal   y  = 2\n", ["--range-start", "36"], ["local x   =   1   ;   -- hi\n(foo)()\n"], ["local y = 2\n"]),
    ("range-required-semi-untouched-nested", "function f()\n\tt.a   =   g()   ;   -- keep\n\t(h)()\n\tlocal   z = 1\nend\n", ["--range-start", "50"],
     ["\tt.a   =   g()   ;   -- keep\n\t(h)()\n"], ["\tlocal z = 1\n"]),
    ("range-trailing-blank-lines", "local   a = 1\nlocal   b = 2\n\n\n\n", ["--range-start", "0", "--range-end", "13"], [], [], "local a = 1\nlocal   b = 2\n\n\n\n"),
    ("range-end-only-trailing-blank-lines", "local   a = 1\nlocal   b = 2\n\n\n\n", ["--range-end", "13"], [], [], "local a = 1\nlocal   b = 2\n\n\n\n"),
    ("range-empty-trailing-white-space", "local   a = 1\n  \t ", ["--range-start", "0", "--range-end", "0"], [], [], "local   a = 1\n  \t "),
    ("range-tail-no-newline", "local   a = 1\nlocal   b   = 2", ["--range-end", "13"], [], [], "local a = 1\nlocal   b   = 2"),
    ("range-tail-no-newline-comment", "local   a = 1\nlocal   b   = 2 -- c", ["--range-end", "13", "--line-endings", "Windows"], [], [], "local a = 1\r\nlocal   b   = 2 -- c"),
    ("range-tail-crlf-kept", "local   a = 1\nlocal   b   = 2\r\n", ["--range-end", "13"], [], [], "local a = 1\nlocal   b   = 2\r\n"),
    ("range-inside-returned-function", "local   M = {}\nreturn function()\n\tlocal   zz   =   a   +   b\n\tlocal   q = 1\nend\n", ["--range-start", "32", "--range-end", "60"], [], [],
     "local   M = {}\nreturn function()\n\tlocal zz = a + b\n\tlocal   q = 1\nend\n"),
    ("range-inside-returned-call-argument", "return wrap(x, function()\n\tlocal   zz   =   a   +   b\n\tlocal   q = 1\nend)\n", ["--range-start", "26", "--range-end", "54"], [], [],
     "return wrap(x, function()\n\tlocal zz = a + b\n\tlocal   q = 1\nend)\n"),
    ("range-inside-second-returned-function", "do\n\treturn nil, function()\n\t\tlocal   zz   =   a   +   b\n\t\tlocal   q = 1\n\tend\nend\n", ["--range-start", "28", "--range-end", "58"], [], [],
     "do\n\treturn nil, function()\n\t\tlocal zz = a + b\n\t\tlocal   q = 1\n\tend\nend\n"),
    ("range-inside-assigned-function", "local   f = function()\n\tlocal   zz   =   a   +   b\n\tlocal   q = 1\nend\n", ["--range-start", "24", "--range-end", "52"], [], [],
     "local   f = function()\n\tlocal zz = a + b\n\tlocal   q = 1\nend\n"),
    ("range-open", "local x   =  1\nlocal y   =  2\n", [], [], ["local x = 1\n", "local y = 2\n"]),
    ("range-inverted", "local   a   =   1\nlocal   b   =   2 ;\nlocal   c   =   3\n", ["--range-start", "37", "--range-end", "18"], [], [],
     "local   a   =   1\nlocal   b   =   2 ;\nlocal   c   =   3\n"),
    ("range-empty", "local   a   =   1\nlocal   b   =   2\n", ["--range-start", "20", "--range-end", "20"], [], [], "local   a   =   1\nlocal   b   =   2\n"),
    ("range-inside-ignored", "-- stylua: ignore\nlocal function f()\n\tlocal b   =   2\nend\nlocal c   =  3\n", ["--range-start", "38", "--range-end", "53"],
     [], [], "-- stylua: ignore\nlocal function f()\n\tlocal b   =   2\nend\nlocal c   =  3\n"),
    ("range-ignored-stmt-partly-inside", "-- stylua: ignore\nlocal function f()\n\tlocal b   =   2\nend\nlocal c   =  3\n", ["--range-start", "30"],
     ["local function f()\n\tlocal b   =   2\nend\n"], ["local c = 3\n"]),
    ("range-ignore-inside", "local x   =  1\n-- stylua: ignore\nlocal y   =  2;\n", ["--range-start", "0"], ["local y   =  2;\n"], ["local x = 1\n"]),
]


def run_battery(battery):
    binp = common.native_build("default")
    res = {}
    for name, src, args, verbatim, formatted, *rest in battery:
        rc, out, err = common.run_stylua(binp, src, args)
        v = None
        if rc != 0:
            v = f"formatter failed rc={rc}: {err[:200]}"
        elif rest and out != rest[0]:
            v = f"output {out!r} differs from the expected {rest[0]!r}"
        else:
            for s_ in verbatim:
                if s_ not in out:
                    v = f"slice {s_!r} is not reproduced verbatim"
                    break
            if v is None:
                for s_ in formatted:
                    if s_ not in out:
                        v = f"expected formatted text {s_!r} is missing"
                        break
        res[name] = (v, {"source": src, "args": args, "output": out})
    return res


SEMI = {"crlf-stmt", "crlf-stmt-windows", "crlf-last", "stmt-required-semi", "range-required-semi-untouched", "range-required-semi-untouched-nested", "stmt-semi", "stmt-semi-comment", "last-semi", "region-semi", "nested-semi", "call-semi", "range-second", "range-first", "range-last",
        "range-both-semis", "range-ignore-inside", "range-required-semi", "range-second-exact"}
TOGGLE = {"crlf-region", "region-trailing-cr-tab", "region-starts-on-last", "region-ends-on-last", "region-starts-on-last-break", "region", "no-leak", "end-directive", "second-directive-wins", "eof-comment", "plain"}


def scenarios_for(kind, names):
    """a model is only confirmed by a scenario that exercises the mechanism it is about"""
    if kind == "both":
        return [n for n in names if n in SEMI] + [n for n in names if n not in SEMI]
    if kind == "toggle":
        return [n for n in names if n in TOGGLE]
    if kind in ("ignored-in-range", "field"):
        return list(names)
    if kind == "visitor-shape":
        return [n for n in names if "function" in n or "nested" in n] + [n for n in names if not ("function" in n or "nested" in n)]
    if kind == "output":
        return [n for n in names if "no-newline" in n or "tail" in n] + [n for n in names if not ("no-newline" in n or "tail" in n)]
    return [n for n in names if n not in SEMI]


def confirm(rep, flagged, battery, prop, kinds):
    todo = [f for f in flagged if f[2] in kinds]
    if not todo:
        return
    res = run_battery(battery)
    for oid, what, kind, info in todo:
        order = scenarios_for(kind, list(res))
        if info.get("last"):
            order = [n for n in order if "last" in n] + [n for n in order if "last" not in n]
        hit = next(((n, res[n]) for n in order if res[n][0]), None)
        if hit is None:
            rep.add(oid, "inconclusive", f"solver model ({what}) did not reproduce on the native build ({len(res)} scenarios)")
            continue
        n, (v, rec) = hit
        role = {"obligation": re.sub(r"path\d+/", "", oid), "scenario": n}
        status = rep.violation(role, {"what": what, "model": info, "scenario": n, "observed": v, **rec})
        rep.add(oid, status, f"{what}; confirmed by scenario `{n}`: {v}")


def sort_requires_kernels(rep, ses, kinds, scen_filter):
    """require sorting walks the top-level statements itself: its ignore / range guard (kernels of vcheck/props/c12.py) is part of
    this property too - an ignored or out-of-range statement that is MOVED is not reproduced at the corresponding position"""
    from . import c12
    flagged = []
    for fn_ in (c12.ignore_guard, c12.region_tracking):
        try:
            flagged += fn_(ses, rep)
        except Inconclusive as e:
            rep.add(f"sort_requires/{fn_.__name__}", "inconclusive", str(e)[:300], nontrivial=False)
    for oid, what, kind, info in flagged:
        if kind not in kinds:
            continue
        names = [n for n in c12.KIND2SCEN.get(kind, []) if scen_filter(n)]
        sc, v, rec = c12.run_battery(names)
        if v is None:
            rep.add("sort_requires/" + oid, "inconclusive", f"solver model ({what}) did not reproduce on the native build")
            continue
        role = {"obligation": "sort_requires/" + kind, "scenario": sc}
        status = rep.violation(role, {"what": what, "observed": v, "c12_scenario": sc, "scenario": sc, **rec})
        rep.add("sort_requires/" + oid, status, v)


def sort_requires_fallback(rep, scen_filter):
    from . import c12
    for name, src, args, want in c12.BATTERY:
        if not scen_filter(name):
            continue
        sc, v, rec = c12.run_battery([name])
        if v:
            status = rep.violation({"obligation": "battery-after-undecided-kernel", "scenario": sc}, {"what": "kernel undecided; scenario battery", "observed": v, "c12_scenario": sc, "scenario": sc, **rec})
            rep.add(f"battery/sort_requires/{sc}", status, v)


def analyses(ses, rep):
    M = ignoremodel.Model(ses, "default")
    flagged = []
    for fn_ in (ignoremodel.analyse_should_format_node, ignoremodel.analyse_toggle, ignoremodel.analyse_format_block, ignoremodel.analyse_skip_arms,
                ignoremodel.analyse_field_sites, ignoremodel.analyse_format_code_output):
        try:
            M.inline_helpers = True
            flagged += fn_(M, ses, rep)
        except Inconclusive:
            # helpers of context.rs that the engine cannot follow are left opaque (their results unconstrained), as before
            M.inline_helpers = False
            flagged += fn_(M, ses, rep)
    return flagged


def run(ses, rep):
    if rep.tier != "quick":
        ignoremodel.K_TOKENS, ignoremodel.K_LINES, ignoremodel.VISITS = 3, 3, 14          # thorough: 3 comment tokens x 3 lines
    rep.assumptions += ["to_owned()/clone() of a full_moon node is lossless and Ast::to_string prints a node as parsed (full_moon contract)",
                        "comment lines: <=2 comment tokens x <=2 lines for should_format_node, <=3 lines for the toggle; line text ranges over "
                        "the directive strings and near-misses " + repr(ignoremodel.LINES),
                        "callee results other than the summarised ones are unconstrained"]
    rep.outside += ["the text of the ignored statement itself (identity of the node is what is checked)", "table fields (format_field / "
                    "format_multiline_table are replayed only)"]
    flagged = analyses(ses, rep)
    rep.samples.append({"flagged": [(f[0], f[1]) for f in flagged][:5]})
    confirm(rep, flagged, IGNORE_BATTERY, "C08", ("ignore", "toggle", "both", "output"))
    confirm(rep, flagged, [b for b in RANGE_BATTERY if "ignore" in b[0]], "C08", ("ignored-in-range",))
    confirm(rep, flagged, [b for b in IGNORE_BATTERY if b[0].startswith("field-")], "C08", ("field",))
    sort_requires_kernels(rep, ses, ("guard", "region"), lambda n: "ignor" in n)
    others = [f for f in flagged if f[2] not in ("ignore", "toggle", "both", "ignored-in-range", "field", "output")]
    rep.extra["flagged_for_C09"] = [f[0] for f in others]


def fallback_with(rep, battery):
    res = run_battery(battery)
    for n, (v, rec) in res.items():
        if v:
            role = {"obligation": "battery-after-undecided-kernel", "scenario": n}
            status = rep.violation(role, {"what": "kernel undecided; scenario battery", "scenario": n, "observed": v, **rec})
            rep.add(f"battery/{n}", status, v)


def fallback(rep):
    """kernels undecided: the whole scenario battery is run; only reproduced violations are reported"""
    fallback_with(rep, IGNORE_BATTERY + [b for b in RANGE_BATTERY if "ignore" in b[0]])
    sort_requires_fallback(rep, lambda n: "ignor" in n)


def replay(path):
    d = json.load(open(path))
    sc = d["replay"]["scenario"]
    if d["replay"].get("c12_scenario"):
        from . import c12
        n_, v, rec = c12.run_battery([sc])
        print("scenario", sc, "->", v or "property holds")
        if v:
            print(f"VIOLATION property={d['property']} replay={path}")
        return 1 if v else 0
    res = run_battery([b for b in IGNORE_BATTERY + RANGE_BATTERY if b[0] == sc])
    v = res[sc][0]
    print("scenario", sc, "->", v or "property holds")
    if v:
        print(f"VIOLATION property={d['property']} replay={path}")
        return 1
    return 0

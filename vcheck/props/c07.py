"""C07 — the formatter is total (kernel scope: the named panic mechanisms, not whole-program termination).

A  format_code returns Err(ParseError) whenever the parser reports errors (never Ok for text that did not parse)   [lib MIR]
B  panic census: every panic/unreachable!/assert! site of the library crate (both feature sets) is executed symbolically with its
   function's inputs unconstrained; a site is discharged when no valid enum discriminants reach it (a wildcard arm kept by rustc means a
   node kind is NOT handled). Sites that are reachable in isolation and rely on a caller / parser precondition are listed in
   PRECONDITIONS with the node kinds that may reach them; any other reachable site, or a listed site reached by a new node kind, is a
   candidate that is replayed on the native build over the syntax corpus.
C  Shape / Indent arithmetic never overflows (dev profile panics) for indent_width <= 2^16, nesting < 2^32, offsets and widths < 2^48
   and ANY column_width including usize::MAX
D  the simple_heuristics guard that bounds nested trial formatting of call arguments: no trial formatting under the flag, and every
   trial formatting sets it
G  the guard in front of block_contains_nested_function (is_block_simple) accepts no statement kind that reaches its unreachable!()
F  the shape prefix_remove_leading_newlines assumes of a FORMATTED prefix (Prefix::Expression holds Parentheses) is re-established by
   format_prefix on every layout path
E  --verify number normalisation (verify_ast::visit_number): for every number token of the tokenizer's language (z3 sequence theory)
   neither an unreachable!() nor the `[2..]` slice panics
"""
import glob, os, re, subprocess, z3

from .. import common, luacorpus, numstr
from ..common import Inconclusive
from ..mirsym import Agg, Lazy, Ref, RefV, Str, Sym, Infeasible
from ..session import find_calls
from ..summaries import canon, deref_val

PAN = re.compile(r"(^|::)(panic|panic_fmt|begin_panic|unreachable_display|panic_display|panic_explicit|assert_failed|panic_nounwind)$")

AST_ENUMS = ("Stmt", "LastStmt", "Expression", "Prefix", "Suffix", "Call", "Index", "Var", "Field", "FunctionArgs", "UnOp", "BinOp",
             "TypeInfo", "IndexedTypeInfo", "TypeFieldKey", "GenericParameterInfo", "CompoundOp", "TokenType", "FormatNode",
             "TypeArgument", "LuauAttribute", "Parameter", "InterpolatedStringSegment", "BlockPartition", "Symbol")

ALL = None
# (function-name regex, message regex) -> {enum type: node kinds that may reach the site (None = any)} ; reason
PRECONDITIONS = [
    (r"^prefix_remove_leading_newlines$", r"", {"Prefix": {"Expression"}, "Expression": ALL},
     "parser contract: Prefix::Expression always holds Expression::Parentheses"),
    (r"^format_stmt_no_trivia$", r"unreachable", {"Stmt": {"CompoundAssignment", "Do", "ExportedTypeDeclaration", "ExportedTypeFunction", "FunctionDeclaration",
                                                             "GenericFor", "If", "Label", "LocalFunction", "NumericFor", "Repeat", "TypeDeclaration",
                                                             "TypeFunction", "While"}, "FormatNode": {"Normal"}},
     "callers pass only statements accepted by the collapse guard (assignment, local assignment, call, goto)"),
    (r"^format_stmt_no_trivia$", r"FormatNode::None", {"FormatNode": {"Skip", "NotInRange"}},
     "callers collapse a block only when it carries no comments and lies inside the outer statement's range"),
    (r"^block_contains_nested_function$", r"", {"Stmt": ALL}, "guarded by is_block_simple: decided by kernel G (collapse_guard_covers)"),
    (r"^format_field$", r"", {"FormatNode": {"NotInRange"}}, "fields are never range-tested on their own (should_format_node on a field returns Normal or Skip)"),
    (r"^format_generic_parameter$", r"", {}, "default type present iff `=` present (parser contract)"),
    (r"^format_if$", r"", {}, "else token present iff else block present; a collapsed guard has exactly one statement"),
    (r"^format_numeric_for$", r"", {}, "step present iff its comma present (parser contract)"),
    (r"^format_singleline_table$", r"trailing_trivia", {}, "single-line tables are chosen only when no field carries comments"),
    (r"^format_token::\{closure#0\}$", r"", {}, "regex capture groups: one of the alternatives matched"),
    (r"^get_stmt_trailing_trivia$", r"", {"Stmt": {"FunctionCall"}}, "a call statement has at least one suffix (parser contract)"),
    (r"^hang_punctuated_list$", r"", {}, "caller passes a single-element list"),
    (r"^partition_nodes_into_groups$", r"", {"Stmt": ALL, "BlockPartition": ALL}, "the partition just pushed is the last one (local invariant over Vec contents)"),
    (r"^sort_requires$", r"", {"Stmt": ALL, "BlockPartition": ALL}, "RequiresGroup members are LocalAssignment (built by partition_nodes_into_groups)"),
    (r"visit_number$", r"", {"TokenType": ALL}, "visitor contract: visit_number receives Number tokens; the parse fallbacks are decided by kernel E"),
    (r"visit_string_literal$", r"", {"TokenType": ALL}, "visitor contract: visit_string_literal receives StringLiteral tokens"),
    (r"^format_function_body$", r"", {}, "callee-result dependent"),
    (r"^get_quote_to_use$", r"", {}, "unreachable by construction"),
]


CONTRACT = re.compile(r"(^|::)clamp$")       # std functions whose documented precondition panics (summarised in vcheck/summaries.py)


def pan_sites(f):
    return [(bb, canon(s[2])) for bb, sts in f.blocks.items() for s in sts if s[0] == "call" and
            (PAN.search(canon(s[2]).split("::<")[0]) or CONTRACT.search(canon(s[2]).split("::<")[0]))]


def source_file(tree, fname):
    m = re.search(r"(src/[A-Za-z0-9_/]+\.rs)", fname)
    if m:
        return m.group(1)
    base = fname.split("::{closure")[0].split("::")[-1]
    for p in sorted(glob.glob(os.path.join(tree, "src", "**", "*.rs"), recursive=True)):
        if re.search(r"\bfn " + re.escape(base) + r"\b", open(p).read()):
            return os.path.relpath(p, tree)
    return None


def lazy_args(ex, f):
    return [RefV(ex.fresh_lazy(t_.lstrip("&").replace("mut ", "", 1).strip(), p)) if t_.startswith("&") and t_ != "&str" else ex.fresh_lazy(t_, p)
            for p, t_ in f.params]


def census(ses, rep, fs):
    """B"""
    flagged = []
    funcs = ses.mir("lib", fs)
    not_encoded, n_sites, n_pre = [], 0, 0
    for name, l in sorted(funcs.items()):
        for f in l:
            own_closures = [g for n2, l2 in funcs.items() for g in l2 if g.name.startswith(f.name + "::{closure") and pan_sites(g) and len(g.blocks) <= 60]
            sites = pan_sites(f)
            if not sites and not own_closures:
                continue
            if "{closure" in f.name:
                # a closure is analysed inline from the function that uses it (its match is correlated with the parent's);
                # one that nothing refers to is dead code: rustc removed the wildcard arm that called it
                m_ = re.search(r"\{closure@[^}]*\}", f.params[0][1]) if f.params else None
                cid = m_.group(0) if m_ else None
                users = [g for n2, l2 in funcs.items() for g in l2 if g is not f and cid and cid in g.text and "::promoted[" not in g.name]
                if not users:
                    rep.add(f"census/{fs}/{f.name}/dead-closure", "unsat", "no function refers to this closure (the arm that called it was removed as unreachable)", nontrivial=False)
                    continue
                if any(s_[0] == "call" and re.match(r"^<&?(mut )?" + re.escape(cid) + r" as Fn", s_[2]) for g in users for sts in g.blocks.values() for s_ in sts) and len(f.blocks) <= 60:
                    continue
            ex = ses.executor("lib", fs, inline=lambda n_, fn, own=own_closures: any(fn is g for g in own) and "{closure" in n_)
            ex.max_block_visits = 2 if rep.tier == "quick" else 3
            ex.max_paths = 4000 if rep.tier == "quick" else 20000
            try:
                args = lazy_args(ex, f)
                outs = ex.run(f, args)
            except Inconclusive as e:
                not_encoded.append(f"{f.name}: {str(e)[:80]}")
                continue
            rep.fn(f)
            objs = {}
            for a in args:
                a = a.v if isinstance(a, RefV) else a
                if isinstance(a, Lazy):
                    objs[a.oid] = a
            for (oid, key), v in ex.lazy_tab.items():
                if isinstance(v, Lazy):
                    objs[v.oid] = v
            for v in ex.havoc_memo.values():
                if isinstance(v, Lazy):
                    objs[v.oid] = v
            rng = ex.all_discr_ranges()
            per_site = {}
            events = []
            for o in outs:
                for t in o.trace:
                    if t[0] == "panic-candidate" and str(t[1]).startswith("contract:"):
                        events.append((o, f.name, t[1], [t[2]]))
                if o.kind == "panic" and not str(o.value).startswith("assert:"):
                    events.append((o, o.info[0] if o.info else f.name, str(o.value), list(o.pc)))
            for o, where, msg, cond in events:
                key = (where, msg[:70])
                ent = per_site.setdefault(key, {"reach": False, "kinds": {}, "unknown": False})
                r, _ = ses.check(cond + rng, 20)
                if r == "unsat":
                    continue
                if r == "unknown":
                    ent["unknown"] = True
                    continue
                ent["reach"] = True
                pcv = set()
                for c in cond:
                    ex._vars(c, pcv)
                names = {str(v) for v in pcv}
                for (oid, k), d in ex.lazy_tab.items():
                    if k != ("discr",) or str(d) not in names:
                        continue
                    ob = objs.get(oid)
                    if ob is None:
                        continue
                    from ..enums import enum_key
                    ek = enum_key(ob.ty)
                    vs = ex.enums.variants(ob.ty)
                    if not vs or ek not in AST_ENUMS:
                        continue
                    reach = {vn[0] for i, vn in enumerate(vs) if ses.check(cond + rng + [d == z3.BitVecVal(i, 64)], 10)[0] != "unsat"}
                    ent["kinds"].setdefault(ek, set()).update(reach)
            for (fn_, msg), ent in sorted(per_site.items()):
                n_sites += 1
                oid = f"census/{fs}/{fn_}/{msg[:40]}"
                if ent["unknown"] and not ent["reach"]:
                    rep.add(oid, "inconclusive", "solver timeout")
                    continue
                if not ent["reach"]:
                    rep.add(oid, "unsat", "no valid discriminants reach this panic (every node kind of the feature set is handled)")
                    continue
                pre = [p for p in PRECONDITIONS if re.search(p[0], fn_) and re.search(p[1], msg)]
                extra = {}
                if pre:
                    allowed = pre[0][2]
                    for ek, kinds in ent["kinds"].items():
                        if ek in allowed and allowed[ek] is not None and not kinds <= allowed[ek]:
                            extra[ek] = sorted(kinds - allowed[ek])
                        elif ek not in allowed and ek in ("Stmt", "LastStmt", "Expression") and len(kinds) < len(ex.enums.variants(ek) or []):
                            extra[ek] = sorted(kinds)
                if pre and not extra:
                    n_pre += 1
                    rep.add(oid, "unsat", f"reachable only by breaking the listed precondition: {pre[0][3]}", nontrivial=False)
                    continue
                kinds = extra or {k: sorted(v) for k, v in ent["kinds"].items()}
                flagged.append((oid, f"panic `{msg}` in {fn_} is reachable for node kinds {kinds}", "panic-site", {"function": fn_, "featureset": fs, "kinds": kinds}))
    rep.bounds[f"panic_sites_{fs}"] = n_sites
    rep.bounds[f"precondition_sites_{fs}"] = n_pre
    rep.extra.setdefault("census_not_encoded", []).extend(not_encoded)
    return flagged


def shape_arith(ses, rep):
    """C"""
    flagged = []
    funcs = ses.mir("lib", "default")
    n = 0
    for name, l in sorted(funcs.items()):
        for f in l:
            if not re.match(r"shape::<impl at src/shape\.rs[^>]*>::[a-z_]+$", f.name) or f.name.endswith(("::fmt", "::clone", "::new")):
                continue
            if any("&T" == t or t == "T" for _, t in f.params):
                continue          # generic over Display/Node: string measuring, outside
            ex = ses.executor("lib", "default", inline=lambda n_, fn: re.match(r"shape::<impl at src/shape\.rs", fn.name) is not None)
            try:
                args = lazy_args(ex, f)
                outs = ex.run(f, args)
            except Inconclusive as e:
                rep.extra.setdefault("shape_not_encoded", []).append(f"{f.name}: {str(e)[:80]}")
                continue
            rep.fn(f)
            n += 1
            bounds = []
            objs = {a.v.oid if isinstance(a, RefV) else a.oid: (a.v if isinstance(a, RefV) else a) for a in args if isinstance(a, (RefV, Lazy)) and isinstance(a.v if isinstance(a, RefV) else a, Lazy)}
            for (oid, key), v in ex.lazy_tab.items():
                if isinstance(v, Lazy):
                    objs[v.oid] = v
            LIM = {("Indent", 0): 2 ** 16, ("Indent", 1): 2 ** 32, ("Indent", 2): 2 ** 32, ("Shape", 1): 2 ** 48, ("Shape", 2): None}
            for (oid, key), v in ex.lazy_tab.items():
                if isinstance(v, Sym) and not z3.is_bool(v.t) and key[0] == "field" and oid in objs:
                    ty = objs[oid].ty.split("::")[-1]
                    lim = LIM.get((ty, key[1]), 2 ** 48)
                    if lim:
                        bounds.append(z3.ULT(v.t, z3.BitVecVal(lim, 64)))
            for a in args:
                if isinstance(a, Sym) and not z3.is_bool(a.t):
                    bounds.append(z3.ULT(a.t, z3.BitVecVal(2 ** 48, 64)))
            pan = [o for o in outs if o.kind == "panic"]
            short = f.name.split(">::")[-1] + ("/Indent" if "21:1" in f.name else "")
            if not pan:
                rep.add(f"shape/{short}/no-panic-path", "unsat", "no panicking path in the MIR", nontrivial=False)
            for pi, o in enumerate(pan):
                r, m = ses.obligation(f"shape/{short}/path{pi}/no-overflow", bounds, z3.And(*o.pc) if o.pc else z3.BoolVal(True), str(o.value)[:70])
                if r == "sat":
                    flagged.append((f"shape/{short}/path{pi}", f"Shape::{short} panics ({o.value}) within the bounds", "shape", {}))
    rep.bounds["shape_methods"] = n
    if n < 10:
        raise Inconclusive(f"only {n} Shape/Indent methods recognised")
    return flagged


def heuristics_guard(ses, rep):
    """D"""
    flagged = []
    funcs = ses.mir("lib", "default")
    isshape = lambda n_, fn: re.match(r"shape::<impl at src/shape\.rs", fn.name) is not None and not fn.name.endswith("::indent_width")
    ex = ses.executor("lib", "default", inline=isshape)
    ex.max_block_visits = 2

    def stop_at_trial(ex_, st, callee, args, dty):
        # the lazily evaluated `arguments...map(|argument| format_expression(.., shape.with_simple_heuristics()..))`: the path ends here
        if "function_args_multiline_heuristic::{closure" in callee or re.search(r"\{closure@src/formatters/functions\.rs", callee) and "map" in canon(callee).split("::")[-1]:
            return ("panic", "TRIAL-FORMATTING-REACHED")
        return NotImplemented
    ex.hooks = [stop_at_trial]
    f = ses.need(ex, "function_args_multiline_heuristic")
    args = lazy_args(ex, f)
    shape = args[2]
    outs = ex.run(f, args)
    sh_idx = ex.enums.field_index("Shape", "simple_heuristics")
    flag = ex.lazy_tab.get((shape.oid, ("field", sh_idx)))
    if flag is None:
        flagged.append(("heuristics/guard-read", "function_args_multiline_heuristic never reads shape.simple_heuristics", "heuristics", {}))
        return flagged
    n = 0
    for pi, o in enumerate(outs):
        if not (o.kind == "panic" and o.value == "TRIAL-FORMATTING-REACHED"):
            continue
        n += 1
        r, m = ses.obligation(f"heuristics/path{pi}/no-trial-formatting-under-simple-heuristics", list(o.pc), flag.t,
                              "argument trial formatting is reached only when the flag is clear")
        if r == "sat":
            flagged.append((f"heuristics/path{pi}", "call arguments are trial-formatted although simple_heuristics is set (nested calls format exponentially)", "heuristics", {}))
    if n == 0:
        raise Inconclusive("function_args_multiline_heuristic: no path reaches the trial formatting")
    # the trial formatting itself sets the flag
    cl = [g for n2, l2 in funcs.items() for g in l2 if g.name.startswith("function_args_multiline_heuristic::{closure")]
    k = 0
    for g in cl:
        ex2 = ses.executor("lib", "default", inline=isshape)
        try:
            outs = ex2.run(g, lazy_args(ex2, g))
        except Inconclusive:
            continue
        for pi, o in enumerate(outs):
            for c in find_calls(o.trace, lambda n_: n_.split("::")[-1].startswith("format_expression")):
                k += 1
                sh = deref_val(ex2, o.state, c[1][2])
                fl = sh.fields[sh_idx] if isinstance(sh, Agg) else None
                bad = z3.BoolVal(True) if fl is None else z3.Not(fl.t) if isinstance(fl, Sym) else z3.BoolVal(True)
                rep.fn(g)
                r, m = ses.obligation(f"heuristics/{g.name.split('::', 1)[-1]}/path{pi}/trial-sets-flag", list(o.pc), bad,
                                      "format_expression receives shape.with_simple_heuristics()")
                if r == "sat":
                    flagged.append((f"heuristics/{g.name}", "argument trial formatting does not set simple_heuristics", "heuristics", {}))
    if k == 0:
        raise Inconclusive("no closure of function_args_multiline_heuristic calls format_expression")
    return flagged


def verify_numbers(ses, rep, fs):
    """E"""
    flagged = []
    funcs = ses.mir("lib", fs)
    cands = [g for n2, l2 in funcs.items() for g in l2 if g.name.endswith("::visit_number") and "verify_ast" in g.name]
    if len(cands) != 1:
        raise Inconclusive("verify_ast visit_number not found")
    f = cands[0]
    syntaxes = ["lua51"] if fs == "default" else ["lua51", "lua52", "lua53", "lua54", "luajit", "luau"]
    text = z3.String("number_text")
    tok = Agg("TokenType", "Number", [numstr.SStr(text)])

    def tt(ex_, st, callee, args, dty):
        if canon(callee).endswith("Token::token_type"):
            return RefV(tok)
        return NotImplemented
    ex = ses.executor("lib", fs, inline=lambda n_, fn: False)
    ex.hooks = [tt, numstr.hooks()]
    ex.check_feasible = False          # few paths; every path condition is decided below together with the token language
    outs = ex.run(f, lazy_args(ex, f))
    rep.fn(f)
    maxlen = 24 if rep.tier == "quick" else 40
    rep.bounds["number_text_max_len"] = maxlen
    for syn in syntaxes:
        lang = [z3.InRe(text, numstr.token_language(syn)), z3.Length(text) <= maxlen]
        has_us = syn in ("luau", "luajit")
        for pi, o in enumerate(outs):
            rel = numstr.relation_constraints(o.state.aux.get("strrel", ()), no_char=() if has_us else ("_",),
                                              no_suffix=() if syn == "luajit" else ("ULL", "LL"),
                                              image={"_": numstr.token_language(syn, cleaned=True)})

            def witness(m):
                """a source literal for the model: the token text, or (underscores deleted) a member of the language that cleans to it"""
                t0 = m.eval(text, model_completion=True).as_string()
                if not has_us:
                    return t0
                rels = o.state.aux.get("strrel", ())
                r0 = m.eval(rels[0][4], model_completion=True).as_string() if rels and rels[0][0] == "replace_all" else t0
                for cand in (r0, r0[:2] + "_" + r0[2:], r0 + "_"):
                    chk, _ = ses.check([z3.InRe(z3.StringVal(cand), numstr.token_language(syn))], 10)
                    if chk == "sat" and cand.replace("_", "") == r0:
                        return cand
                return None
            for ev in [t for t in o.trace if t[0] == "str-index"]:
                _, k, s, pc0 = ev
                r, m = ses.obligation(f"verify-number/{fs}/{syn}/path{pi}/slice-from-{k}-in-bounds", lang + rel + pc0, z3.Length(s) < k, "`[2..]` never slices past the end", 240)
                if r == "sat" and witness(m) is not None:
                    flagged.append((f"verify-number/{fs}/{syn}/slice", f"`[{k}..]` out of bounds for number {witness(m)}", "verify-number",
                                    {"syntax": syn, "literal": witness(m)}))
            if o.kind != "panic":
                continue
            oid = f"verify-number/{fs}/{syn}/path{pi}/no-panic"
            r, m = ses.check(lang + rel + list(o.pc), 240)
            if r == "unsat":
                rep.add(oid, "unsat", f"no {syn} number token reaches `{str(o.value)[:50]}`")
            elif r == "unknown":
                rep.add(oid, "inconclusive", "solver timeout")
            else:
                litv = witness(m)
                if litv is None:
                    rep.add(oid, "inconclusive", "no source literal found for the cleaned text of the model")
                    continue
                flagged.append((oid, f"--verify panics ({str(o.value)[:50]}) on the valid {syn} number `{litv}`", "verify-number", {"syntax": syn, "literal": litv}))
    if not any(o.kind == "return" for o in outs):
        raise Inconclusive("visit_number: no returning path")
    return flagged


# ------------------------------------------------------------------------------------------------ replay
SYN_FLAG = {"lua51": "Lua51", "lua52": "Lua52", "lua53": "Lua53", "lua54": "Lua54", "luajit": "LuaJIT", "luau": "Luau"}


def run_src(binp, src, flags):
    r = subprocess.run([binp] + flags + ["-"], input=src.encode(), capture_output=True, timeout=120)
    err = r.stderr.decode("utf-8", "replace")
    m = re.search(r"panicked at ([^\n]*):\n?([^\n]*)", err)
    return r.returncode, (m.group(1), m.group(2)) if m else None, err


def corpus_panics(fs):
    binp = common.native_build("full" if fs == "full" else "default")
    found = []
    for name, syn, src in luacorpus.programs(fs):
        for cfg in luacorpus.CONFIGS:
            fl = (["--syntax", syn] if fs == "full" else []) + cfg
            rc, pan, err = run_src(binp, src, fl)
            if pan or rc < 0 or rc > 2:
                found.append({"program": name, "flags": fl, "source": src, "panic_at": pan[0] if pan else f"signal/rc {rc}", "message": pan[1] if pan else err[-300:]})
    return found


def trial_formats_unbounded(ses, rep, fs="full"):
    """T  format_if_expression formats each branch first as a trial (to measure it) and then for real. A trial at the REAL width recurses into the
    same trial one level down, so the work doubles per nesting level (`if .. else if .. else if ..`): on every path, each child expression
    is handed to a formatter with a bounded shape (column_width not usize::MAX) at most once - every other call is at infinite width.
    Shape's own methods are executed, so `with_infinite_width()` shows as the constant usize::MAX."""
    flagged = []
    inl = lambda n, g: canon(n).split("::")[-1] in ("with_infinite_width", "with_column_width", "reset", "increment_additional_indent", "increment_block_indent", "with_indent",
                                                    "indent", "add_width") and g.params and re.search(r"(Shape|Indent)$", g.params[0][1].strip().lstrip("&"))
    ex = ses.executor("lib", fs, inline=inl, max_depth=3)
    ex.max_block_visits = 2
    try:
        fn = ses.need(ex, "format_if_expression")
    except Inconclusive:
        return flagged
    args = [RefV(ex.fresh_lazy(t.lstrip("&").strip(), p)) if t.startswith("&") else ex.fresh_lazy(t, p) for p, t in fn.params]
    ci = ex.enums.field_index("Shape", "column_width")
    n = 0
    for pi, o in enumerate(ex.run(fn, args)):
        if o.kind != "return":
            continue
        per = {}
        for t in o.trace:
            if t[0] not in ("havoc", "effect") or not re.search(r"(^|::)(format_|hang_)[a-z_]*$", t[1]):
                continue
            snap = [deref_val(ex, o.state, a) for a in ((t[4] if len(t) > 4 else t[2]) or [])]
            nodes = [a for a in snap if isinstance(a, Lazy) and re.search(r"(^|::)Expression$", a.ty.strip())]
            shapes_ = [a for a in snap if isinstance(a, (Agg, Lazy)) and re.search(r"(^|::)Shape$", str(getattr(a, "ty", "")).strip())]
            if not nodes or not shapes_:
                continue
            s0 = shapes_[0]
            bounded = True
            if isinstance(s0, Agg) and ci is not None and ci < len(s0.fields):
                cw = deref_val(ex, o.state, s0.fields[ci])
                if isinstance(cw, Sym):
                    v_ = z3.simplify(cw.t)
                    bounded = not (z3.is_bv_value(v_) and v_.as_long() == 2 ** 64 - 1)
            if bounded:
                per.setdefault(nodes[-1].oid, []).append(t[1].split("::")[-1])
        n += 1
        twice = {k: v for k, v in per.items() if len(v) > 1}
        r, m = ses.obligation(f"trial-format/format_if_expression/path{pi}/each-branch-bounded-at-most-once", list(o.pc), z3.BoolVal(bool(twice)),
                              "a branch is formatted at the real width at most once per path; trials use infinite width")
        if r == "sat":
            flagged.append((f"trial-format/format_if_expression/path{pi}", f"format_if_expression formats the same branch at the real width more than once ({sorted(twice.values())[:2]}): "
                            "nested if-expressions take time exponential in their depth", "trial-format", {}))
    if n == 0:
        raise Inconclusive("format_if_expression: no returning path")
    return flagged


def if_chain_time():
    import time
    binp = common.native_build("full")
    worst, wsrc = 0.0, ""
    for depth in (10, 16, 20):
        src = "local value_of_the_chain = " + "".join(f"if condition_number_{i} then result_value_number_{i} else " for i in range(depth)) + "final_fallback_value\n"
        t = time.time()
        try:
            subprocess.run([binp, "--syntax", "luau", "-"], input=src.encode(), capture_output=True, timeout=25)
            dt = time.time() - t
        except subprocess.TimeoutExpired:
            dt = 25.0
        if dt > worst:
            worst, wsrc = dt, src
        if worst > 8.0:
            break
    return worst, wsrc


def deep_nesting_time():
    """nested call shapes that are formatted in well under a second when trial formatting is bounded"""
    import time
    binp = common.native_build("default")
    n = 20
    shapes = [
        "local x = " + "call(" * 16 + "a, function() return 1 end, b" + ")" * 16 + "\n",
        "local tree = " + 'new("Frame", { ' * n + "child" + " })" * n + "\n",
        "local v = " + "wrap({ key = " * n + "leaf" + " })" * n + "\n",
        "local g = " + "outer(function() return " * 12 + "1" + " end)" * 12 + "\n",
    ]
    worst, wsrc = 0.0, shapes[0]
    for src in shapes:
        t = time.time()
        try:
            subprocess.run([binp, "-"], input=src.encode(), capture_output=True, timeout=25)
            dt = time.time() - t
        except subprocess.TimeoutExpired:
            dt = 25.0
        if dt > worst:
            worst, wsrc = dt, src
        if worst > 8.0:
            break
    return worst, wsrc


def _stmt_hook(ex, stmt, empty=False):
    """the block's single statement: the first `next()` of every statement iterator hands out the same arbitrary Stmt, the second one
    None (`empty`: a block without statements and without a last statement)"""
    from ..summaries import opt_some, opt_none

    def h(ex_, st, callee, args, dty):
        c = canon(callee)
        if re.search(r"as Iterator>::next$", c) and re.fullmatch(r"(std::option::)?Option<&(\w+::)*Stmt>", dty.strip()):
            key = ("stmt-iter", repr(args[0].key) if isinstance(args[0], Ref) else id(args[0]))
            k = st.aux.get(key, 0)
            st.aux[key] = k + 1
            return opt_some(dty, RefV(stmt)) if (k == 0 and not empty) else opt_none(dty)
        if re.search(r"as Iterator>::count$", c) and "Stmt" in callee:
            return Sym(z3.BitVecVal(0 if empty else 1, 64), "usize")
        if empty and c.endswith("Block::last_stmt"):
            return opt_none(dty)
        return NotImplemented
    return h


def collapse_guard_covers(ses, rep, fs):
    """G: block_contains_nested_function panics on statement kinds it does not list; its caller guards it with is_block_simple.
    Decided: (a) should_collapse_function_body calls it only after is_block_simple returned true for the same block;
    (b) no statement kind for which is_block_simple can return true reaches the panic."""
    flagged = []
    kinds = {}
    for fname, want in (("is_block_simple", "accept"), ("block_contains_nested_function", "panic"), ("format_stmt_no_trivia", "panic:format_stmt_no_trivia")):
        ex = ses.executor("lib", fs, inline=lambda n, fn: False)
        ex.max_block_visits = 2
        stmt = ex.fresh_lazy("Stmt", "stmt")
        ex.hooks = [_stmt_hook(ex, stmt)]
        fn = ses.need(ex, fname)
        outs = ex.run(fn, [RefV(stmt) if re.fullmatch(r"&(\w+::)*Stmt", t_) else a_ for (p_, t_), a_ in zip(fn.params, lazy_args(ex, fn))])
        d = ex.discr(None, stmt)
        vs = ex.enums.variants("Stmt")
        got = set()
        for o in outs:
            if want == "accept" and o.kind == "return" and isinstance(o.value, Sym):
                cond = list(o.pc) + [o.value.t if z3.is_bool(o.value.t) else o.value.t != 0]
            elif want.startswith("panic") and o.kind == "panic" and ("unreachable" in str(o.value) or "node !=" in str(o.value) or want == "panic"):
                cond = list(o.pc)
            else:
                continue
            for i, v in enumerate(vs):
                if v[0] not in got and ses.check(cond + [d == z3.BitVecVal(i, 64)], 10)[0] != "unsat":
                    got.add(v[0])
        kinds[want] = got
    if not kinds["accept"]:
        raise Inconclusive("is_block_simple: no statement kind is accepted (kernel G lost its subject)")
    # an EMPTY block is never simple: format_if's collapsed layout takes the block's only statement (`'if guard' conditional but has no body`)
    ex = ses.executor("lib", fs, inline=lambda n, fn: False)
    ex.max_block_visits = 2
    ex.hooks = [_stmt_hook(ex, ex.fresh_lazy("Stmt", "none"), empty=True)]
    fn = ses.need(ex, "is_block_simple")
    for pi, o in enumerate(ex.run(fn, lazy_args(ex, fn))):
        if o.kind != "return" or not isinstance(o.value, Sym):
            continue
        r, m = ses.obligation(f"collapse-guard/{fs}/is_block_simple/path{pi}/false-for-an-empty-block", list(o.pc), o.value.t if z3.is_bool(o.value.t) else o.value.t != 0,
                              "a block without statements and without a last statement is not `simple`")
        if r == "sat":
            flagged.append((f"collapse-guard/{fs}/is_block_simple/path{pi}/false-for-an-empty-block", "is_block_simple accepts an empty block: format_if's collapsed layout "
                            "panics on it ('if guard' conditional but has no body)", "panic-site", {"function": "format_if", "featureset": fs, "kinds": {}}))
    for k in sorted(kinds["accept"]):
        for key, gfn in (("panic", "block_contains_nested_function"), ("panic:format_stmt_no_trivia", "format_stmt_no_trivia")):
            oid = f"collapse-guard/{fs}/is_block_simple-accepts-{k}/handled-by-{gfn}"
            r, m = ses.obligation(oid, [], z3.BoolVal(k in kinds[key]), f"a statement kind accepted by is_block_simple does not reach the unreachable!() of {gfn}")
            if r == "sat":
                flagged.append((oid, f"is_block_simple accepts a block whose statement is Stmt::{k}, on which {gfn} panics",
                                "panic-site", {"function": gfn, "featureset": fs, "kinds": {"Stmt": [k]}}))
    # (a) the guard is in front of the call
    ex = ses.executor("lib", fs, inline=lambda n, fn: False)
    fn = ses.need(ex, "should_collapse_function_body")
    outs = ex.run(fn, lazy_args(ex, fn))
    n = 0
    for pi, o in enumerate(outs):
        bc = find_calls(o.trace, lambda x: x.split("::")[-1] == "block_contains_nested_function")
        if not bc:
            continue
        n += 1
        g = [c for c in find_calls(o.trace, lambda x: x.split("::")[-1] == "is_block_simple")
             if repr(deref_val(ex, o.state, c[1][0])) == repr(deref_val(ex, o.state, bc[0][1][0]))]
        bad = z3.BoolVal(True) if not g or not isinstance(g[0][2], Sym) else z3.Not(g[0][2].t)
        oid = f"collapse-guard/{fs}/should_collapse_function_body/path{pi}/guarded-by-is_block_simple"
        r, m = ses.obligation(oid, list(o.pc), bad, "block_contains_nested_function is called only for a block is_block_simple accepted")
        if r == "sat":
            flagged.append((oid, "should_collapse_function_body calls block_contains_nested_function on a block is_block_simple did not accept",
                            "panic-site", {"function": "block_contains_nested_function", "featureset": fs, "kinds": {}}))
    if n == 0:
        raise Inconclusive("should_collapse_function_body: no path calls block_contains_nested_function")
    rep.extra.setdefault("collapse_guard", {})[fs] = {k: sorted(v) for k, v in kinds.items()}
    return flagged


SLICING = re.compile(r"(^|::)(split_at|split_at_mut|split_at_checked_unwrap|split_off|swap_remove|drain|copy_from_slice|char_at|slice_unchecked)$|"
                     r"Index<std::ops::Range(From|To|Inclusive|ToInclusive|Full)?<usize>>>::index(_mut)?$|(^|::)(Vec|String|VecDeque)(::<[^>]*>)?::(remove|insert)$")
# (function regex) -> reason: slicing sites of the pinned tree that another kernel decides
SLICING_OK = [(r"visit_number$", "the `[2..]` slices of --verify's number normalisation are decided by kernel E (all number tokens of the tokenizer's language)")]


def slicing_sites(ses, rep, fs):
    """S2: std slicing / indexing-by-range functions panic on an offset that is out of bounds or inside a multi-byte character; the formatter works on
    token TEXT (comments, strings, names - any UTF-8). Census over the library MIR: no such call outside the sites listed in SLICING_OK."""
    flagged = []
    funcs = ses.mir("lib", fs)
    n = 0
    for name, l in sorted(funcs.items()):
        for f in l:
            for bb, sts in f.blocks.items():
                for s_ in sts:
                    if s_[0] != "call":
                        continue
                    c = canon(s_[2])
                    if not SLICING.search(re.sub(r"::<[^<>]*>$", "", c)):
                        continue
                    n += 1
                    ok = [why for pat, why in SLICING_OK if re.search(pat, f.name)]
                    oid = f"slicing/{fs}/{f.name[-50:]}/{bb}/{c.split('::')[-1][:30]}"
                    r, m = ses.obligation(oid, [], z3.BoolVal(not ok), "no offset-based slicing of token text outside the decided sites")
                    if r == "sat":
                        flagged.append((oid, f"{f.name} slices / splits at a computed offset ({c[-60:]}): panics when the offset is out of range or inside a multi-byte character",
                                        "panic-site", {"function": f.name, "featureset": fs, "kinds": {}, "slicing": True}))
    rep.bounds[f"slicing_sites_{fs}"] = n
    return flagged


def mk_variant(ex, ety, variant, label):
    """a node of the given kind whose children are arbitrary"""
    ent = next(v for v in ex.enums.variants(ety) if v[0] == variant)
    fields = []
    for fname, fty in ent[2]:
        m = re.match(r"^Box<(.*)>$", fty)
        fields.append(RefV(ex.fresh_lazy(m.group(1), f"{label}.{fname}")) if m else ex.fresh_lazy(fty, f"{label}.{fname}"))
    return Agg(ety, variant, fields, [f[0] for f in ent[2]] if ent[1] == "named" else None)


def prefix_stays_parenthesised(ses, rep, fs):
    """F: block.rs::prefix_remove_leading_newlines (run on the FORMATTED first statement of every block) panics on a
    Prefix::Expression that does not hold Expression::Parentheses. The parser guarantees that shape for the input; this kernel
    decides that format_prefix re-establishes it for its output, on every layout path:
    (a) format_prefix wraps the result of an in-crate expression formatter called with (the prefix's expression, ExpressionContext::Prefix);
    (b) each such formatter, run on an arbitrary Expression::Parentheses under ExpressionContext::Prefix, returns Expression::Parentheses."""
    flagged = []
    ex = ses.executor("lib", fs, inline=lambda n, fn: False)
    ex.max_block_visits = 2
    fn = ses.need(ex, "format_prefix")
    inner = mk_variant(ex, "Expression", "Parentheses", "paren")
    prefix = Agg("Prefix", "Expression", [RefV(inner)])
    args = []
    for p_, t_ in fn.params:
        if re.fullmatch(r"&(\w+::)*Prefix", t_):
            args.append(RefV(prefix))
        elif t_.startswith("&"):
            args.append(RefV(ex.fresh_lazy(t_.lstrip("&"), p_)))
        else:
            args.append(ex.fresh_lazy(t_, p_))
    outs = ex.run(fn, args)
    producers = set()
    n = 0
    for pi, o in enumerate(outs):
        if o.kind != "return":
            continue
        n += 1
        v = deref_val(ex, o.state, o.value)
        ok, shown = False, repr(v)[:60]
        if isinstance(v, Agg) and v.variant == "Expression":
            e = deref_val(ex, o.state, v.fields[0])
            shown = repr(e)[:60]
            hc = ex.havoc_calls.get(e.oid) if isinstance(e, Lazy) else None
            if hc and ex.resolve(hc[0]) is not None:
                vals = [deref_val(ex, o.state, a_) for a_ in ex.havoc_snap.get(e.oid, hc[1])]
                has_ctx = any(isinstance(a_, Agg) and a_.variant == "Prefix" and "ExpressionContext" in (a_.ty or "") for a_ in vals)
                has_expr = any(a_ is inner for a_ in vals)
                ok = has_ctx and has_expr
                shown = f"{hc[0]}(.., context={'Prefix' if has_ctx else 'other'})"
                if ok:
                    producers.add(hc[0])
            elif isinstance(e, Agg) and e.variant == "Parentheses":
                ok = True
        oid = f"prefix-shape/{fs}/format_prefix/path{pi}/wraps-a-prefix-context-formatter"
        r, m = ses.obligation(oid, list(o.pc), z3.BoolVal(not ok), "the formatted prefix is what an expression formatter returns for (expression, Prefix)")
        if r == "sat":
            flagged.append((oid, f"format_prefix returns a Prefix::Expression holding {shown}", "prefix-shape", {"featureset": fs}))
    if n == 0:
        raise Inconclusive("format_prefix: no returning path for a parenthesised prefix")
    want = z3.BitVecVal(ex.enums.index("Expression", "Parentheses"), 64)
    for prod in sorted(producers):
        ex2 = ses.executor("lib", fs, inline=lambda n_, fn_: False)
        ex2.max_block_visits = 2
        g = ex2.resolve(prod)
        rep.fn(g)
        node = mk_variant(ex2, "Expression", "Parentheses", "paren")
        args = []
        for p_, t_ in g.params:
            if re.fullmatch(r"&(\w+::)*Expression", t_):
                args.append(RefV(node))
            elif re.fullmatch(r"(\w+::)*ExpressionContext", t_):
                args.append(Agg("ExpressionContext", "Prefix", []))
            elif t_.startswith("&"):
                args.append(RefV(ex2.fresh_lazy(t_.lstrip("&"), p_)))
            else:
                args.append(ex2.fresh_lazy(t_, p_))
        outs2 = ex2.run(g, args)
        m_ = 0
        for pi, o in enumerate(outs2):
            if o.kind != "return":
                continue
            m_ += 1
            e = deref_val(ex2, o.state, o.value)
            if isinstance(e, Agg):
                bad = z3.BoolVal(e.variant != "Parentheses")
            elif isinstance(e, Lazy):
                bad = ex2.discr(o.state, e) != want
            else:
                bad = z3.BoolVal(True)
            oid = f"prefix-shape/{fs}/{canon(prod)}/path{pi}/parentheses-stay-under-Prefix-context"
            r, m = ses.obligation(oid, list(o.pc), bad, "a parenthesised expression formatted under ExpressionContext::Prefix is still Expression::Parentheses")
            if r == "sat":
                flagged.append((oid, f"{canon(prod)} can return {repr(e)[:60]} for a parenthesised expression under ExpressionContext::Prefix, on which "
                                     "prefix_remove_leading_newlines panics", "prefix-shape", {"featureset": fs}))
        if m_ == 0:
            raise Inconclusive(f"{prod}: no returning path")
    return flagged


PREFIX_PROGRAMS = ["(obj):update()\n", "function f()\n\t(obj):update()\nend\n", "if x then\n\t(state).count = 0\nend\n", "(handler)(signal)\n",
                   '("x"):rep(2)\n', "(function() end)()\n", "do\n\t(a or b)(c)\nend\n", "({}).x = 1\n", "(a.b):c()\n", "(f()).x = 1\n", "(...)(1)\n"]


def replay_prefix_shape(fs):
    binp = common.native_build("full" if fs == "full" else "default")
    for src in PREFIX_PROGRAMS:
        for fl in ([], ["--column-width", "10"], ["--column-width", "1"]):
            rc, pan, err = run_src(binp, src, fl)
            if pan or rc < 0 or rc > 2:
                return {"source": src, "flags": fl, "panic_at": pan[0] if pan else f"rc {rc}", "message": pan[1] if pan else err[-200:]}
    return None


INVALID = ["local x = = 1\n", "local x = (\n\n\nprint(1", "if a then\n", "x = = 2   \n\n"]
INVALID_FLAGS = [[], ["--range-start", "0", "--range-end", "0"], ["--range-start", "8", "--range-end", "8"], ["--range-start", "5", "--range-end", "6"],
                 ["--range-start", "9", "--range-end", "3"], ["--range-start", "900", "--range-end", "1000"], ["--check"], ["--verify"],
                 ["--range-start", "10", "--range-end", "13"]]


def run(ses, rep):
    from . import c14
    rep.assumptions += ["enum discriminants are valid variants of the feature set (rustc's own UnreachableEnumBranching already removed exhaustive wildcard arms)",
                        "the caller / parser preconditions listed in PRECONDITIONS (vcheck/props/c07.py), each with its reason",
                        "Rust's f64 / i64::from_str_radix accept languages and full_moon's number-token language as written in vcheck/numstr.py"]
    rep.outside += ["stack depth (recursive descent over deeply nested input), wall time in general, arithmetic on measured string widths",
                    "unwrap()/expect() on results of callees (TokenReference::symbol on constant text, Option results of full_moon accessors)",
                    "indent_width above 2^16 (the dev profile overflows in Indent::indent_width)"]
    flagged = []
    # A
    for oid, what, kind in c14.lib_verification(ses, rep):
        flagged.append((oid, what, "parse-error", {}))
    # E
    for fs in ("default", "full"):
        flagged += verify_numbers(ses, rep, fs)
    # C, D
    flagged += shape_arith(ses, rep)
    flagged += heuristics_guard(ses, rep)
    try:
        flagged += trial_formats_unbounded(ses, rep)
    except Inconclusive as e:
        rep.add("trial-format/encodable", "inconclusive", str(e)[:300], nontrivial=False)
    # B
    for fs in ("default", "full"):
        flagged += census(ses, rep, fs)
    # G
    for fs in ("default", "full"):
        flagged += collapse_guard_covers(ses, rep, fs)
    # S2
    for fs in ("default", "full"):
        flagged += slicing_sites(ses, rep, fs)
    # F
    for fs in ("default", "full"):
        flagged += prefix_stays_parenthesised(ses, rep, fs)
    rep.samples.append({"flagged": [(f[0], f[1]) for f in flagged][:8]})
    if not flagged:
        return
    cache = {}
    for oid, what, kind, info in flagged:
        if kind == "verify-number":
            binp = common.native_build("full")
            src = f"local x = {info['literal']}\n"
            rc, pan, err = run_src(binp, src, ["--verify", "--syntax", SYN_FLAG[info["syntax"]]])
            if pan and "verify_ast" in pan[0]:
                st = rep.violation({"obligation": "verify-number", "site": pan[0].split(":")[1] if ":" in pan[0] else pan[0]},
                                   {"what": what, "source": src, "flags": ["--verify", "--syntax", SYN_FLAG[info["syntax"]]], "panic_at": pan[0], "message": pan[1]})
                rep.add(oid, st, f"{what}: panicked at {pan[0]}")
            else:
                rep.add(oid, "inconclusive", f"{what}: did not reproduce on the native build (rc {rc})")
        elif kind == "panic-site":
            fs = info["featureset"]
            if fs not in cache:
                cache[fs] = corpus_panics(fs)
            sf = source_file(common.REPO, info["function"])
            hit = [p for p in cache[fs] if sf and p["panic_at"].startswith(sf)]
            if not hit and info.get("slicing"):       # the panic is raised inside std (core::str / alloc::vec): recognised by its message
                hit = [p for p in cache[fs] if re.search(r"char boundary|byte index|out of range|out of bounds|index out of|removal index|insertion index|mid > len", p["message"] + p["panic_at"])]
            if hit:
                st = rep.violation({"obligation": "panic-site", "function": info["function"]}, {"what": what, **hit[0]})
                rep.add(oid, st, f"{what}: {hit[0]['program']} {hit[0]['flags']} panicked at {hit[0]['panic_at']}")
            else:
                rep.add(oid, "inconclusive", f"{what}: no program of the corpus panics in {sf}")
        elif kind == "prefix-shape":
            hit = replay_prefix_shape(info["featureset"])
            if hit:
                st = rep.violation({"obligation": "prefix-shape"}, {"what": what, **hit})
                rep.add(oid, st, f"{what}: {hit['source']!r} {hit['flags']} panicked at {hit['panic_at']}")
            else:
                rep.add(oid, "inconclusive", f"{what}: no parenthesised-prefix program panics on the native build")
        elif kind == "trial-format":
            t, src = if_chain_time()
            if t > 8.0:
                st = rep.violation({"obligation": "trial-format"}, {"what": what, "source": src, "flags": ["--syntax", "luau"], "seconds": round(t, 1)})
                rep.add(oid, st, f"{what}: a {len(src)}-byte if-expression chain took {t:.1f}s")
            else:
                rep.add(oid, "inconclusive", f"{what}: if-expression chains of depth 10..20 are formatted in at most {t:.2f}s")
        elif kind == "heuristics":
            t, src = deep_nesting_time()
            if t > 8.0:
                st = rep.violation({"obligation": "heuristics"}, {"what": what, "source": src, "seconds": round(t, 1)})
                rep.add(oid, st, f"{what}: a {len(src)}-byte nested call took {t:.1f}s")
            else:
                rep.add(oid, "inconclusive", f"{what}: the nested-call programs are formatted in at most {t:.2f}s")
        elif kind == "parse-error":
            binp = common.native_build("default")
            hit = None
            for src in INVALID:
                for fl in INVALID_FLAGS:
                    rc, pan, err = run_src(binp, src, fl)
                    if rc == 0 and hit is None:
                        hit = (src, fl)
            if hit:
                st = rep.violation({"obligation": "parse-error"}, {"what": what, "source": hit[0], "flags": hit[1], "rc": 0, "expect": "error"})
                rep.add(oid, st, f"{what}: {hit[0]!r} {hit[1]} is accepted (rc 0)")
            else:
                rep.add(oid, "inconclusive", f"{what}: unparseable input is rejected by the native build")
        else:
            rep.add(oid, "inconclusive", f"{what}: no replay for this obligation kind")


def replay(path):
    import json
    d = json.load(open(path))
    r = d["replay"]
    if "seconds" in r and "source" in r:
        import time
        binp = common.native_build("default")
        t = time.time()
        try:
            subprocess.run([common.native_build("full")] + list(r.get("flags", [])) + ["-"], input=r["source"].encode(), capture_output=True, timeout=25)
            dt = time.time() - t
        except subprocess.TimeoutExpired:
            dt = 25.0
        print(f"formatting the recorded {len(r['source'])}-byte program took {dt:.1f}s")
        if dt > 8.0:
            print(f"VIOLATION property=C07 replay={path}")
            return 1
        return 0
    if "source" in r and "flags" in r:
        binp = common.native_build("full")
        rc, pan, err = run_src(binp, r["source"], r["flags"])
        print("rc", rc, "panic", pan)
        if pan or (r.get("expect") == "error" and rc == 0):
            print(f"VIOLATION property=C07 replay={path}")
            return 1
    return 0
